//! Tweedie GLM: stationarity for 1/2 (deviance + alpha |w|^2), predictions in the link's range,
//! rejection of targets outside the support.

use crate::refopt::{self, norm2, RefLink};
use crate::Out;
use linfa::traits::{Fit, Predict, PredictInplace};
use linfa::ParamGuard;
use crate::layout::{expand, lay, lay_targets};
use linfa::DatasetBase;
use linfa_linear::{LinearError, Link, TweedieRegressor};
use lvmc_core::{guarded, Violation};
use ndarray::Array1;
use serde::{Deserialize, Serialize};

#[derive(Clone, Debug, Serialize, Deserialize)]
pub struct TwCase {
    pub family: String,
    pub x: Vec<Vec<f64>>,
    pub y: Vec<f64>,
    pub power: f64,
    pub link: String, // identity | log | logit
    pub alpha: f64,
    pub intercept: bool,
    pub tol: f64,
    pub max_iter: usize,
    /// rows (and targets) are cycled to this many samples (replicated design)
    #[serde(default)]
    pub n_rows: Option<usize>,
    /// memory layout of the records handed to fit / of the query matrix handed to predict
    #[serde(default = "crate::std_layout")]
    pub fit_layout: String,
    #[serde(default = "crate::std_layout")]
    pub query_layout: String,
    /// element type of the subject: f64 | f32
    #[serde(default = "crate::f64_name")]
    pub float: String,
    /// builder history: order in which the six setters (0 alpha, 1 fit_intercept, 2 power, 3 link, 4 max_iter,
    /// 5 tol) are called (None = canonical 0..5), whether every field is first written with a decoy value, and the
    /// constructor (params | new | default)
    #[serde(default)]
    pub setter_order: Option<Vec<u8>>,
    #[serde(default)]
    pub decoys: bool,
    #[serde(default = "crate::default_ctor")]
    pub ctor: String,
    /// builder cases: also fit with that history and compare bit-wise with the canonical history
    #[serde(default)]
    pub builder_fit: bool,
    /// setters that are NOT called at all: the case then carries the documented default of that parameter
    /// (alpha 1, intercept on, power 1, link = identity for power <= 0 and log otherwise, max_iter 100, tol 1e-4)
    #[serde(default)]
    pub skip_setters: Vec<u8>,
    /// layout of the 1-D target array handed to fit (standard | reversed_view | stepped_view | owned_inverted)
    #[serde(default = "crate::std_layout")]
    pub target_layout: String,
}

fn link_of(name: &str) -> Link {
    match name {
        "identity" => Link::Identity,
        "log" => Link::Log,
        "logit" => Link::Logit,
        _ => panic!("bad link"),
    }
}

macro_rules! build_impl {
    ($name:ident, $F:ty) => {
        fn $name(case: &TwCase, order: &[u8], decoys: bool, ctor: &str) -> linfa_linear::TweedieRegressorParams<$F> {
            let mut p = match ctor {
                "new" => linfa_linear::TweedieRegressorParams::<$F>::new(),
                "params" => TweedieRegressor::<$F>::params(),
                _ => linfa_linear::TweedieRegressorParams::<$F>::default(),
            };
            for pass in 0..2 {
                if pass == 0 && !decoys {
                    continue;
                }
                let decoy = pass == 0;
                for &s in order {
                    if case.skip_setters.contains(&s) {
                        continue;
                    }
                    p = match s {
                        0 => p.alpha(if decoy { 7.5 } else { case.alpha as $F }),
                        1 => p.fit_intercept(if decoy { !case.intercept } else { case.intercept }),
                        2 => p.power(if decoy { 2.5 } else { case.power as $F }),
                        3 => p.link(if decoy { if case.link == "logit" { Link::Log } else { Link::Logit } } else { link_of(&case.link) }),
                        4 => p.max_iter(if decoy { 3 } else { case.max_iter }),
                        _ => p.tol(if decoy { 0.5 } else { case.tol as $F }),
                    };
                }
            }
            p
        }
    };
}
build_impl!(build_f64, f64);
build_impl!(build_f32, f32);
const CANONICAL: [u8; 6] = [0, 1, 2, 3, 4, 5];

impl TwCase {
    /// parameters whose setter is never called carry the documented default
    pub fn normalised(&self) -> TwCase {
        let mut c = self.clone();
        for &s in &self.skip_setters {
            match s {
                0 => c.alpha = 1.0,
                1 => c.intercept = true,
                2 => c.power = 1.0,
                4 => c.max_iter = 100,
                5 => c.tol = 1e-4,
                _ => {}
            }
        }
        if c.skip_setters.contains(&3) {
            // rustdoc of `link`: identity for the Normal distribution (power <= 0), log for power >= 1
            c.link = if c.power <= 0.0 { "identity".into() } else { "log".into() };
        }
        c
    }
    pub fn builder_variant(&self) -> bool {
        self.setter_order.is_some() || self.decoys || self.ctor != "default"
    }
    fn order(&self) -> Vec<u8> {
        self.setter_order.clone().unwrap_or(CANONICAL.to_vec())
    }
    fn is32(&self) -> bool {
        self.float == "f32"
    }
    fn seen(&self, v: f64) -> f64 {
        if self.is32() {
            (v as f32) as f64
        } else {
            v
        }
    }
    /// records / targets as the subject sees them (replicated to n_rows, rounded to its float type)
    pub fn xs(&self) -> Vec<Vec<f64>> {
        expand(&self.x, self.n_rows).iter().map(|r| r.iter().map(|&v| self.seen(v)).collect()).collect()
    }
    pub fn ys(&self) -> Vec<f64> {
        expand(&self.y, self.n_rows).iter().map(|&v| self.seen(v)).collect()
    }
}

pub fn in_support(power: f64, y: &[f64]) -> bool {
    if power <= 0.0 {
        y.iter().all(|v| v.is_finite())
    } else if power < 2.0 {
        y.iter().all(|&v| v >= 0.0)
    } else {
        y.iter().all(|&v| v > 0.0)
    }
}


/// CPU-time limit of an isolated fit
pub const ISO_TIMEOUT_MS: u64 = 1500;
/// largest CPU time (ms, last reading before exit) of an isolated fit that DID return (evidence for the margin)
pub static MAX_CHILD_MS: std::sync::atomic::AtomicU64 = std::sync::atomic::AtomicU64::new(0);

pub fn needs_isolation(case: &TwCase) -> bool {
    case.link == "identity" && case.power >= 1.0
}

pub enum FitRes {
    /// coef, intercept, predictions on `tw_queries(x, coef)` (computed in the child by the real `predict`)
    Params(Vec<f64>, f64, Vec<f64>),
    ErrRange,
    ErrArgmin(String),
    ErrOther(String),
    Panic(String),
    PredictPanic(String),
    Timeout,
}

fn fit_msg(f: &FitRes) -> Option<String> {
    match f {
        FitRes::ErrArgmin(m) | FitRes::ErrOther(m) | FitRes::Panic(m) => Some(m.clone()),
        _ => None,
    }
}

/// Query points for a fitted model: the training points, the origin and points along the coefficient
/// vector with x.coef in {+-1, +-40, +-710, +-1000}. A pure function of (x, coef): the child evaluates the real
/// `predict` on it, the parent rebuilds the same list for the oracle.
pub fn tw_queries(x: &[Vec<f64>], w: &[f64], is32: bool) -> Vec<Vec<f64>> {
    let d = x[0].len();
    let mut queries: Vec<Vec<f64>> = x.to_vec();
    queries.push(vec![0.0; d]);
    let ww: f64 = w.iter().map(|v| v * v).sum();
    if w.len() == d && ww > 0.0 && ww.is_finite() {
        for t in [1.0, 40.0, 710.0, 1000.0] {
            for s in [1.0, -1.0] {
                queries.push(w.iter().map(|v| v * s * t / ww).collect());
            }
        }
    }
    // as the subject sees them
    let seen = |v: f64| if is32 { (v as f32) as f64 } else { v };
    queries.into_iter().map(|r| r.into_iter().map(seen).collect::<Vec<f64>>()).filter(|r| r.iter().all(|v| v.abs() < 1e30)).collect()
}

macro_rules! fit_impl {
    ($name:ident, $F:ty, $build:ident) => {
        fn $name(case: &TwCase) -> FitRes {
            let xs = case.xs();
            let d = xs[0].len();
            let rows: Vec<Vec<$F>> = xs.iter().map(|r| r.iter().map(|&v| v as $F).collect()).collect();
            let laid = lay(&rows, &case.fit_layout, <$F>::NAN);
            let yv: Vec<$F> = case.ys().iter().map(|&v| v as $F).collect();
            // filler entries of the stepped view: a different, still in-support value
            let ty = lay_targets(&yv, &case.target_layout, &|i| yv[(i + 1) % yv.len()] * 0.5 + 0.25);
            let params = $build(case, &case.order(), case.decoys, &case.ctor);
            match guarded(|| if ty.is_owned_kind() { params.fit(&DatasetBase::new(laid.view(), ty.owned())) } else { params.fit(&DatasetBase::new(laid.view(), ty.view())) }) {
                Ok(Ok(m)) => {
                    let w: Vec<f64> = m.coef.iter().map(|&v| v as f64).collect();
                    let b = m.intercept as f64;
                    let preds: Vec<f64> = if w.len() == d {
                        let queries = tw_queries(&xs, &w, case.is32());
                        let qrows: Vec<Vec<$F>> = queries.iter().map(|r| r.iter().map(|&v| v as $F).collect()).collect();
                        let qlaid = lay(&qrows, &case.query_layout, <$F>::NAN);
                        let q = qlaid.view();
                        match guarded(|| {
                            let plain = m.predict(&q);
                            // caller-owned buffer full of NaN: every entry must be overwritten
                            let mut buf: Array1<$F> = Array1::from_elem(plain.len(), <$F>::NAN);
                            m.predict_inplace(&q, &mut buf);
                            // every calling form of predict and a one-row batch
                            let nq = plain.len();
                            let q_owned = q.to_owned();
                            let a: DatasetBase<ndarray::Array2<$F>, Array1<$F>> = m.predict(q_owned.clone());
                            let b: DatasetBase<ndarray::Array2<$F>, Array1<$F>> = m.predict(DatasetBase::new(q_owned.clone(), Array1::<u8>::zeros(nq)));
                            let dsq = DatasetBase::new(q_owned.clone(), Array1::<u8>::zeros(nq));
                            let c: Array1<$F> = m.predict(&dsq);
                            let dsv = DatasetBase::new(q.clone(), Array1::<u8>::zeros(nq));
                            let d2: Array1<$F> = m.predict(&dsv);
                            let one = q.slice(ndarray::s![0..1, ..]);
                            let e: Array1<$F> = m.predict(&one);
                            let bits = |v: &Array1<$F>| v.iter().map(|x| (*x as f64).to_bits()).collect::<Vec<u64>>();
                            let forms_ok = [&a.targets, &b.targets, &c, &d2].iter().all(|v| bits(v) == bits(&plain)) && e.len() == 1 && {
                                let (x, y) = (e[0] as f64, plain[0] as f64);
                                x == y || (x - y).abs() <= 1e-6 * y.abs().max(1e-300)
                            };
                            (plain, buf, forms_ok)
                        }) {
                            Ok((p, buf, forms_ok)) => {
                                let same = forms_ok && p.len() == buf.len() && p.iter().zip(buf.iter()).all(|(a, c)| a.to_bits() == c.to_bits());
                                let mut v: Vec<f64> = p.iter().map(|&v| v as f64).collect();
                                // trailing flag: 1.0 = predict_inplace into the poisoned buffer agrees bit-wise with predict
                                v.push(if same { 1.0 } else { 0.0 });
                                v
                            }
                            Err(p) => return FitRes::PredictPanic(p),
                        }
                    } else {
                        vec![]
                    };
                    FitRes::Params(w, b, preds)
                }
                Ok(Err(LinearError::InvalidTargetRange(_))) => FitRes::ErrRange,
                Ok(Err(LinearError::Argmin(e))) => FitRes::ErrArgmin(format!("argmin {}", e)),
                Ok(Err(e)) => FitRes::ErrOther(format!("{}", e)),
                Err(p) => FitRes::Panic(p),
            }
        }
    };
}
fit_impl!(fit_here_f64, f64, build_f64);
fit_impl!(fit_here_f32, f32, build_f32);

/// the real fit + predict, in this process (only ever called in the child)
pub fn fit_here(case: &TwCase) -> FitRes {
    if case.is32() {
        fit_here_f32(case)
    } else {
        fit_here_f64(case)
    }
}

/// Child side of the isolated fit: prints one JSON line (floats as bit patterns).
pub fn child_main(case_json: &str) -> ! {
    std::panic::set_hook(Box::new(|_| {}));
    let case: TwCase = serde_json::from_str(case_json).expect("case json");
    let v = match fit_here(&case) {
        FitRes::Params(w, b, p) => serde_json::json!({"status": "ok", "coef": w.iter().map(|v| v.to_bits()).collect::<Vec<u64>>(), "intercept": b.to_bits(), "pred": p.iter().map(|v| v.to_bits()).collect::<Vec<u64>>()}),
        FitRes::ErrRange => serde_json::json!({"status": "err_range"}),
        FitRes::ErrArgmin(m) => serde_json::json!({"status": "err_argmin", "msg": m}),
        FitRes::ErrOther(m) => serde_json::json!({"status": "err_other", "msg": m}),
        FitRes::Panic(m) => serde_json::json!({"status": "panic", "msg": m}),
        FitRes::PredictPanic(m) => serde_json::json!({"status": "predict_panic", "msg": m}),
        FitRes::Timeout => unreachable!(),
    };
    println!("{}", v);
    std::process::exit(0);
}

pub fn fit_isolated(case: &TwCase) -> FitRes {
    let outp = match crate::child::run_child(&["--fit-one".to_string(), serde_json::to_string(case).unwrap()], ISO_TIMEOUT_MS) {
        Some((stdout, cpu, code)) => {
            MAX_CHILD_MS.fetch_max(cpu, std::sync::atomic::Ordering::Relaxed);
            (stdout, code)
        }
        None => return FitRes::Timeout,
    };
    let txt = outp.0.clone();
    let v: serde_json::Value = match serde_json::from_str(txt.trim()) {
        Ok(v) => v,
        Err(_) => return FitRes::Panic(format!("child produced no result (exit {:?})", outp.1)),
    };
    let msg = v.get("msg").and_then(|m| m.as_str()).unwrap_or("").to_string();
    match v.get("status").and_then(|s| s.as_str()) {
        Some("ok") => {
            let coef: Vec<f64> = v["coef"].as_array().unwrap().iter().map(|b| f64::from_bits(b.as_u64().unwrap())).collect();
            let pred: Vec<f64> = v["pred"].as_array().map(|a| a.iter().map(|b| f64::from_bits(b.as_u64().unwrap())).collect()).unwrap_or_default();
            FitRes::Params(coef, f64::from_bits(v["intercept"].as_u64().unwrap()), pred)
        }
        Some("predict_panic") => FitRes::PredictPanic(msg),
        Some("err_range") => FitRes::ErrRange,
        Some("err_argmin") => FitRes::ErrArgmin(msg),
        Some("err_other") => FitRes::ErrOther(msg),
        _ => FitRes::Panic(msg),
    }
}

fn power_class(p: f64) -> &'static str {
    if p == 0.0 {
        "normal"
    } else if p == 1.0 {
        "poisson"
    } else if p == 2.0 {
        "gamma"
    } else if p == 3.0 {
        "inverse_gaussian"
    } else {
        "compound"
    }
}

pub fn run(case: &TwCase, viols: &mut Vec<Violation>) -> Out {
    let normalised = case.normalised();
    let case = &normalised;
    let bvar = case.builder_variant();
    let tvar = case.target_layout != "standard";
    let skips = !case.skip_setters.is_empty();
    if case.fit_layout == "standard" && case.query_layout == "standard" && !bvar && !tvar && !skips {
        return run_inner(case, viols);
    }
    let cj = || serde_json::to_value(crate::Case::Tweedie(case.clone())).unwrap();
    let sig = if case.ctor != "default" {
        "tweedie.params.constructor_dependence"
    } else if bvar {
        "tweedie.params.builder_order_dependence"
    } else {
        "tweedie.params.default_differs_from_documentation"
    };
    if bvar || skips {
        // (a) the checked parameters must publish the FINAL logical parameter set (no solver involved: in-process)
        let got: Result<(f64, bool, f64, Link, usize, f64), String> = if case.is32() {
            build_f32(case, &case.order(), case.decoys, &case.ctor).check().map(|p| (p.alpha() as f64, p.fit_intercept(), p.power() as f64, p.link(), p.max_iter(), p.tol() as f64)).map_err(|e| e.to_string())
        } else {
            build_f64(case, &case.order(), case.decoys, &case.ctor).check().map(|p| (p.alpha(), p.fit_intercept(), p.power(), p.link(), p.max_iter(), p.tol())).map_err(|e| e.to_string())
        };
        let want = (case.seen(case.alpha), case.intercept, case.seen(case.power), link_of(&case.link), case.max_iter, case.seen(case.tol));
        match got {
            Ok(g) if g == want => {}
            other => {
                viols.push(Violation::new(
                    sig,
                    format!(
                        "setters in order {:?} (decoys first: {}, constructor {}, setters never called: {:?}; those carry the documented defaults): the checked parameters publish (alpha, fit_intercept, power, link, max_iter, tol) = {:?}, the final logical parameter set is {:?}",
                        case.order(), case.decoys, case.ctor, case.skip_setters, other, want
                    ),
                    cj(),
                ));
                let mut o = Out::default();
                o.nontrivial = true;
                return o;
            }
        }
        if bvar && !case.builder_fit {
            let mut o = Out::default();
            o.nontrivial = true;
            o.tag("tweedie_builder_getter_only_cases");
            return o;
        }
    }
    if !bvar && !tvar && case.fit_layout == "standard" && case.query_layout == "standard" {
        // only unset parameters: judged by the ordinary oracle against the documented defaults
        return run_inner(case, viols);
    }
    // variant case: see binary::run
    let mut base = case.clone();
    base.fit_layout = "standard".into();
    base.query_layout = "standard".into();
    base.setter_order = None;
    base.decoys = false;
    base.ctor = "default".into();
    base.target_layout = "standard".into();
    let mut bv = Vec::new();
    let bo = run_inner(&base, &mut bv);
    if !bv.is_empty() || bo.ood {
        viols.extend(bv);
        return bo;
    }
    let mut lv = Vec::new();
    let o = run_inner(case, &mut lv);
    if bvar {
        if lv.is_empty() && o.fingerprint != bo.fingerprint {
            viols.push(Violation::new(sig, format!("same logical parameter set, setters called in order {:?} (decoys first: {}, constructor {}): coefficients / predictions are not bit-identical to those of the canonical builder order", case.order(), case.decoys, case.ctor), cj()));
        }
        for v in lv {
            viols.push(Violation::new(sig, format!("the canonical builder order passes every check; setters in order {:?} (decoys first: {}, constructor {}): [{}] {}", case.order(), case.decoys, case.ctor, v.sig, v.what), cj()));
        }
    } else if tvar {
        // no bit-wise comparison here: sums over a strided target array (mean of y for the start, deviance) are
        // accumulated in a different order by ndarray, so the two converged fits may differ within the solver tolerance;
        // each must pass the stationarity oracle
        for v in lv {
            viols.push(Violation::new("tweedie.fit.target_layout_dependence", format!("the standard-layout target array passes every check; targets handed over as '{}': [{}] {}", case.target_layout, v.sig, v.what), cj()));
        }
    } else {
        for v in lv {
            viols.push(crate::as_layout_dependence(v, &case.fit_layout, &case.query_layout));
        }
    }
    o
}

fn run_inner(case: &TwCase, viols: &mut Vec<Violation>) -> Out {
    let mut out = Out::default();
    let xs = case.xs();
    let ys = case.ys();
    let n = xs.len();
    let d = xs[0].len();
    let is32 = case.is32();
    let alpha_s = case.seen(case.alpha);
    // tolerances: f64 as before; f32: objective gap 1e-5 relative, gradient allowance 1e-5 * sum_i |z_i| * (1 + |y_i|),
    // predictions 2e-6 relative (scaled by the linear predictor)
    let gscale: f64 = xs.iter().zip(&ys).map(|(r, y)| (r.iter().map(|v| v.abs()).sum::<f64>() + 1.0) * (1.0 + y.abs())).sum();
    let (gap_rel, g_extra, prel) = if is32 { (1e-5, 1e-5 * gscale, 2e-6) } else { (1e-8, 0.0, 1e-9) };
    let gthr = 10.0 * case.tol + g_extra;
    let cj = || serde_json::to_value(crate::Case::Tweedie(case.clone())).unwrap();
    let rlink = match case.link.as_str() {
        "identity" => RefLink::Identity,
        "log" => RefLink::Log,
        "logit" => RefLink::Logit,
        _ => panic!("bad link"),
    };

    // ---- targets outside the support must be rejected ----
    if !in_support(case.power, &ys) {
        out.nontrivial = true;
        out.tag("tweedie_out_of_support_cases");
        match fit_isolated(case) {
            FitRes::ErrRange => {}
            FitRes::ErrArgmin(e) | FitRes::ErrOther(e) => viols.push(Violation::new("tweedie.fit.out_of_support_wrong_error", format!("targets {:?} outside the support of power {}: expected InvalidTargetRange, got Err({})", case.y, case.power, e), cj())),
            FitRes::Params(w, b, _) => viols.push(Violation::new(
                "tweedie.fit.out_of_support_accepted",
                format!("targets {:?} outside the support of power {} were accepted (coef {:?}, intercept {})", case.y, case.power, w, b),
                cj(),
            )),
            FitRes::Panic(p) | FitRes::PredictPanic(p) => viols.push(Violation::new("tweedie.fit.out_of_support_panic", format!("targets {:?} outside the support of power {}: panic {}", case.y, case.power, p), cj())),
            FitRes::Timeout => viols.push(Violation::new(
                "tweedie.fit.out_of_support_does_not_terminate",
                format!("targets {:?} outside the support of power {}: expected InvalidTargetRange, but fit was still running after {} ms of CPU time", case.y, case.power, ISO_TIMEOUT_MS),
                cj(),
            )),
        }
        return out;
    }

    // ---- domain: the documented start must lie inside the objective's domain and an interior
    //      stationary point must be certified by the own Newton solve from that start ----
    let np = d + case.intercept as usize;
    let mut start = vec![0.0; np];
    if case.intercept {
        let mean = ys.iter().sum::<f64>() / n as f64;
        start[d] = rlink.link(mean);
    }
    let fgh = |t: &[f64]| refopt::tw_eval(&xs, &ys, case.power, rlink, alpha_s, case.intercept, t);
    if start.iter().any(|v| !v.is_finite()) || fgh(&start).is_none() {
        out.ood = true;
        out.tag("tweedie_start_outside_objective_domain_out_of_domain");
        return out;
    }
    let own = refopt::lm_newton(&fgh, &start, 1e-10, 300);
    let eta_max = xs.iter().map(|xi| refopt::bin_score(xi, &own.x, case.intercept).abs()).fold(0.0f64, f64::max);
    if !own.converged || eta_max > 30.0 {
        out.ood = true;
        out.tag("tweedie_no_certified_interior_stationary_point_out_of_domain");
        return out;
    }

    // ---- fit with the real code, always in a child process with a CPU-time limit ----
    // Observed on the unchanged tree: with the identity link on a positive-support distribution the deviance is
    // undefined for linear predictors <= 0, the unconstrained line search steps there and `fit` either returns
    // Err(NaN), or never returns. A hanging call cannot be interrupted in-process, hence the child. For that
    // (link, power) class an honest Err from the solver is accepted; a fit that does not return never is.
    let isolated = needs_isolation(case);
    let fit = fit_isolated(case);
    let (w, b, pred, inplace_ok) = match fit {
        FitRes::Params(w, b, mut p) => {
            let flag = if p.len() > 0 && w.len() == d { p.pop() } else { Some(1.0) };
            (w, b, p, flag == Some(1.0))
        }
        FitRes::ErrArgmin(e) if isolated => {
            let _ = e;
            out.tag("tweedie_identity_link_solver_error_accepted");
            return out;
        }
        FitRes::ErrRange | FitRes::ErrArgmin(_) | FitRes::ErrOther(_) => {
            let e = match fit_msg(&fit) {
                Some(m) => m,
                None => "InvalidTargetRange".to_string(),
            };
            // closed form of one way to get there: L-BFGS starts with the unit step along -gradient; the gradient of
            // the (unscaled) sum objective grows with the number of rows, so for many rows that first trial point
            // already overflows the inverse link / leaves the mean domain
            let first_step_outside = match refopt::tw_objective(&xs, &ys, case.power, rlink, alpha_s, case.intercept, &start) {
                Some((_, g0)) => {
                    let t1: Vec<f64> = start.iter().zip(&g0).map(|(a, b)| a - b).collect();
                    let eta1 = xs.iter().map(|xi| refopt::bin_score(xi, &t1, case.intercept).abs()).fold(0.0f64, f64::max);
                    // beyond |linear predictor| = 30 (the bound of the interior-point certificate above) exp / logit
                    // saturate or overflow; an undefined objective there counts as well
                    eta1 > 30.0 || refopt::tw_objective(&xs, &ys, case.power, rlink, alpha_s, case.intercept, &t1).is_none()
                }
                None => false,
            };
            if first_step_outside {
                viols.push(Violation::new(
                    "tweedie.fit.error.first_unit_gradient_step_leaves_objective_domain",
                    format!(
                        "fit on {} rows with targets inside the support returned Err({}): the first L-BFGS trial point start - gradient(start) (gradient norm grows with the row count, the objective is an unscaled sum) moves the linear predictor beyond +-30, where the inverse link saturates / the objective overflows; own Newton finds a stationary point at {:?}",
                        n, e, own.x
                    ),
                    cj(),
                ));
                return out;
            }
            // f32: the solver reaches the noise floor of the f32 objective, takes a zero-length step and continues with
            // NaN parameters (same mechanism as logistic.fit.does_not_terminate.f32); the f64 run of the same data passes
            let sig = if is32 && (e.contains("not finite") || e.contains("NaN or Inf") || e.contains("descent direction")) {
                "tweedie.fit.error_nonfinite.f32".to_string()
            } else {
                format!("tweedie.fit.unexpected_error.{}.{}", power_class(case.power), case.link)
            };
            viols.push(Violation::new(
                sig,
                format!("fit with targets inside the support returned Err({}) (own Newton finds a stationary point at {:?})", e, own.x),
                cj(),
            ));
            return out;
        }
        FitRes::Panic(p) => {
            viols.push(Violation::new("tweedie.fit.panic", format!("fit with targets inside the support panicked: {}", p), cj()));
            return out;
        }
        FitRes::PredictPanic(p) => {
            viols.push(Violation::new("tweedie.predict.panic", format!("prediction on finite queries panicked: {}", p), cj()));
            return out;
        }
        FitRes::Timeout => {
            viols.push(Violation::new(
                format!("tweedie.fit.does_not_terminate.{}.{}", power_class(case.power), case.link),
                format!(
                    "fit (max_iter {}) was still running after {} ms of CPU time in a child process (healthy fits of this size need < 100 ms); targets are inside the support and the own Newton solve finds a stationary point at {:?}",
                    case.max_iter, ISO_TIMEOUT_MS, own.x
                ),
                cj(),
            ));
            return out;
        }
    };
    if w.len() != d {
        viols.push(Violation::new("tweedie.coef.wrong_length", format!("{} coefficients for {} features", w.len(), d), cj()));
        return out;
    }
    if w.iter().any(|v| !v.is_finite()) || !b.is_finite() {
        viols.push(Violation::new(format!("tweedie.fit.nonfinite_params.{}.{}", power_class(case.power), case.link), format!("returned coef {:?} intercept {}", w, b), cj()));
        return out;
    }
    if !case.intercept && b != 0.0 {
        viols.push(Violation::new("tweedie.intercept.nonzero_without_intercept", format!("fit_intercept(false) but intercept = {}", b), cj()));
    }
    let mut theta = w.clone();
    if case.intercept {
        theta.push(b);
    }
    out.nontrivial = theta != start;

    // ---- stationarity ----
    match refopt::tw_objective(&xs, &ys, case.power, rlink, alpha_s, case.intercept, &theta) {
        None => {
            viols.push(Violation::new(
                format!("tweedie.fit.params_outside_objective_domain.{}.{}", power_class(case.power), case.link),
                format!("returned coef {:?} intercept {}: the objective is not finite there (a mean outside the support)", w, b),
                cj(),
            ));
        }
        Some((f_at, g_at)) => {
            let gn = norm2(&g_at);
            if gn > gthr {
                out.tag("tweedie_gradient_above_10tol");
                // own Newton from the RETURNED point: how much can the objective still be lowered?
                let polished = refopt::lm_newton(&fgh, &theta, 1e-10, 300);
                let gap = f_at - polished.f;
                let gap_tol = gap_rel * f_at.abs().max(1.0);
                if polished.f.is_finite() && gap > gap_tol {
                    // identity link on a positive-support distribution: the line search met a NaN cost (mean <= 0)
                    // and the solver gave up on the spot, handing back the documented start as if it had converged
                    let kind = if isolated && theta == start && case.power != 1.0 { "returns_start_point_unchanged" } else { "not_stationary" };
                    viols.push(Violation::new(
                        format!("tweedie.fit.{}.{}.{}", kind, power_class(case.power), case.link),
                        format!(
                            "returned coef {:?} intercept {}: own gradient norm of 1/2(deviance + alpha|w|^2) is {:.3e} > 10 x tol {:.1e} AND an own Newton descent from that point lowers the objective from {:.12} to {:.12} (gap {:.3e} > {:.1e}; stationary point {:?}); own Newton from the documented start reaches {:.12}",
                            w, b, gn, case.tol, f_at, polished.f, gap, gap_tol, polished.x, own.f
                        ),
                        cj(),
                    ));
                }
            }
        }
    }

    out.fingerprint = w.iter().chain(std::iter::once(&b)).chain(pred.iter()).map(|v| v.to_bits()).collect();
    if !inplace_ok {
        viols.push(Violation::new("tweedie.predict.calling_form_or_stale_buffer", "predict_inplace into a caller-owned NaN-filled buffer, predict(owned array), predict(owned dataset), predict(&dataset), predict(&dataset of a view) or a one-row batch does not agree with predict(&array)".to_string(), cj()));
    }
    // ---- predictions (the real `predict`, evaluated in the child on tw_queries(x, coef)) ----
    let queries = tw_queries(&xs, &w, is32);
    if pred.len() != queries.len() {
        viols.push(Violation::new("tweedie.predict.wrong_length", format!("{} predictions for {} query rows", pred.len(), queries.len()), cj()));
        return out;
    }
    for (i, qi) in queries.iter().enumerate() {
        out.queries += 1;
        let eta = refopt::bin_score(qi, &w, false) + b;
        if eta.abs() > 100.0 {
            out.extreme_queries += 1;
        }
        let want = rlink.inv(eta);
        let got = pred[i];
        let in_range = match rlink {
            RefLink::Identity => got.is_finite(),
            RefLink::Log => got >= 0.0, // closed range: exp saturates to 0 / +inf at |eta| ~ 1e3
            RefLink::Logit => (0.0..=1.0).contains(&got),
        };
        if !in_range || got.is_nan() {
            viols.push(Violation::new("tweedie.predict.outside_link_range", format!("query {:?} (linear predictor {}): prediction {} outside the range of the {} link", qi, eta, got, case.link), cj()));
            continue;
        }
        // the linear predictor (|eta| up to 1e3) is rounded differently by the two sides: allow |eta| * 1e-12 relative on exp
        let want = if is32 { (want as f32) as f64 } else { want };
        // rounding of the linear predictor scales with the magnitude of its operands (cancellation between the terms
        // must not be held against the subject) and reaches the prediction through the slope of the inverse link
        let opmag: f64 = qi.iter().zip(&w).map(|(a, c)| (a * c).abs()).sum::<f64>() + b.abs();
        let tol = prel * (want.abs().max(1e-300) + rlink.inv_der(eta).abs() * opmag * (d as f64 + 1.0));
        if !(got == want || (got - want).abs() <= tol.max(if is32 { 1e-30 } else { 1e-12 })) {
            viols.push(Violation::new("tweedie.predict.wrong_value", format!("query {:?}: prediction {} but inverse link of x.coef + intercept = {}", qi, got, want), cj()));
        }
    }
    out
}
