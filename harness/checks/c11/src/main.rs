//! C11 — least-squares estimators return a minimiser of their documented objective.
//!
//! Exhaustive sweep (DESIGN.md §4 C11) over a finite catalogue of lattice designs (full factorial and
//! fractional, n in {4,6,9,12}, p in {1,2,3}) x every column under every (offset, scale) x rank-deficient
//! variants x {f32, f64} x the full parameter grid, running the REAL `LinearRegression`, `ElasticNet` and
//! `MultiTaskElasticNet` and judging the returned point against the documented objective recomputed in
//! plain f64 (module `refmodel`): no perturbation of a coefficient, of a coefficient row or of the
//! intercept may lower the objective by more than the reported duality gap / n.

mod catalogue;
mod refmodel;

use catalogue::Data;
use linfa::traits::{Fit, Predict, PredictInplace};
use linfa::{DatasetBase, Float, ParamGuard};
use linfa_elasticnet::{ElasticNet, ElasticNetParamsBase, MultiTaskElasticNet};
use linfa_linear::LinearRegression;
use lvmc_core::{guarded, json, par_sweep, Ctx, Level, Value, Violation};
use ndarray::{s, Array1, Array2, ArrayView1, ArrayView2, ShapeBuilder};
use refmodel::Prob;
use serde::{Deserialize, Serialize};
use std::collections::BTreeMap;
use std::sync::Mutex;

/// Iteration budgets. With an l1 part the solver's duality gap can close: 1e5 (quick: 1e4).
/// Without one (penalty * l1_ratio == 0) the implementation's gap has no dual part (const = 0) and
/// equals the primal objective, so on noisy targets it never falls below tol * ||y||^2 and the run
/// ends on the cap whatever the budget (measured: 0.14 s / 0.54 s per such run at 1e5, which alone
/// would cost more than the whole thorough budget): those runs get 2000 (quick: 300) and are judged
/// like any other run if they do converge.
pub const MAX_ITER: u32 = 100_000;
const MAX_ITER_QUICK: u32 = 10_000;
const MAX_ITER_NO_L1: u32 = 2_000;
const MAX_ITER_NO_L1_QUICK: u32 = 300;
const PENALTIES: [f64; 5] = [0.0, 0.01, 0.1, 1.0, 10.0];
const L1_RATIOS: [f64; 3] = [0.0, 0.5, 1.0];
const TOLS: [f64; 2] = [1e-4, 1e-8];

/// One fit: the data (literal numbers) + estimator + configuration. Self-contained, replayable.
#[derive(Clone, Debug, Serialize, Deserialize)]
struct Case {
    data: Data,
    float: String,       // "f32" | "f64"
    est: String,         // "ols" | "enet" | "mtl"
    targets: Vec<usize>, // columns of data.y that are used (ols / enet: exactly one)
    penalty: f64,
    l1_ratio: f64,
    intercept: bool,
    tol: f64,
    max_iter: u32,
    /// memory layouts of the records / targets given to fit and of the records given to predict:
    /// "std" | "f" | "t" | "rev" | "stride2" (see `hold2`)
    #[serde(default = "std_layout")]
    x_layout: String,
    #[serde(default = "std_layout")]
    y_layout: String,
    #[serde(default = "std_layout")]
    pred_layout: String,
    /// how the estimator / parameter set is constructed: "canonical" or one of the forms of `builder_specs`
    #[serde(default = "canonical_form")]
    form: String,
    /// target scale c of the equivariance family: the targets are c * data.y and the penalty acts as
    /// (c * penalty * l1_ratio) on the l1 part and penalty * (1 - l1_ratio) on the l2 part, so that the
    /// minimiser is c times the one of the unscaled case (`penalty` / `l1_ratio` hold the unscaled values)
    #[serde(default = "one")]
    y_scale: f64,
}
fn one() -> f64 {
    1.0
}
fn std_layout() -> String {
    "std".to_string()
}
fn canonical_form() -> String {
    "canonical".to_string()
}

#[derive(Clone, Debug)]
struct Spec {
    float: &'static str,
    est: &'static str,
    targets: Vec<usize>,
    penalty: f64,
    l1_ratio: f64,
    intercept: bool,
    tol: f64,
    max_iter: u32,
    x_layout: &'static str,
    y_layout: &'static str,
    pred_layout: &'static str,
    form: String,
    y_scale: f64,
}
/// The parameter set actually handed to the estimator for target scale c.
fn effective(s: &Spec) -> Spec {
    let mut e = s.clone();
    let c = s.y_scale;
    if c != 1.0 {
        let l1 = c * s.penalty * s.l1_ratio;
        let l2 = s.penalty * (1.0 - s.l1_ratio);
        e.penalty = l1 + l2;
        e.l1_ratio = if l1 + l2 > 0.0 { l1 / (l1 + l2) } else { s.l1_ratio };
    }
    e
}
impl Spec {
    fn is_std(&self) -> bool {
        self.x_layout == "std" && self.y_layout == "std" && self.pred_layout == "std"
    }
}
fn lay(s: &str) -> &'static str {
    match s {
        "f" => "f",
        "t" => "t",
        "rev" => "rev",
        "stride2" => "stride2",
        _ => "std",
    }
}

#[derive(Default, Debug)]
struct Stats {
    n: BTreeMap<&'static str, u64>,
    mx: BTreeMap<&'static str, f64>,
}
impl Stats {
    fn inc(&mut self, k: &'static str) {
        *self.n.entry(k).or_insert(0) += 1;
    }
    fn add(&mut self, k: &'static str, v: u64) {
        *self.n.entry(k).or_insert(0) += v;
    }
    fn max(&mut self, k: &'static str, v: f64) {
        let e = self.mx.entry(k).or_insert(0.0);
        if v > *e {
            *e = v;
        }
    }
    fn merge(&mut self, o: Stats) {
        for (k, v) in o.n {
            *self.n.entry(k).or_insert(0) += v;
        }
        for (k, v) in o.mx {
            self.max(k, v);
        }
    }
}

struct FitOut {
    w: Vec<Vec<f64>>, // p x t
    b: Vec<f64>,      // t
    gap: f64,
    n_steps: u32,
    pred: Vec<Vec<f64>>, // n x t
    /// Some(description) when the getters of the checked parameter set differ from the final logical set
    getters: Option<String>,
    /// Some(description) when predict_inplace into a poisoned / reused buffer differs from predict
    inplace: Option<String>,
}

/// bit pattern of a float sequence (NaN-safe comparison)
fn bits<F: Float>(it: impl Iterator<Item = F>) -> Vec<u64> {
    it.map(|v| f64of(v).to_bits()).collect()
}

/// Builds the elastic-net parameter set of `s` in the requested form; returns it with the result of the getter check.
fn build_params<F: Float, const MT: bool>(
    s: &Spec,
    params: ElasticNetParamsBase<F, MT>,
    ridge: ElasticNetParamsBase<F, MT>,
    lasso: ElasticNetParamsBase<F, MT>,
) -> (ElasticNetParamsBase<F, MT>, Option<String>) {
    let apply = |p: ElasticNetParamsBase<F, MT>, k: usize, decoy: bool| -> ElasticNetParamsBase<F, MT> {
        match k {
            0 => p.penalty(F::cast(if decoy { s.penalty + 3.0 } else { s.penalty })),
            1 => p.l1_ratio(F::cast(if decoy { (s.l1_ratio + 0.37) % 1.0 } else { s.l1_ratio })),
            2 => p.with_intercept(s.intercept ^ decoy),
            3 => p.tolerance(F::cast(if decoy { s.tol * 100.0 + 1e-3 } else { s.tol })),
            _ => p.max_iterations(if decoy { s.max_iter / 2 + 7 } else { s.max_iter }),
        }
    };
    let all = |mut p: ElasticNetParamsBase<F, MT>, order: &[usize]| {
        for &k in order {
            p = apply(p, k, false);
        }
        p
    };
    let form = s.form.as_str();
    let built = if let Some(o) = form.strip_prefix("perm:") {
        let order: Vec<usize> = o.split(',').map(|k| k.parse().unwrap()).collect();
        all(params, &order)
    } else if let Some(c) = form.strip_prefix("ctor:") {
        let start = match c {
            "new" => ElasticNetParamsBase::<F, MT>::new(),
            "default" => ElasticNetParamsBase::<F, MT>::default(),
            "ridge" => ridge,
            _ => lasso,
        };
        all(start, &[0, 1, 2, 3, 4])
    } else if let Some(k) = form.strip_prefix("decoy:") {
        let k: usize = k.parse().unwrap();
        let mut p = apply(params, k, true);
        p = all(p, &[0, 1, 2, 3, 4]);
        p
    } else if let Some(c) = form.strip_prefix("nosetters:") {
        match c {
            "params" => params,
            "new" => ElasticNetParamsBase::<F, MT>::new(),
            "default" => ElasticNetParamsBase::<F, MT>::default(),
            "ridge" => ridge,
            _ => lasso,
        }
    } else {
        all(params, &[0, 1, 2, 3, 4])
    };
    let getters = match built.check_ref() {
        Ok(v) => {
            let got = (f64of(v.penalty()), f64of(v.l1_ratio()), v.with_intercept(), f64of(v.tolerance()), v.max_iterations());
            let want = (f64of(F::cast(s.penalty)), f64of(F::cast(s.l1_ratio)), s.intercept, f64of(F::cast(s.tol)), s.max_iter);
            if got != want {
                Some(format!("checked parameters (penalty, l1_ratio, with_intercept, tolerance, max_iterations) = {:?}, final logical set {:?}", got, want))
            } else {
                None
            }
        }
        Err(e) => Some(format!("check_ref of a valid parameter set failed: {}", e)),
    };
    (built, getters)
}

enum Fail {
    Error(String),
    Panic(String),
}

/// Backing storage of one logical n x p matrix in the requested memory layout:
/// std = standard (row-major) owned; f = column-major owned; t = transposed view of a feature-major
/// (p x n) array; rev = reversed-row view of a reversed copy; stride2 = every second row of a 2n x p
/// array whose filler rows hold NaN (poison).
fn hold2<F: Float>(m: &[Vec<f64>], kind: &str) -> Array2<F> {
    let n = m.len();
    let p = if n > 0 { m[0].len() } else { 0 };
    match kind {
        "f" => Array2::from_shape_fn((n, p).f(), |(i, j)| F::cast(m[i][j])),
        "t" => Array2::from_shape_fn((p, n), |(j, i)| F::cast(m[i][j])),
        "rev" => Array2::from_shape_fn((n, p), |(i, j)| F::cast(m[n - 1 - i][j])),
        "stride2" => Array2::from_shape_fn((2 * n, p), |(i, j)| if i % 2 == 0 { F::cast(m[i / 2][j]) } else { F::nan() }),
        _ => Array2::from_shape_fn((n, p), |(i, j)| F::cast(m[i][j])),
    }
}
fn view2<'a, F: Float>(base: &'a Array2<F>, kind: &str) -> ArrayView2<'a, F> {
    match kind {
        "t" => base.t(),
        "rev" => base.slice(s![..;-1, ..]),
        "stride2" => base.slice(s![..;2, ..]),
        _ => base.view(),
    }
}
/// 1-D targets: std, rev (reversed view of a reversed copy), stride2 (every second element, NaN filler);
/// "f" / "t" do not exist in one dimension and fall back to std.
fn hold1<F: Float>(v: &[f64], kind: &str) -> Array1<F> {
    let n = v.len();
    match kind {
        "rev" => Array1::from_shape_fn(n, |i| F::cast(v[n - 1 - i])),
        "stride2" => Array1::from_shape_fn(2 * n, |i| if i % 2 == 0 { F::cast(v[i / 2]) } else { F::nan() }),
        _ => Array1::from_shape_fn(n, |i| F::cast(v[i])),
    }
}
fn view1<'a, F: Float>(base: &'a Array1<F>, kind: &str) -> ArrayView1<'a, F> {
    match kind {
        "rev" => base.slice(s![..;-1]),
        "stride2" => base.slice(s![..;2]),
        _ => base.view(),
    }
}
fn f64of<F: Float>(x: F) -> f64 {
    x.to_f64().unwrap()
}

fn fit_ols<F: Float>(x: &[Vec<f64>], y: &[Vec<f64>], s: &Spec) -> Result<FitOut, Fail> {
    let (xb, xpb): (Array2<F>, Array2<F>) = (hold2(x, s.x_layout), hold2(x, s.pred_layout));
    let yb: Array1<F> = hold1(&y.iter().map(|r| r[0]).collect::<Vec<_>>(), s.y_layout);
    let (xa, xp, ya) = (view2(&xb, s.x_layout), view2(&xpb, s.pred_layout), view1(&yb, s.y_layout));
    let xrev: Array2<F> = hold2(x, "rev");
    let r = guarded(|| {
        let ds = DatasetBase::new(xa, ya);
        // "new" / "default": no setter (documented default: an intercept is fitted); ".set": with_intercept(e);
        // ".decoy.set": with_intercept(!e) first
        let est = match s.form.as_str() {
            "new" => LinearRegression::new(),
            "default" => LinearRegression::default(),
            "new.set" => LinearRegression::new().with_intercept(s.intercept),
            "default.set" => LinearRegression::default().with_intercept(s.intercept),
            "new.decoy.set" => LinearRegression::new().with_intercept(!s.intercept).with_intercept(s.intercept),
            "default.decoy.set" => LinearRegression::default().with_intercept(!s.intercept).with_intercept(s.intercept),
            _ => LinearRegression::new().with_intercept(s.intercept),
        };
        est.fit(&ds).map(|m| {
            let pred: Array1<F> = m.predict(&xp);
            let mut poison: Array1<F> = Array1::from_elem(xp.nrows(), F::nan());
            m.predict_inplace(&xp, &mut poison);
            let mut reused: Array1<F> = m.predict(&xrev);
            m.predict_inplace(&xp, &mut reused);
            let inplace = if bits(poison.iter().cloned()) != bits(pred.iter().cloned()) || bits(reused.iter().cloned()) != bits(pred.iter().cloned()) {
                Some(format!("predict = {:?}, predict_inplace into a NaN buffer = {:?}, into the predictions of the reversed batch = {:?}", pred.to_vec(), poison.to_vec(), reused.to_vec()))
            } else {
                None
            };
            (m.params().to_vec(), m.intercept(), pred.to_vec(), inplace)
        })
    });
    match r {
        Err(p) => Err(Fail::Panic(p)),
        Ok(Err(e)) => Err(Fail::Error(format!("{}", e))),
        Ok(Ok((w, b, pred, inplace))) => Ok(FitOut {
            w: w.iter().map(|&v| vec![f64of(v)]).collect(),
            b: vec![f64of(b)],
            gap: 0.0,
            n_steps: 0,
            pred: pred.iter().map(|&v| vec![f64of(v)]).collect(),
            getters: None,
            inplace,
        }),
    }
}

fn fit_enet<F: Float>(x: &[Vec<f64>], y: &[Vec<f64>], s: &Spec) -> Result<FitOut, Fail> {
    let (xb, xpb): (Array2<F>, Array2<F>) = (hold2(x, s.x_layout), hold2(x, s.pred_layout));
    let yb: Array1<F> = hold1(&y.iter().map(|r| r[0]).collect::<Vec<_>>(), s.y_layout);
    let (xa, xp, ya) = (view2(&xb, s.x_layout), view2(&xpb, s.pred_layout), view1(&yb, s.y_layout));
    let xrev: Array2<F> = hold2(x, "rev");
    let r = guarded(|| {
        let ds = DatasetBase::new(xa, ya);
        let (params, getters) = build_params::<F, false>(s, ElasticNet::<F>::params(), ElasticNet::<F>::ridge(), ElasticNet::<F>::lasso());
        params.fit(&ds).map(|m| {
            let pred: Array1<F> = m.predict(&xp);
            let mut poison: Array1<F> = Array1::from_elem(xp.nrows(), F::nan());
            m.predict_inplace(&xp, &mut poison);
            let mut reused: Array1<F> = m.predict(&xrev);
            m.predict_inplace(&xp, &mut reused);
            let inplace = if bits(poison.iter().cloned()) != bits(pred.iter().cloned()) || bits(reused.iter().cloned()) != bits(pred.iter().cloned()) {
                Some(format!("predict = {:?}, predict_inplace into a NaN buffer = {:?}, into the predictions of the reversed batch = {:?}", pred.to_vec(), poison.to_vec(), reused.to_vec()))
            } else {
                None
            };
            (m.hyperplane().to_vec(), m.intercept(), m.duality_gap(), m.n_steps(), pred.to_vec(), getters, inplace)
        })
    });
    match r {
        Err(p) => Err(Fail::Panic(p)),
        Ok(Err(e)) => Err(Fail::Error(format!("{}", e))),
        Ok(Ok((w, b, gap, n_steps, pred, getters, inplace))) => Ok(FitOut {
            w: w.iter().map(|&v| vec![f64of(v)]).collect(),
            b: vec![f64of(b)],
            gap: f64of(gap),
            n_steps,
            pred: pred.iter().map(|&v| vec![f64of(v)]).collect(),
            getters,
            inplace,
        }),
    }
}

fn fit_mtl<F: Float>(x: &[Vec<f64>], y: &[Vec<f64>], s: &Spec) -> Result<FitOut, Fail> {
    let (xb, xpb): (Array2<F>, Array2<F>) = (hold2(x, s.x_layout), hold2(x, s.pred_layout));
    let yb: Array2<F> = hold2(y, s.y_layout);
    let (xa, xp, ya) = (view2(&xb, s.x_layout), view2(&xpb, s.pred_layout), view2(&yb, s.y_layout));
    let xrev: Array2<F> = hold2(x, "rev");
    let r = guarded(|| {
        let ds = DatasetBase::new(xa, ya);
        let (params, getters) = build_params::<F, true>(s, MultiTaskElasticNet::<F>::params(), MultiTaskElasticNet::<F>::ridge(), MultiTaskElasticNet::<F>::lasso());
        params.fit(&ds).map(|m| {
            let pred: Array2<F> = m.predict(&xp);
            let mut poison: Array2<F> = Array2::from_elem(pred.raw_dim(), F::nan());
            m.predict_inplace(&xp, &mut poison);
            let mut reused: Array2<F> = m.predict(&xrev);
            m.predict_inplace(&xp, &mut reused);
            let inplace = if bits(poison.iter().cloned()) != bits(pred.iter().cloned()) || bits(reused.iter().cloned()) != bits(pred.iter().cloned()) || poison.dim() != pred.dim() || reused.dim() != pred.dim() {
                Some(format!("predict = {:?}, predict_inplace into a NaN buffer = {:?}, into the predictions of the reversed batch = {:?}", pred, poison, reused))
            } else {
                None
            };
            (m.hyperplane().clone(), m.intercept().to_vec(), m.duality_gap(), m.n_steps(), pred, getters, inplace)
        })
    });
    match r {
        Err(p) => Err(Fail::Panic(p)),
        Ok(Err(e)) => Err(Fail::Error(format!("{}", e))),
        Ok(Ok((w, b, gap, n_steps, pred, getters, inplace))) => Ok(FitOut {
            w: (0..w.nrows()).map(|j| (0..w.ncols()).map(|t| f64of(w[(j, t)])).collect()).collect(),
            b: b.iter().map(|&v| f64of(v)).collect(),
            gap: f64of(gap),
            n_steps,
            pred: (0..pred.nrows()).map(|i| (0..pred.ncols()).map(|t| f64of(pred[(i, t)])).collect()).collect(),
            getters,
            inplace,
        }),
    }
}

/// Tolerances per float type (all stated in `main` through ctx.assume).
struct Tol {
    /// slack on objective differences, relative to P0 = ||y||^2 / (2n)
    c_obj: f64,
    /// lower bound on the reported gap, relative to ||y||^2
    c_gap: f64,
    /// OLS orthogonality, relative to ||x_j|| * S
    c_orth: f64,
    /// predict == Xw + b, relative to sum |x||w| + |b|
    c_pred: f64,
    /// |intercept - mean(y)| for recognising the closed form of the known defect
    c_mean: f64,
}
fn tol_of(float: &str) -> Tol {
    if float == "f32" {
        Tol { c_obj: 1e-4, c_gap: 1e-4, c_orth: 1e-5, c_pred: 1e-5, c_mean: 1e-5 }
    } else {
        Tol { c_obj: 1e-9, c_gap: 1e-12, c_orth: 1e-12, c_pred: 1e-12, c_mean: 1e-12 }
    }
}

fn round_to(float: &str, v: f64) -> f64 {
    if float == "f32" {
        v as f32 as f64
    } else {
        v
    }
}

/// Runs one fit and judges it. Pure function of (data, spec).
fn run_fit(data: &Data, s0: &Spec, viols: &mut Vec<Violation>, st: &mut Stats) -> Option<FitOut> {
    let eff = effective(s0);
    let s = &eff;
    let n = data.x.len();
    let p = data.x[0].len();
    // the numbers as the subject sees them (after rounding to its float type)
    let x: Vec<Vec<f64>> = data.x.iter().map(|r| r.iter().map(|&v| round_to(s.float, v)).collect()).collect();
    let y: Vec<Vec<f64>> = data.y.iter().map(|r| s.targets.iter().map(|&t| round_to(s.float, s.y_scale * r[t])).collect()).collect();
    let t = s.targets.len();
    let case_json = || -> Value {
        serde_json::to_value(Case {
            data: data.clone(),
            float: s.float.to_string(),
            est: s.est.to_string(),
            targets: s.targets.clone(),
            penalty: s0.penalty,
            l1_ratio: s0.l1_ratio,
            intercept: s.intercept,
            tol: s.tol,
            max_iter: s.max_iter,
            x_layout: s.x_layout.to_string(),
            y_layout: s.y_layout.to_string(),
            pred_layout: s.pred_layout.to_string(),
            form: s.form.clone(),
            y_scale: s.y_scale,
        })
        .unwrap()
    };
    let tl = tol_of(s.float);

    // ---- domain predicate: [X | 1] must have full column rank, unless the ridge part regularises
    let full_rank = refmodel::full_column_rank(&x, s.intercept);
    let regularised = s.est != "ols" && s.penalty > 0.0 && s.l1_ratio < 1.0;
    if !full_rank && !regularised {
        st.inc("out_of_domain_rank_deficient_unregularised");
        return None;
    }
    st.inc("fits");
    if !full_rank {
        st.inc("fits_rank_deficient_regularised");
    }

    let t0 = std::time::Instant::now();
    let res = match (s.est, s.float) {
        ("ols", "f64") => fit_ols::<f64>(&x, &y, s),
        ("ols", "f32") => fit_ols::<f32>(&x, &y, s),
        ("enet", "f64") => fit_enet::<f64>(&x, &y, s),
        ("enet", "f32") => fit_enet::<f32>(&x, &y, s),
        ("mtl", "f64") => fit_mtl::<f64>(&x, &y, s),
        ("mtl", "f32") => fit_mtl::<f32>(&x, &y, s),
        _ => panic!("bad spec"),
    };
    let us = t0.elapsed().as_micros() as u64;
    if let Ok(o) = &res {
        let capped = s.est != "ols" && o.n_steps >= s.max_iter;
        st.add(
            match (s.est, capped) {
                ("ols", _) => "cpu_us_ols_fits",
                ("enet", true) => "cpu_us_enet_fits_on_iteration_cap",
                ("enet", false) => "cpu_us_enet_fits_converged",
                (_, true) => "cpu_us_mtl_fits_on_iteration_cap",
                (_, false) => "cpu_us_mtl_fits_converged",
            },
            us,
        );
        if capped {
            st.inc(if s.est == "enet" { "enet_fits_on_iteration_cap" } else { "mtl_fits_on_iteration_cap" });
        }
    }
    let out = match res {
        Ok(o) => o,
        Err(Fail::Error(e)) => {
            viols.push(Violation::new(format!("{}.fit.unexpected_error", s.est), format!("fit on in-domain data (n={}, p={}, t={}) returned Err({})", n, p, t, e), case_json()));
            return None;
        }
        Err(Fail::Panic(m)) => {
            viols.push(Violation::new(format!("{}.fit.panic", s.est), format!("fit on in-domain data (n={}, p={}, t={}) panicked: {}", n, p, t, m), case_json()));
            return None;
        }
    };
    if out.w.len() != p || out.b.len() != t || out.w.iter().any(|r| r.len() != t) || out.pred.len() != n {
        viols.push(Violation::new(format!("{}.fit.wrong_shape", s.est), format!("coefficients {}x{}, intercepts {}, predictions {} for n={}, p={}, t={}", out.w.len(), out.w.first().map_or(0, |r| r.len()), out.b.len(), out.pred.len(), n, p, t), case_json()));
        return None;
    }
    let finite = out.w.iter().flatten().chain(out.b.iter()).all(|v| v.is_finite()) && out.gap.is_finite();
    if !finite {
        let all_nan = out.w.iter().flatten().all(|v| v.is_nan());
        if s.est == "mtl" && all_nan && s.penalty * s.l1_ratio == 0.0 {
            viols.push(Violation::new(
                "mtl.fit.nan_coefficients_without_l1_part",
                format!("every coefficient is NaN (gap {}, n_steps {}) with penalty*l1_ratio = 0: block soft-thresholding of an exactly zero correlation vector with threshold 0 divides 0 by 0", out.gap, out.n_steps),
                case_json(),
            ));
            return None;
        }
        viols.push(Violation::new(format!("{}.fit.non_finite", s.est), format!("non-finite result: w={:?} b={:?} gap={}", out.w, out.b, out.gap), case_json()));
        return None;
    }

    // ---- published parameters equal the final logical parameter set; predict_inplace does not depend on the buffer
    if let Some(g) = &out.getters {
        let sig = if s.form.starts_with("perm:") || s.form.starts_with("decoy:") { "params.builder_order_dependence" } else if s.form == "canonical" { "params.getters_differ_from_setters" } else { "params.constructor_dependence" };
        viols.push(Violation::new(format!("{}.{}", s.est, sig), format!("form {}: {}", s.form, g), case_json()));
    }
    if let Some(g) = &out.inplace {
        viols.push(Violation::new(format!("{}.predict_inplace.depends_on_buffer_contents", s.est), g.clone(), case_json()));
    }
    st.inc("predict_inplace_poisoned_and_reused_buffer_checked");

    // ---- predict == X w + b (always, also for unconverged runs)
    for i in 0..n {
        for tt in 0..t {
            let mut v = out.b[tt];
            let mut mag = out.b[tt].abs();
            for j in 0..p {
                v += x[i][j] * out.w[j][tt];
                mag += (x[i][j] * out.w[j][tt]).abs();
            }
            if (v - out.pred[i][tt]).abs() > tl.c_pred * mag.max(1e-300) {
                viols.push(Violation::new(format!("{}.predict.not_xw_plus_b", s.est), format!("row {} target {}: predict = {} but x.w + b = {}", i, tt, out.pred[i][tt], v), case_json()));
                return None;
            }
        }
    }
    if !s.intercept && out.b.iter().any(|&b| b != 0.0) {
        viols.push(Violation::new(format!("{}.intercept.nonzero_without_intercept", s.est), format!("with_intercept(false) but intercept = {:?}", out.b), case_json()));
        return None;
    }

    if s.est == "ols" {
        judge_ols(&x, &y, s, &out, &tl, viols, st, &case_json);
        return Some(out);
    }

    let prob = Prob::new(&x, &y, s.penalty * s.l1_ratio, s.penalty * (1.0 - s.l1_ratio));
    // ---- iteration cap: counted, not judged — except where exact coordinate descent provably stops
    if out.n_steps >= s.max_iter {
        st.inc("not_converged_iteration_cap");
        st.inc(if prob.lam1 > 0.0 { "not_converged_with_l1_part" } else { "not_converged_without_l1_part" });
        let mags: Vec<f64> = x.iter().flatten().map(|v| v.abs()).filter(|&v| v > 0.0).collect();
        let f32_ok = s.float == "f64" || (s.tol >= 1e-4 && mags.iter().all(|&v| (1e-2..=1e2).contains(&v)));
        if prob.lam1 > 0.0 && f32_ok && refmodel::orthogonal_centred(&x) {
            st.inc("cap_on_orthogonal_centred_design_checked");
            viols.push(Violation::new(
                format!("{}.iteration_cap_on_orthogonal_centred_design", s.est),
                format!(
                    "columns are mean-zero and mutually orthogonal, so exact (block) coordinate descent reaches the optimum in one sweep and the l1 duality gap closes; the run used all {} iterations (gap {} vs stop threshold tol*||y||^2 = {})",
                    s.max_iter, out.gap, s.tol * prob.y_centred_sq(s.intercept)
                ),
                case_json(),
            ));
        } else if prob.lam1 > 0.0 && f32_ok && n <= 100 {
            // generalisation: a SMALL problem on which the harness's own textbook cyclic (block) coordinate descent,
            // run on exactly the problem the implementation iterates on (records as given, targets centred when an
            // intercept is fitted, start at 0), meets the same stopping rule with margin within <= 100 sweeps
            let margin = if s.float == "f32" { 0.01 } else { 0.5 };
            if let Some(sweeps) = refmodel::cd_sweeps_to_converge(&prob, s.intercept, s.tol, margin, 100) {
                st.inc("cap_on_easy_problem_checked");
                if s.max_iter as usize >= 100 * sweeps {
                    viols.push(Violation::new(
                        format!("{}.iteration_cap_on_easy_problem", s.est),
                        format!(
                            "the run used all {} iterations (gap {} vs stop threshold tol*||y||^2 = {}), but plain cyclic coordinate descent from 0 on the same problem reaches gap < {} x threshold with stabilised coefficients after {} sweeps; returned w={:?} b={:?}",
                            s.max_iter, out.gap, s.tol * prob.y_centred_sq(s.intercept), margin, sweeps, out.w, out.b
                        ),
                        case_json(),
                    ));
                }
            }
        }
        return Some(out);
    }
    st.inc("judged_converged");
    if prob.lam1 > 0.0 && n <= 100 && !refmodel::orthogonal_centred(&x) {
        let mags: Vec<f64> = x.iter().flatten().map(|v| v.abs()).filter(|&v| v > 0.0).collect();
        let f32_ok = s.float == "f64" || (s.tol >= 1e-4 && mags.iter().all(|&v| (1e-2..=1e2).contains(&v)));
        if f32_ok && refmodel::cd_sweeps_to_converge(&prob, s.intercept, s.tol, if s.float == "f32" { 0.01 } else { 0.5 }, 100).is_some() {
            st.inc("cap_on_easy_problem_checked");
        }
    }
    if prob.lam1 > 0.0 && refmodel::orthogonal_centred(&x) {
        st.inc("cap_on_orthogonal_centred_design_checked");
    }
    let nontrivial = out.w.iter().flatten().any(|&v| v != 0.0);
    if nontrivial {
        st.inc("judged_nontrivial_nonzero_coefficients");
    }
    let ysq: f64 = y.iter().flatten().map(|v| v * v).sum();
    // operand magnitude of the residual y - Xw - b (README: float slack is scaled by the operands)
    let mut mag2 = 1e-300;
    for i in 0..n {
        for tt in 0..t {
            let m = y[i][tt].abs() + out.b[tt].abs() + (0..p).map(|j| (x[i][j] * out.w[j][tt]).abs()).sum::<f64>();
            mag2 += m * m;
        }
    }
    let eps = tl.c_obj * mag2 / (2.0 * n as f64);

    // ---- gap >= 0
    if out.gap < -tl.c_gap * mag2 {
        viols.push(Violation::new(format!("{}.duality_gap.negative", s.est), format!("reported duality gap {} < 0 (||y||^2 = {}, operand magnitude {})", out.gap, ysq, mag2), case_json()));
    }
    // ---- the documented stopping rule: a run that did not end on the iteration cap has gap < tol * ||y_c||^2
    let ycsq = prob.y_centred_sq(s.intercept);
    let rel = if s.float == "f32" { 1e-4 } else { 1e-9 };
    st.max(if s.float == "f32" { "max_gap_over_documented_tolerance_f32" } else { "max_gap_over_documented_tolerance_f64" }, out.gap / (s.tol * ycsq * (1.0 + rel) + tl.c_gap * mag2));
    if out.gap > s.tol * ycsq * (1.0 + rel) + tl.c_gap * mag2 {
        viols.push(Violation::new(
            format!("{}.duality_gap.above_documented_tolerance", s.est),
            format!("the run stopped after {} of {} iterations with reported gap {:e} = {:e} x ||y_c||^2, tolerance {:e} (||y_c||^2 = {:e}, ||y_c|| = {:e})", out.n_steps, s.max_iter, out.gap, out.gap / ycsq, s.tol, ycsq, ycsq.sqrt()),
            case_json(),
        ));
    }
    let bound = out.gap.max(0.0) / n as f64 + eps;

    // ---- perturbations: ladder on every coefficient entry, exact row minimiser, intercept
    let r = prob.resid(&out.w, &out.b);
    let pert = prob.perturb(&r, &out.w, s.intercept);
    st.add("perturbations_evaluated", pert.evaluated);
    st.max(if s.float == "f32" { "max_decrease_over_bound_f32" } else { "max_decrease_over_bound_f64" }, pert.d_coef.max(pert.d_int) / bound);
    let coef_bad = pert.d_coef > bound;
    let int_bad = s.intercept && pert.d_int > bound;
    // closed form of the known defect: intercept == mean(y) although mean(X).w != 0
    let ymean: Vec<f64> = (0..t).map(|tt| y.iter().map(|r| r[tt]).sum::<f64>() / n as f64).collect();
    let yrms = (ysq / (n * t) as f64).sqrt().max(1e-300);
    let b_is_ymean = s.intercept && (0..t).all(|tt| (out.b[tt] - ymean[tt]).abs() <= tl.c_mean * ymean[tt].abs().max(yrms));
    let xmean: Vec<f64> = (0..p).map(|j| x.iter().map(|r| r[j]).sum::<f64>() / n as f64).collect();
    let xw: Vec<f64> = (0..t).map(|tt| (0..p).map(|j| xmean[j] * out.w[j][tt]).sum::<f64>()).collect();
    let xrms: Vec<f64> = (0..p).map(|j| (prob.col_sq(j) / n as f64).sqrt()).collect();
    let offset_effect = (0..p).any(|j| xmean[j].abs() > 1e-6 * xrms[j]);
    // the gap bounds the true suboptimality (reference optimum from the harness's own solver)
    let pimpl = prob.objective(&out.w, &out.b);
    let pstar = refmodel::solve(&prob, s.intercept);
    let global_bad = match pstar {
        Some(ps) => {
            st.inc("global_optimum_checked");
            pimpl - ps > bound
        }
        None => {
            st.inc("global_check_skipped_reference_unconverged");
            false
        }
    };
    // closed form of the known defect: the returned point is the minimiser with the intercept frozen at
    // mean(y) (coefficients coordinate- / row-wise optimal for that intercept, which for this convex
    // separable objective means optimal) on features whose column means are not all zero
    let narrow = (int_bad || global_bad) && !coef_bad && b_is_ymean && offset_effect;
    if s.intercept && offset_effect {
        st.inc("judged_with_intercept_on_offset_features");
    }
    if coef_bad {
        viols.push(Violation::new(
            format!("{}.coefficient_perturbation_lowers_objective_beyond_gap", s.est),
            format!("{} lowers the objective by {:e}, but reported gap/n + eps = {:e} (gap {:e}, n_steps {}); w={:?} b={:?}; kkt residual of that row {:e}", pert.coef_at, pert.d_coef, bound, out.gap, out.n_steps, out.w, out.b, pert.kkt_at),
            case_json(),
        ));
    }
    if narrow {
        let joint: Vec<f64> = (0..t).map(|tt| out.b[tt] + pert.mean_r[tt]).collect();
        viols.push(Violation::new(
            format!("{}.intercept_is_target_mean_on_offset_features_not_joint_optimum", s.est),
            format!(
                "intercept {:?} == mean(y) on features with non-zero column means (mean(X).w = {:?}, column means {:?}): the point is optimal only for the frozen intercept (best coefficient perturbation gains {:e}); moving the intercept alone to {:?} lowers the objective by {:e}, the joint optimum lies {:e} lower; reported gap/n + eps = {:e} (gap {:e}, n_steps {}); w={:?}",
                out.b, xw, xmean, pert.d_coef, joint, pert.d_int, pstar.map_or(f64::NAN, |ps| pimpl - ps), bound, out.gap, out.n_steps, out.w
            ),
            case_json(),
        ));
    } else {
        if int_bad {
            viols.push(Violation::new(
                format!("{}.intercept_perturbation_lowers_objective_beyond_gap", s.est),
                format!("{} lowers the objective by {:e}, but reported gap/n + eps = {:e} (gap {:e}, n_steps {}); w={:?} b={:?} mean(y)={:?} residual means={:?}", pert.int_at, pert.d_int, bound, out.gap, out.n_steps, out.w, out.b, ymean, pert.mean_r),
                case_json(),
            ));
        }
        if global_bad {
            let ps = pstar.unwrap();
            viols.push(Violation::new(
                format!("{}.gap_not_upper_bound_on_suboptimality", s.est),
                format!("objective at the returned point {:e}, reference optimum {:e}: suboptimality {:e} > gap/n + eps = {:e} (gap {:e}, n_steps {}); w={:?} b={:?}", pimpl, ps, pimpl - ps, bound, out.gap, out.n_steps, out.w, out.b),
                case_json(),
            ));
        }
    }

    // ---- coefficients under the l1 threshold are exactly zero
    if prob.lam1 > 0.0 {
        let thr = n as f64 * prob.lam1;
        for j in 0..p {
            let nz = out.w[j].iter().any(|&v| v != 0.0);
            if !nz {
                st.inc("exactly_zero_rows_seen");
                continue;
            }
            let (corr, mag) = prob.partial_correlation(&r, &out.w, j);
            let margin = (10.0 * s.tol + 100.0 * tl.c_obj) * (thr + mag);
            if corr < thr - margin {
                st.inc("nonzero_rows_under_threshold");
                viols.push(Violation::new(
                    format!("{}.nonzero_coefficient_under_l1_threshold", s.est),
                    format!("feature {}: |x_j.(r + x_j w_j)| = {} is under the l1 threshold n*penalty*l1_ratio = {} (margin {}), yet w_j = {:?} instead of exactly 0", j, corr, thr, margin, out.w[j]),
                    case_json(),
                ));
            } else if corr <= thr + margin {
                st.inc("threshold_margin_indeterminate");
            } else {
                st.inc("nonzero_rows_clearly_over_threshold");
            }
        }
    }

    Some(out)
}

fn judge_ols(x: &[Vec<f64>], y: &[Vec<f64>], s: &Spec, out: &FitOut, tl: &Tol, viols: &mut Vec<Violation>, st: &mut Stats, case_json: &dyn Fn() -> Value) {
    let n = x.len();
    let p = x[0].len();
    st.inc("ols_fits");
    let prob = Prob::new(x, y, 0.0, 0.0);
    let r = prob.resid(&out.w, &out.b);
    let rr: Vec<f64> = r.iter().map(|v| v[0]).collect();
    let ynorm = y.iter().map(|v| v[0] * v[0]).sum::<f64>().sqrt();
    let colnorm: Vec<f64> = (0..p).map(|j| prob.col_sq(j).sqrt()).collect();
    // backward-error scale of a least-squares solve
    let s_scale = ynorm + (0..p).map(|j| colnorm[j] * out.w[j][0].abs()).sum::<f64>() + (n as f64).sqrt() * out.b[0].abs() + 1e-300;
    let rnorm = rr.iter().map(|v| v * v).sum::<f64>().sqrt();
    if rnorm > 1e-6 * ynorm {
        st.inc("ols_nontrivial_nonzero_residual");
    }
    // rounding error of length-n inner products grows like sqrt(n): the constant is the stated one up to
    // n = 40 (every member of the original catalogue) and grows with sqrt(n / 40) for the large members
    let c_orth = tl.c_orth * (n as f64 / 40.0).sqrt().max(1.0);
    let tl = &Tol { c_obj: tl.c_obj, c_gap: tl.c_gap, c_orth, c_pred: tl.c_pred, c_mean: tl.c_mean };
    let key = if s.float == "f32" { "ols_max_orthogonality_ratio_f32" } else { "ols_max_orthogonality_ratio_f64" };
    for j in 0..p {
        let g: f64 = (0..n).map(|i| x[i][j] * rr[i]).sum();
        let lim = tl.c_orth * colnorm[j] * s_scale;
        st.max(key, g.abs() / (colnorm[j] * s_scale).max(1e-300) / tl.c_orth);
        if g.abs() > lim {
            viols.push(Violation::new("ols.residual_not_orthogonal_to_feature_column", format!("|x_{}.r| = {:e} > {:e}; params={:?} intercept={}", j, g.abs(), lim, out.w, out.b[0]), case_json()));
            return;
        }
    }
    if s.intercept {
        let g: f64 = rr.iter().sum();
        let lim = tl.c_orth * (n as f64).sqrt() * s_scale;
        st.max(key, g.abs() / ((n as f64).sqrt() * s_scale) / tl.c_orth);
        if g.abs() > lim {
            viols.push(Violation::new("ols.residual_not_orthogonal_to_constant_column", format!("|1.r| = {:e} > {:e}; params={:?} intercept={}", g.abs(), lim, out.w, out.b[0]), case_json()));
            return;
        }
    }
    // SSE(beta + delta e_j) >= SSE(beta) for the ladder of deltas (objective here = SSE/(2n))
    let pert = prob.perturb(&r, &out.w, s.intercept);
    st.add("perturbations_evaluated", pert.evaluated);
    let eps = (tl.c_orth * s_scale).powi(2) / (2.0 * n as f64);
    if pert.d_coef.max(if s.intercept { pert.d_int } else { 0.0 }) > eps {
        viols.push(Violation::new(
            "ols.perturbation_lowers_sse",
            format!("{} / {} lowers SSE/(2n) by {:e} / {:e} (eps {:e}); params={:?} intercept={}", pert.coef_at, pert.int_at, pert.d_coef, pert.d_int, eps, out.w, out.b[0]),
            case_json(),
        ));
        return;
    }
    // against the harness's own least-squares solution (modified Gram-Schmidt on centred, unit-norm columns)
    let yv: Vec<f64> = y.iter().map(|v| v[0]).collect();
    let Some(lsq) = refmodel::lstsq(x, &yv, s.intercept) else {
        st.inc("ols_reference_singular");
        return;
    };
    st.inc("ols_reference_compared");
    st.max("ols_max_condition_estimate", lsq.cond);
    // residual orthogonal to the CENTRED feature columns (implied by orthogonality to x_j and to 1): this is
    // where an ill-conditioned solve shows, x_c.r = ||x_c||^2 (beta_ref - beta)
    let keyc = if s.float == "f32" { "ols_max_centred_orthogonality_ratio_f32" } else { "ols_max_centred_orthogonality_ratio_f64" };
    if s.intercept {
        for j in 0..p {
            let xc: Vec<f64> = (0..n).map(|i| x[i][j] - lsq.xmean[j]).collect();
            let xcn = xc.iter().map(|v| v * v).sum::<f64>().sqrt();
            let g: f64 = (0..n).map(|i| xc[i] * rr[i]).sum();
            let lim = tl.c_orth * xcn * s_scale;
            st.max(keyc, g.abs() / (xcn * s_scale).max(1e-300) / tl.c_orth);
            if g.abs() > lim {
                viols.push(Violation::new(
                    "ols.residual_not_orthogonal_to_centred_feature_column",
                    format!("|(x_{} - mean).r| = {:e} > {:e} = c * ||x_c|| * S (condition estimate {:e}); params={:?} intercept={} reference params={:?} intercept={}", j, g.abs(), lim, lsq.cond, out.w, out.b[0], lsq.beta, lsq.b),
                    case_json(),
                ));
                return;
            }
        }
    }
    // SSE of the returned coefficients, evaluated on the same centred data as the reference (no cancellation
    // against a large intercept): SSE = sum (y_c - x_c.beta)^2 + n * (b - (mean(y) - mean(x).beta))^2
    let db = (out.b[0] - lsq.ymean) + (0..p).map(|j| out.w[j][0] * lsq.xmean[j]).sum::<f64>();
    let mut sse = 0.0;
    let mut noise = 0.0;
    for i in 0..n {
        let mut v = yv[i] - lsq.ymean;
        let mut mag = (yv[i] - lsq.ymean).abs();
        for j in 0..p {
            let t = (x[i][j] - lsq.xmean[j]) * out.w[j][0];
            v -= t;
            mag += t.abs();
        }
        sse += v * v;
        noise += v.abs() * mag;
    }
    sse += n as f64 * db * db;
    let slack = (tl.c_orth * (s_scale + lsq.cond * rnorm)).powi(2) + 8.0 * f64::EPSILON * (n as f64 / 40.0).sqrt().max(1.0) * (noise + lsq.sse);
    st.max(if s.float == "f32" { "ols_max_sse_excess_over_slack_f32" } else { "ols_max_sse_excess_over_slack_f64" }, (sse - lsq.sse) / slack);
    if sse > lsq.sse + slack {
        viols.push(Violation::new(
            "ols.sse_above_reference_minimum",
            format!("SSE {:e} > reference minimum {:e} + slack {:e} (condition estimate {:e}); params={:?} intercept={} reference params={:?} intercept={}", sse, lsq.sse, slack, lsq.cond, out.w, out.b[0], lsq.beta, lsq.b),
            case_json(),
        ));
    }
}

fn spec_of(c: &Case) -> Spec {
    Spec {
        float: if c.float == "f32" { "f32" } else { "f64" },
        est: match c.est.as_str() {
            "ols" => "ols",
            "enet" => "enet",
            _ => "mtl",
        },
        targets: c.targets.clone(),
        penalty: c.penalty,
        l1_ratio: c.l1_ratio,
        intercept: c.intercept,
        tol: c.tol,
        max_iter: c.max_iter,
        x_layout: lay(&c.x_layout),
        y_layout: lay(&c.y_layout),
        pred_layout: lay(&c.pred_layout),
        form: c.form.clone(),
        y_scale: c.y_scale,
    }
}

/// One case. Standard layout: the fit is run and judged. Any other layout: the same case is first run
/// in standard layout (its verdicts are not reported again), then in the requested layout (judged by all
/// oracles), and the two fitted models must agree.
fn run_case(data: &Data, s: &Spec, viols: &mut Vec<Violation>, st: &mut Stats) {
    if s.form != "canonical" {
        // builder family: the same logical parameter set built in the canonical way must give the identical model
        let mut canon = s.clone();
        canon.form = canonical_form();
        let mut cv = Vec::new();
        let mut cs = Stats::default();
        let a = run_fit(data, &canon, &mut cv, &mut cs);
        let b = run_fit(data, s, viols, st);
        st.inc("builder_form_runs");
        let same = match (&a, &b) {
            (Some(a), Some(b)) => {
                let key = |m: &FitOut| (m.w.iter().flatten().map(|v| v.to_bits()).collect::<Vec<_>>(), m.b.iter().map(|v| v.to_bits()).collect::<Vec<_>>(), m.gap.to_bits(), m.n_steps, m.pred.iter().flatten().map(|v| v.to_bits()).collect::<Vec<_>>());
                key(a) == key(b)
            }
            (None, None) => true,
            _ => false,
        };
        if same {
            st.inc("builder_forms_bit_identical_to_canonical");
        } else {
            let kind = if s.form.starts_with("perm:") || s.form.starts_with("decoy:") { "builder_order_dependence" } else { "constructor_dependence" };
            let show = |m: &Option<FitOut>| m.as_ref().map_or("no model".to_string(), |m| format!("w={:?} b={:?} gap={} n_steps={}", m.w, m.b, m.gap, m.n_steps));
            let mut c = serde_json::to_value(Case {
                data: data.clone(),
                float: s.float.to_string(),
                est: s.est.to_string(),
                targets: s.targets.clone(),
                penalty: s.penalty,
                l1_ratio: s.l1_ratio,
                intercept: s.intercept,
                tol: s.tol,
                max_iter: s.max_iter,
                x_layout: "std".into(),
                y_layout: "std".into(),
                pred_layout: "std".into(),
                form: s.form.clone(),
                y_scale: s.y_scale,
            })
            .unwrap();
            c.as_object_mut().unwrap().insert("builder_family".into(), json!(true));
            viols.push(Violation::new(
                format!("{}.params.{}", s.est, kind),
                format!("form {} (final logical set: penalty {}, l1_ratio {}, intercept {}, tol {}, max_iterations {}): model {} differs from the canonical construction: {}", s.form, s.penalty, s.l1_ratio, s.intercept, s.tol, s.max_iter, show(&b), show(&a)),
                c,
            ));
        }
        return;
    }
    if s.y_scale != 1.0 {
        // equivariance family: fit(X, c y, scaled penalty) must be c x fit(X, y, penalty)
        let mut base = s.clone();
        base.y_scale = 1.0;
        let mut bv = Vec::new();
        let mut bs = Stats::default();
        let a = run_fit(data, &base, &mut bv, &mut bs);
        let b = run_fit(data, s, viols, st);
        st.inc("equivariance_scaled_runs");
        let (Some(a), Some(b)) = (a, b) else { return };
        // a run that stops on its very last iterations has used the whole budget: the gap test is forced at
        // max_iterations - 1 whatever the coefficients do (f32: a gap at rounding level decides), not compared
        if a.n_steps + 1 >= s.max_iter || b.n_steps + 1 >= s.max_iter {
            st.inc("equivariance_compare_skipped_iteration_cap");
            return;
        }
        let c = s.y_scale;
        let n = data.x.len();
        let t = s.targets.len();
        let x: Vec<Vec<f64>> = data.x.iter().map(|r| r.iter().map(|&v| round_to(s.float, v)).collect()).collect();
        let fitted = |m: &FitOut, f: f64| -> Vec<f64> {
            let mut out = Vec::with_capacity(n * t);
            for i in 0..n {
                for tt in 0..t {
                    out.push(f * (m.b[tt] + (0..x[i].len()).map(|j| x[i][j] * m.w[j][tt]).sum::<f64>()));
                }
            }
            out
        };
        let (fa, fb) = (fitted(&a, c), fitted(&b, 1.0));
        let diff = fa.iter().zip(fb.iter()).map(|(u, v)| (u - v) * (u - v)).sum::<f64>().sqrt();
        let scale = fb.iter().map(|v| v * v).sum::<f64>().sqrt() + c * data.y.iter().flatten().map(|v| v * v).sum::<f64>().sqrt();
        let c_l = if s.float == "f32" { 1e-4 } else { 1e-9 };
        // the solver's objective scales with c^2, so the gap of the unscaled run corresponds to c^2 gap_a
        // f32: a reported gap is only meaningful down to the rounding slack 1e-4 x M that the gap >= 0 oracle grants
        let gslack = if s.float == "f32" { 1e-4 * scale * scale } else { 0.0 };
        let limit = c_l * scale + (2.0 * (c * c * a.gap.max(0.0) + gslack)).sqrt() + (2.0 * (b.gap.max(0.0) + gslack)).sqrt();
        st.inc("equivariance_models_compared");
        st.max(if s.float == "f32" { "equivariance_max_difference_over_limit_f32" } else { "equivariance_max_difference_over_limit_f64" }, diff / limit.max(1e-300));
        if diff > limit {
            let mut cj = serde_json::to_value(Case {
                data: data.clone(),
                float: s.float.to_string(),
                est: s.est.to_string(),
                targets: s.targets.clone(),
                penalty: s.penalty,
                l1_ratio: s.l1_ratio,
                intercept: s.intercept,
                tol: s.tol,
                max_iter: s.max_iter,
                x_layout: "std".into(),
                y_layout: "std".into(),
                pred_layout: "std".into(),
                form: canonical_form(),
                y_scale: s.y_scale,
            })
            .unwrap();
            cj.as_object_mut().unwrap().insert("equivariance_family".into(), json!(true));
            viols.push(Violation::new(
                format!("{}.not_equivariant_under_target_scaling", s.est),
                format!("targets x {} with the l1 part of the penalty x {}: fitted values differ from {} x the unscaled fit by {:e} (limit {:e} from the two reported gaps {:e}, {:e}); unscaled w={:?} b={:?} n_steps {}, scaled w={:?} b={:?} n_steps {}", c, c, c, diff, limit, a.gap, b.gap, a.w, a.b, a.n_steps, b.w, b.b, b.n_steps),
                cj,
            ));
        }
        return;
    }
    if s.is_std() {
        run_fit(data, s, viols, st);
        return;
    }
    let mut std_spec = s.clone();
    std_spec.x_layout = "std";
    std_spec.y_layout = "std";
    std_spec.pred_layout = "std";
    let mut std_viols = Vec::new();
    let mut std_stats = Stats::default();
    let a = run_fit(data, &std_spec, &mut std_viols, &mut std_stats);
    st.inc("layout_std_reference_runs");
    let before = viols.len();
    let b = run_fit(data, s, viols, st);
    st.inc("layout_variant_runs");
    let case_json = || -> Value {
        let mut c = serde_json::to_value(Case {
            data: data.clone(),
            float: s.float.to_string(),
            est: s.est.to_string(),
            targets: s.targets.clone(),
            penalty: s.penalty,
            l1_ratio: s.l1_ratio,
            intercept: s.intercept,
            tol: s.tol,
            max_iter: s.max_iter,
            x_layout: s.x_layout.to_string(),
            y_layout: s.y_layout.to_string(),
            pred_layout: s.pred_layout.to_string(),
            form: s.form.clone(),
            y_scale: s.y_scale,
        })
        .unwrap();
        c.as_object_mut().unwrap().insert("layout_family".into(), json!(true));
        c
    };
    let layouts = format!("records {} / targets {} / predict {}", s.x_layout, s.y_layout, s.pred_layout);
    let sigs = |v: &[Violation]| -> Vec<String> {
        let mut x: Vec<String> = v.iter().map(|q| q.sig.clone()).collect();
        x.sort();
        x.dedup();
        x
    };
    // hard failures (error / panic / NaN / shape / predict) must coincide; tolerance-based verdicts may sit on
    // their margin and flip with the rounding order, they are reported by the oracles themselves
    let hard = |v: Vec<String>| -> Vec<String> { v.into_iter().filter(|q| q.contains(".fit.") || q.contains(".predict.") || q.contains(".intercept.nonzero")).collect() };
    let (sa, sb) = (hard(sigs(&std_viols)), hard(sigs(&viols[before..])));
    if sa != sb || a.is_some() != b.is_some() {
        viols.push(Violation::new(
            format!("{}.layout_dependence", s.est),
            format!("{}: verdicts differ from the standard-layout run of the same case: standard {:?} (model returned: {}), this layout {:?} (model returned: {})", layouts, sa, a.is_some(), sb, b.is_some()),
            case_json(),
        ));
        return;
    }
    let (Some(a), Some(b)) = (a, b) else { return };
    let capped = s.est != "ols" && (a.n_steps + 1 >= s.max_iter || b.n_steps + 1 >= s.max_iter);
    if capped {
        st.inc("layout_compare_skipped_iteration_cap");
        return;
    }
    // fitted values X w + b of the two models, in f64 on the numbers as rounded to the float type
    let n = data.x.len();
    let t = s.targets.len();
    let x: Vec<Vec<f64>> = data.x.iter().map(|r| r.iter().map(|&v| round_to(s.float, v)).collect()).collect();
    let fitted = |m: &FitOut| -> Vec<f64> {
        let mut out = Vec::with_capacity(n * t);
        for i in 0..n {
            for tt in 0..t {
                out.push(m.b[tt] + (0..x[i].len()).map(|j| x[i][j] * m.w[j][tt]).sum::<f64>());
            }
        }
        out
    };
    let (fa, fb) = (fitted(&a), fitted(&b));
    let diff = fa.iter().zip(fb.iter()).map(|(u, v)| (u - v) * (u - v)).sum::<f64>().sqrt();
    let scale = fa.iter().map(|v| v * v).sum::<f64>().sqrt() + data.y.iter().flatten().map(|v| v * v).sum::<f64>().sqrt();
    let c_l = if s.float == "f32" { 1e-4 } else { 1e-9 };
    // two points whose suboptimality is bounded by their gaps: ||Xw1 - Xw2|| <= sqrt(2 G1) + sqrt(2 G2)
    let limit = c_l * scale + (2.0 * a.gap.max(0.0)).sqrt() + (2.0 * b.gap.max(0.0)).sqrt();
    st.inc("layout_models_compared");
    st.max(if s.float == "f32" { "layout_max_difference_over_limit_f32" } else { "layout_max_difference_over_limit_f64" }, diff / limit.max(1e-300));
    if a.w == b.w && a.b == b.b {
        st.inc("layout_models_bit_identical");
    }
    if diff > limit {
        viols.push(Violation::new(
            format!("{}.layout_dependence", s.est),
            format!("{}: fitted values differ from the standard-layout fit by {:e} (limit {:e}); standard w={:?} b={:?} (n_steps {}), this layout w={:?} b={:?} (n_steps {})", layouts, diff, limit, a.w, a.b, a.n_steps, b.w, b.b, b.n_steps),
            case_json(),
        ));
    }
}

fn replay_value(v: &Value) -> Vec<Violation> {
    let c: Case = match serde_json::from_value(v.clone()) {
        Ok(c) => c,
        Err(e) => {
            println!("MACHINERY-ERROR replay case does not parse: {}", e);
            std::process::exit(2);
        }
    };
    let mut out = Vec::new();
    let mut st = Stats::default();
    run_case(&c.data, &spec_of(&c), &mut out, &mut st);
    out
}

struct Task {
    data: usize,
    float: &'static str,
    est: &'static str,
    /// false: the parameter grid in standard layout; true: the layout family (spec subset x layouts)
    layouts: bool,
    /// the builder family (constructors, setter orders, decoy writes) instead of the grid
    builder: bool,
    /// the equivariance family (target scales x scaled penalties) instead of the grid
    equiv: bool,
    /// large members: the grid is split by penalty into 5 tasks (parallelism); None = whole grid
    penalty_chunk: Option<usize>,
}

const LAYOUT_DESIGNS: [&str; 4] = ["p2_n6_ff2x3", "p3_n9_frac3x3x3_latin_square", "p2_n16_ff4x4", "p2_n1025_ff2x3_cyclic"];

/// Members of the layout family: well-conditioned images (offset in {0, 5}, one scale in {1, 1e3} for all columns).
fn in_layout_family(d: &Data, thorough: bool) -> bool {
    if d.variant != "full_rank" || !LAYOUT_DESIGNS.contains(&d.design.as_str()) {
        return false;
    }
    let (o, sc) = (d.offsets[0], d.scales[0]);
    if d.offsets.iter().any(|&v| v != o) || d.scales.iter().any(|&v| v != sc) {
        return false;
    }
    if d.x.len() > 1000 {
        return thorough && o == 0.0 && sc == 1.0;
    }
    if thorough {
        (o == 0.0 || o == 5.0) && (sc == 1.0 || sc == 1e3)
    } else {
        d.x.len() < 1000 && ((o == 5.0 && sc == 1.0) || (o == 0.0 && sc == 1e3))
    }
}

const Y_SCALES: [f64; 3] = [1e-3, 1e-2, 1e2];

/// Members of the equivariance family: the correlated / suppressor designs under their mean-zero images.
fn in_equivariance_family(d: &Data) -> bool {
    (d.design.contains("sheared") || d.design.contains("nearly_collinear")) && d.offsets.iter().all(|&o| o == 0.0) && (d.variant == "full_rank" || d.variant == "suppressor_targets")
}

fn equivariance_specs(ctx: &Ctx, task: &Task) -> Vec<Spec> {
    let mut v = Vec::new();
    let target_sets: Vec<Vec<usize>> = if task.est == "mtl" { vec![vec![0, 1, 2]] } else { vec![vec![0], vec![2]] };
    for targets in target_sets {
        for &y_scale in &Y_SCALES {
            for penalty in [1e-4, 1e-2, 1e-1] {
                for l1_ratio in [0.5, 1.0] {
                    for intercept in [true, false] {
                        for &tol in &TOLS {
                            v.push(Spec {
                                float: task.float,
                                est: if task.est == "mtl" { "mtl" } else { "enet" },
                                targets: targets.clone(),
                                penalty,
                                l1_ratio,
                                intercept,
                                tol,
                                max_iter: ctx.pick(MAX_ITER_QUICK, MAX_ITER),
                                x_layout: "std",
                                y_layout: "std",
                                pred_layout: "std",
                                form: canonical_form(),
                                y_scale,
                            });
                        }
                    }
                }
            }
        }
    }
    v
}

/// Members of the builder family: three small data sets (offset 0 and 5).
fn in_builder_family(d: &Data) -> bool {
    if d.variant != "full_rank" {
        return false;
    }
    let same = d.offsets.iter().all(|&v| v == d.offsets[0]) && d.scales.iter().all(|&v| v == 1.0);
    same && ((d.design == "p2_n6_ff2x3" && (d.offsets[0] == 0.0 || d.offsets[0] == 5.0)) || (d.design == "p1_n4_levels4" && d.offsets[0] == 5.0))
}

/// Every constructor, every order of the five setters, decoy-then-real writes and the setter-free forms.
fn builder_specs(task: &Task) -> Vec<Spec> {
    let mut v = Vec::new();
    let base = |est: &'static str, targets: Vec<usize>, penalty: f64, l1_ratio: f64, intercept: bool, tol: f64, max_iter: u32, form: String| Spec {
        float: task.float,
        est,
        targets,
        penalty,
        l1_ratio,
        intercept,
        tol,
        max_iter,
        x_layout: "std",
        y_layout: "std",
        pred_layout: "std",
        form,
        y_scale: 1.0,
    };
    if task.est == "ols" {
        for intercept in [true, false] {
            for form in ["new.set", "default.set", "new.decoy.set", "default.decoy.set"] {
                v.push(base("ols", vec![0], 0.0, 0.0, intercept, 0.0, 0, form.to_string()));
            }
        }
        // documented default of new() and default(): an intercept is fitted
        for form in ["new", "default"] {
            v.push(base("ols", vec![0], 0.0, 0.0, true, 0.0, 0, form.to_string()));
        }
        return v;
    }
    let (est, targets): (&'static str, Vec<usize>) = if task.est == "mtl" { ("mtl", vec![0, 1, 2]) } else { ("enet", vec![0]) };
    let tol_a = if task.float == "f32" { 1e-5 } else { 1e-8 };
    for (penalty, l1_ratio, intercept, tol, max_iter) in [(0.1, 0.5, true, tol_a, 4321u32), (1.0, 1.0, false, 1e-3, 777u32)] {
        for perm in lvmc_core::enumerate::permutations(5) {
            let form = format!("perm:{}", perm.iter().map(|k| k.to_string()).collect::<Vec<_>>().join(","));
            if form == "perm:0,1,2,3,4" {
                continue;
            }
            v.push(base(est, targets.clone(), penalty, l1_ratio, intercept, tol, max_iter, form));
        }
        for c in ["new", "default", "ridge", "lasso"] {
            v.push(base(est, targets.clone(), penalty, l1_ratio, intercept, tol, max_iter, format!("ctor:{}", c)));
        }
        for k in 0..5 {
            v.push(base(est, targets.clone(), penalty, l1_ratio, intercept, tol, max_iter, format!("decoy:{}", k)));
        }
    }
    // setter-free forms: documented defaults penalty 1, l1_ratio 0.5 (ridge 0, lasso 1), intercept, tolerance 1e-4, 1000 iterations
    for (c, l1) in [("params", 0.5), ("new", 0.5), ("default", 0.5), ("ridge", 0.0), ("lasso", 1.0)] {
        v.push(base(est, targets.clone(), 1.0, l1, true, 1e-4, 1000, format!("nosetters:{}", c)));
    }
    v
}

fn layout_specs(ctx: &Ctx, task: &Task) -> Vec<Spec> {
    let two_d = task.est == "mtl";
    let mut combos: Vec<(&'static str, &'static str, &'static str)> = Vec::new();
    for l in ["f", "t", "rev", "stride2"] {
        combos.push((l, "std", l));
    }
    for l in if two_d { vec!["f", "t", "rev", "stride2"] } else { vec!["rev", "stride2"] } {
        combos.push(("std", l, "std"));
    }
    combos.push(("t", "stride2", "rev"));
    combos.push(("stride2", "rev", "f"));
    let mut v = Vec::new();
    for (xl, yl, pl) in combos {
        if task.est == "ols" {
            for intercept in [true, false] {
                v.push(Spec { float: task.float, est: "ols", targets: vec![0], penalty: 0.0, l1_ratio: 0.0, intercept, tol: 0.0, max_iter: 0, x_layout: xl, y_layout: yl, pred_layout: pl, form: canonical_form(), y_scale: 1.0 });
            }
        } else {
            for penalty in [0.01, 1.0] {
                for l1_ratio in [0.5, 1.0] {
                    for intercept in [true, false] {
                        v.push(Spec {
                            float: task.float,
                            est: if two_d { "mtl" } else { "enet" },
                            targets: if two_d { vec![0, 1, 2] } else { vec![0] },
                            penalty,
                            l1_ratio,
                            intercept,
                            // f32 cannot resolve a gap of 1e-8 ||y||^2: those runs would only end on the cap
                            tol: if task.float == "f32" { 1e-4 } else { 1e-8 },
                            max_iter: ctx.pick(MAX_ITER_QUICK, MAX_ITER),
                            x_layout: xl,
                            y_layout: yl,
                            pred_layout: pl,
                            form: canonical_form(),
                            y_scale: 1.0,
                        });
                    }
                }
            }
        }
    }
    v
}

fn specs_for(ctx: &Ctx, task: &Task, reduced_targets: bool) -> Vec<Spec> {
    if task.builder {
        return builder_specs(task);
    }
    if task.equiv {
        return equivariance_specs(ctx, task);
    }
    if task.layouts {
        return layout_specs(ctx, task);
    }
    let mut v = Vec::new();
    match task.est {
        "ols" => {
            for tcol in 0..3 {
                for intercept in [true, false] {
                    v.push(Spec { float: task.float, est: "ols", targets: vec![tcol], penalty: 0.0, l1_ratio: 0.0, intercept, tol: 0.0, max_iter: 0, x_layout: "std", y_layout: "std", pred_layout: "std", form: canonical_form(), y_scale: 1.0 });
                }
            }
        }
        est => {
            let target_sets: Vec<Vec<usize>> = if reduced_targets {
                if est == "enet" {
                    vec![vec![0]]
                } else {
                    vec![vec![0, 1, 2]]
                }
            } else if est == "enet" {
                ctx.pick(vec![vec![0], vec![2]], vec![vec![0], vec![1], vec![2]])
            } else {
                ctx.pick(vec![vec![0, 1, 2]], vec![vec![0], vec![0, 1], vec![0, 1, 2]])
            };
            for targets in target_sets {
                for (pi, &penalty) in PENALTIES.iter().enumerate() {
                    if task.penalty_chunk.map_or(false, |c| c != pi) {
                        continue;
                    }
                    for &l1_ratio in &L1_RATIOS {
                        for intercept in [true, false] {
                            for &tol in &TOLS {
                                // large replicated members (a sweep costs 100x more) keep the quick budgets in both tiers
                                let max_iter = if reduced_targets {
                                    if penalty * l1_ratio > 0.0 { MAX_ITER_QUICK } else { MAX_ITER_NO_L1_QUICK }
                                } else if penalty * l1_ratio > 0.0 {
                                    ctx.pick(MAX_ITER_QUICK, MAX_ITER)
                                } else {
                                    ctx.pick(MAX_ITER_NO_L1_QUICK, MAX_ITER_NO_L1)
                                };
                                v.push(Spec { float: task.float, est: if est == "enet" { "enet" } else { "mtl" }, targets: targets.clone(), penalty, l1_ratio, intercept, tol, max_iter, x_layout: "std", y_layout: "std", pred_layout: "std", form: canonical_form(), y_scale: 1.0 });
                            }
                        }
                    }
                }
            }
        }
    }
    v
}

fn main() {
    let ctx = Ctx::new("C11", Level::Exploration);
    ctx.maybe_replay(&replay_value);
    ctx.set_rule(
        "cases = (design of the catalogue, per-column (offset, scale) image, variant, float type, estimator, target columns, penalty, l1_ratio, intercept, tol). \
         Catalogue: full-factorial and fractional lattice designs with n in {4,6,9,12}, p in {1,2,3} (ids in coverage.designs), each column centred and mapped to (z + offset) * scale with \
         offset in {0, 5, -100} lattice units and scale in {1e-3, 1, 1e3}: every column sees every (offset, scale) pair (p = 1: all 9; p >= 2: the 9 'same for all columns' images, for the designs marked PerColumn in coverage.image_modes additionally 8 per column with the other columns at (0, 1), for those marked Cross the full 9^p product); \
         variants: an appended constant column (0, 1 or 5000) and an appended duplicate of column 0, run only with penalty > 0 and l1_ratio < 1; targets = fixed linear function of the centred lattice coordinates + constant + fixed noise table, 3 columns. \
         plus 'even_targets' members (integer targets that are an even function of column 0, so column 0 is exactly orthogonal to them). \
         Tall designs (n in {16, 24, 40} >= 8 x columns, p in {1, 2}; quick {16, 40}) carry the same images and, for OLS only, strongly offset images (offset 1e7 in f64, 2000 in f32 and f64, unit spacing; p = 2: both columns / one column). \
         Large replicated members: the 4-level, 2x3 and Latin-square designs repeated cyclically to n in {1025, 4097} (quick: 2x3 at 1025), images (0,1), (5,1), (0,1e3) (n = 4097: the first two; quick: the first), all estimators with reduced target sets and the quick iteration budgets (1e4 / 300) in both tiers. \
         Layout family: on the well-conditioned images (offset {0,5}, scale {1,1e3}) of four designs (n = 6, 9, 16, 1025) every estimator is also run with records / targets / predict input as column-major owned array (f), transposed view of a feature-major array (t), reversed-row view of a reversed copy (rev), every second row of a larger array with NaN filler rows (stride2): 8 (1-D targets) or 10 layout combinations x {OLS intercept on/off; penalty {.01,1} x l1_ratio {.5,1} x intercept x tol 1e-8 (f32: 1e-4)}. \
         Correlated designs: sheared factorials (x0 = s + e, x1 = e; x0 = s, x1 = s + e, x2 = s + e + f), a nearly collinear pair (a, 3a + b), each also with 'suppressor_targets' (y = K (z0 - z1) + c + small noise: a feature with (almost) zero marginal correlation and a non-zero optimal coefficient). \
         Equivariance family: on the mean-zero images of the correlated / suppressor designs, targets x c for c in {1e-3, 1e-2, 1e2} with the l1 part of the penalty x c (l2 part unchanged: the minimiser is then c x the unscaled one), base penalties {1e-4, 1e-2, 1e-1} x l1_ratio {.5, 1} x intercept x tol {1e-4, 1e-8}; every scaled run is judged by all oracles on the scaled problem and compared with c x the unscaled fit. \
         Builder family (3 small data sets): LinearRegression through new() / default() with and without with_intercept and with a decoy write first; ElasticNet / MultiTaskElasticNet parameter sets through all 120 orders of the five setters, the constructors params() / new() / default() / ridge() / lasso(), a decoy-then-real write of every field, and the setter-free forms (documented defaults). \
         Estimators: OLS (each target column, intercept on / off), ElasticNet (single target columns), MultiTaskElasticNet (first 1..3 target columns; quick: all 3); grid penalty {0,.01,.1,1,10} x l1_ratio {0,.5,1} x intercept {on,off} x tol {1e-4,1e-8}; \
         max_iterations 1e5 (quick 1e4) when penalty*l1_ratio > 0, 2000 (quick 300) when penalty*l1_ratio = 0 (the implementation's gap then equals the primal objective and never closes on noisy targets); f32 and f64. \
         Every member is run. evaluations = fits; a fit that ends on the iteration cap is counted in not_converged_iteration_cap and not judged (except on mean-zero orthogonal designs with an l1 part, where ending on the cap is itself a violation); \
         non-trivial = judged elastic-net fit with at least one non-zero coefficient, or OLS fit with a non-zero residual.",
    );
    ctx.assume("documented objective P(w,b) = 1/(2n) ||Y - XW - 1b'||_F^2 + penalty*l1_ratio*sum_j ||W_j||_2 + penalty*(1-l1_ratio)/2 ||W||_F^2 (single target: ||W_j||_2 = |w_j|), evaluated in plain f64 on the numbers as rounded to the subject's float type");
    ctx.assume("the solver's internal objective is n*P, so the bound used is reported_gap / n; elastic net: P(w) - P(w') <= gap/n + eps for every tested w', eps = 1e-9 (f64) / 1e-4 (f32) x M/(2n), M = sum_it (|y_it| + |b_t| + sum_j |x_ij w_jt|)^2 = operand magnitude of the squared residual");
    ctx.assume("tested perturbations: every coefficient entry and every intercept +- 10^k (k = -6..0) x rms(y)/rms(x_j) (intercept: x rms(y)); the exact minimiser of every coefficient row (block soft-threshold) and of the intercepts with everything else fixed (for a zero row or a row that keeps its sign this equals the decrease implied by the KKT sub-gradient residual, g^2/2a); objective differences are computed cancellation-free from the residual");
    ctx.assume("reported gap >= -1e-12 (f64) / -1e-4 (f32) x M");
    ctx.assume("global cross-check: P(returned) - P* <= gap/n + eps with P* from the harness's own f64 block coordinate descent on the centred problem (<= 20000 sweeps, accepted only when its own KKT-implied decrease is < 1e-14 x ||y||^2/2n, otherwise counted in global_check_skipped_reference_unconverged)");
    ctx.assume("l1 threshold: a non-zero coefficient row j with ||x_j'(R + x_j w_j)|| < n*penalty*l1_ratio - margin is a violation; margin = (10*tol + 100*c_obj) x (threshold + sum_k |x_j.x_k| ||w_k|| + ||x_j'Y||); inside the margin = indeterminate (counted)");
    ctx.assume("OLS: |x_j.r| <= c x ||x_j|| x S, |1.r| <= c x sqrt(n) x S and, with intercept, |(x_j - mean_j).r| <= c x ||x_j - mean_j|| x S, with S = ||y|| + sum_k ||x_k|| |beta_k| + sqrt(n)|b| (backward-error scale of a least-squares solve), c = 1e-12 (f64) / 1e-5 (f32) x max(1, sqrt(n / 40)) (n <= 40: the plain constant; the factor only concerns the n >= 1025 members) (a Householder QR stays below 1e-3 of these on the whole catalogue, see ols_max_*_ratio); SSE ladder slack (c S)^2");
    ctx.assume("OLS: SSE <= reference minimum + (c (S + kappa ||r||))^2 + 8 eps_f64 x max(1, sqrt(n / 40)) x evaluation magnitude; reference = modified Gram-Schmidt on the augmented matrix of centred (with intercept), unit-norm columns in f64; both SSEs are evaluated on the centred data; kappa = the reference's condition estimate of [X | 1]");
    ctx.assume("predict == X w + b within 1e-12 (f64) / 1e-5 (f32) x (sum |x_ij w_j| + |b|)");
    ctx.assume("layout family: every layout run is judged by all oracles and must give the same verdicts as the standard-layout run of the same case; fitted values X w + b of the two models (f64) must agree within 1e-9 (f64) / 1e-4 (f32) x (||fitted|| + ||y||) + sqrt(2 gap_1) + sqrt(2 gap_2) (two points whose suboptimality is bounded by their gaps); runs that end on the iteration cap or on the forced gap test of the last iteration are not compared (counted); arithmetic order of ndarray's dot differs between contiguous and strided columns, so bit-identity is only counted (layout_models_bit_identical), not demanded");
    ctx.assume("documented stopping rule: every elastic-net / multi-task fit that did not end on the iteration cap must report gap <= tol x ||y_c||^2 x (1 + 1e-9 (f64) / 1e-4 (f32)) + c_gap x M (y_c = targets, centred when an intercept is fitted)");
    ctx.assume("equivariance: || X w_c + b_c - c (X w + b) || <= 1e-9 (f64) / 1e-4 (f32) x (||fitted|| + c ||y||) + sqrt(2 (c^2 gap + g)) + sqrt(2 (gap_c + g)) (the solver's objective scales with c^2; g = 0 in f64, 1e-4 x (||fitted|| + c||y||)^2 in f32, the rounding slack of an f32 gap); runs that end on the iteration cap or on the forced gap test of the last iteration are not compared (counted)");
    ctx.assume("builder family: the checked parameter set's getters must equal the final logical set exactly, and the fitted model (coefficients, intercept, gap, n_steps, predictions) must be bit-identical to the one of the canonical construction new().with_intercept(e) / params().penalty().l1_ratio().with_intercept().tolerance().max_iterations(); every form is also judged by all oracles with the documented / final parameters");
    ctx.assume("predict_inplace (every fit): the result written into a NaN-filled buffer and into a buffer holding the predictions of the reversed batch must be bit-identical to predict()");
    ctx.assume("iteration cap on an easy problem: n <= 100, l1 part > 0, not a mean-zero orthogonal design (own signature), f64 or f32 as above, and the harness's plain cyclic (block) coordinate descent on the very problem the implementation iterates on (records as given, targets centred when an intercept is fitted, start 0, same duality-gap formula) reaches gap < 0.5 x (f32: 0.01 x) tol ||y||^2 with coefficient changes < tol/10 within N <= 100 sweeps, and max_iterations >= 100 N; counted in cap_on_easy_problem_checked (cannot hold for penalty*l1_ratio = 0, where the gap never closes)");
    ctx.assume("domain: [X | 1 if intercept] has full column rank (lvmc_core::refmath::rank on unit-norm columns, pivot tolerance 1e-7) — otherwise the case is run only with penalty > 0 and l1_ratio < 1 and counted out of domain else");
    ctx.assume("'mean-zero orthogonal design' (where the iteration cap is a violation): |mean_j| <= 1e-6 rms_j and |x_j.x_k| <= 1e-6 ||x_j|| ||x_k||, l1 part > 0, f64 — or f32 with tol >= 1e-4 and all non-zero |x_ij| in [1e-2, 1e2] (beyond that the f32 gap cannot resolve tol x ||y||^2)");
    ctx.assume("narrow signature *.intercept_is_target_mean_on_offset_features_not_joint_optimum is assigned only when the intercept equals mean(y) (1e-12 / 1e-5 relative), some column mean is non-zero (> 1e-6 rms), no coefficient / row perturbation beats the gap (the coefficients are optimal for the frozen intercept) and the intercept move or the joint reference optimum does");

    let thorough = ctx.thorough();
    let datas = catalogue::enumerate(thorough);
    let mut tasks: Vec<Task> = Vec::new();
    for (i, d) in datas.iter().enumerate() {
        for float in ["f64", "f32"] {
            if d.only_float.as_deref().map_or(false, |f| f != float) {
                continue;
            }
            for est in ["ols", "enet", "mtl"] {
                if d.ols_only && est != "ols" {
                    continue;
                }
                if d.reduced_targets && est != "ols" {
                    for c in 0..PENALTIES.len() {
                        tasks.push(Task { data: i, float, est, layouts: false, builder: false, equiv: false, penalty_chunk: Some(c) });
                    }
                } else {
                    tasks.push(Task { data: i, float, est, layouts: false, builder: false, equiv: false, penalty_chunk: None });
                }
                if est != "ols" && in_equivariance_family(d) {
                    tasks.push(Task { data: i, float, est, layouts: false, builder: false, equiv: true, penalty_chunk: None });
                }
                if in_builder_family(d) {
                    tasks.push(Task { data: i, float, est, layouts: false, builder: true, equiv: false, penalty_chunk: None });
                }
                if in_layout_family(d, thorough) {
                    tasks.push(Task { data: i, float, est, layouts: true, builder: false, equiv: false, penalty_chunk: None });
                }
            }
        }
    }
    let mut design_ids: Vec<String> = datas.iter().map(|d| d.design.clone()).collect();
    design_ids.sort();
    design_ids.dedup();
    ctx.extra("designs", json!(design_ids));
    ctx.extra(
        "image_modes",
        json!(catalogue::designs().iter().map(|d| (d.id.to_string(), format!("{:?}", if thorough { d.thorough } else { d.quick }))).collect::<BTreeMap<String, String>>()),
    );
    ctx.extra("data_sets_enumerated", json!(datas.len()));
    let expected: u64 = tasks.iter().map(|t| specs_for(&ctx, t, datas[t.data].reduced_targets).len() as u64).sum();
    ctx.extra("layout_family_data_sets", json!(datas.iter().filter(|d| in_layout_family(d, thorough)).count()));
    ctx.extra("fits_enumerated", json!(expected));

    let global = Mutex::new(Stats::default());
    par_sweep(&ctx, "fits", &tasks, |task| {
        let data = &datas[task.data];
        let mut st = Stats::default();
        let mut v = Vec::new();
        let specs = specs_for(&ctx, task, data.reduced_targets);
        for s in &specs {
            let before = st.n.get("judged_nontrivial_nonzero_coefficients").copied().unwrap_or(0) + st.n.get("ols_nontrivial_nonzero_residual").copied().unwrap_or(0);
            let fits_before = st.n.get("fits").copied().unwrap_or(0);
            run_case(data, s, &mut v, &mut st);
            let after = st.n.get("judged_nontrivial_nonzero_coefficients").copied().unwrap_or(0) + st.n.get("ols_nontrivial_nonzero_residual").copied().unwrap_or(0);
            if st.n.get("fits").copied().unwrap_or(0) > fits_before {
                ctx.eval(after > before);
            } else {
                ctx.out_of_domain();
            }
        }
        st.add("specs_visited", specs.len() as u64);
        ctx.violations(v);
        ctx.sample(|| json!({"design": data.design, "variant": data.variant, "offsets": data.offsets, "scales": data.scales, "n": data.x.len(), "x_first_rows": data.x.iter().take(12).collect::<Vec<_>>(), "y_first_rows": data.y.iter().take(12).collect::<Vec<_>>(), "float": task.float, "estimator": task.est, "layout_family": task.layouts, "builder_family": task.builder, "equivariance_family": task.equiv, "fits": specs.len()}));
        global.lock().unwrap().merge(st);
    });
    let g = global.into_inner().unwrap();
    for (k, v) in &g.n {
        ctx.extra(k, json!(v));
    }
    for (k, v) in &g.mx {
        ctx.extra(k, json!(v));
    }
    let visited = g.n.get("specs_visited").copied().unwrap_or(0);
    if visited != expected {
        ctx.capped(&format!("visited {} of {} enumerated fits", visited, expected));
    }
    let indet = g.n.get("threshold_margin_indeterminate").copied().unwrap_or(0);
    for _ in 0..indet {
        ctx.indeterminate();
    }
    ctx.finish(&replay_value);
}
