//! Reference model for C11 in plain f64 on Vec<Vec<f64>>: the documented objective, cancellation-free
//! objective differences, exact coordinate / row / intercept minimisers, a boring block coordinate
//! descent on the centred problem (reference optimum) and a least-squares solve through
//! lvmc_core::refmath. No linfa / ndarray code here.

use lvmc_core::refmath;

pub struct Prob {
    pub n: usize,
    pub p: usize,
    pub t: usize,
    pub x: Vec<Vec<f64>>, // n x p
    pub y: Vec<Vec<f64>>, // n x t
    pub lam1: f64,        // penalty * l1_ratio
    pub lam2: f64,        // penalty * (1 - l1_ratio)
}

pub struct Pert {
    pub d_coef: f64,
    pub coef_at: String,
    pub kkt_at: f64,
    pub d_int: f64,
    pub int_at: String,
    pub mean_r: Vec<f64>,
    pub evaluated: u64,
}

fn norm(v: &[f64]) -> f64 {
    v.iter().map(|a| a * a).sum::<f64>().sqrt()
}

/// Block soft-threshold: prox of thr * ||.||_2.
pub fn bst(c: &[f64], thr: f64) -> Vec<f64> {
    let nc = norm(c);
    if nc <= thr || nc == 0.0 {
        return vec![0.0; c.len()];
    }
    let s = 1.0 - thr / nc;
    c.iter().map(|v| v * s).collect()
}

impl Prob {
    pub fn new(x: &[Vec<f64>], y: &[Vec<f64>], lam1: f64, lam2: f64) -> Prob {
        Prob { n: x.len(), p: x[0].len(), t: y[0].len(), x: x.to_vec(), y: y.to_vec(), lam1, lam2 }
    }
    pub fn col_sq(&self, j: usize) -> f64 {
        self.x.iter().map(|r| r[j] * r[j]).sum()
    }
    pub fn y_centred_sq(&self, intercept: bool) -> f64 {
        let mut s = 0.0;
        for tt in 0..self.t {
            let m = if intercept { self.y.iter().map(|r| r[tt]).sum::<f64>() / self.n as f64 } else { 0.0 };
            s += self.y.iter().map(|r| (r[tt] - m) * (r[tt] - m)).sum::<f64>();
        }
        s
    }
    /// R = Y - X W - 1 b'
    pub fn resid(&self, w: &[Vec<f64>], b: &[f64]) -> Vec<Vec<f64>> {
        (0..self.n)
            .map(|i| {
                (0..self.t)
                    .map(|tt| {
                        let mut v = self.y[i][tt] - b[tt];
                        for j in 0..self.p {
                            v -= self.x[i][j] * w[j][tt];
                        }
                        v
                    })
                    .collect()
            })
            .collect()
    }
    pub fn objective(&self, w: &[Vec<f64>], b: &[f64]) -> f64 {
        let r = self.resid(w, b);
        let fit: f64 = r.iter().flatten().map(|v| v * v).sum::<f64>() / (2.0 * self.n as f64);
        let l21: f64 = w.iter().map(|row| norm(row)).sum();
        let fro: f64 = w.iter().flatten().map(|v| v * v).sum();
        fit + self.lam1 * l21 + 0.5 * self.lam2 * fro
    }
    fn xr(&self, r: &[Vec<f64>], j: usize) -> Vec<f64> {
        (0..self.t).map(|tt| (0..self.n).map(|i| self.x[i][j] * r[i][tt]).sum()).collect()
    }
    /// P(W with row j := v) - P(W), from the residual (no subtraction of two large objectives).
    pub fn delta_row(&self, xr: &[f64], csq: f64, wj: &[f64], v: &[f64]) -> f64 {
        let n = self.n as f64;
        let mut fit = 0.0;
        let mut quad = 0.0; // ||v||^2 - ||w_j||^2
        for tt in 0..self.t {
            let d = v[tt] - wj[tt];
            fit += -2.0 * d * xr[tt] + d * d * csq;
            quad += d * (2.0 * wj[tt] + d);
        }
        fit /= 2.0 * n;
        let ndiff = if self.t == 1 {
            v[0].abs() - wj[0].abs()
        } else {
            let den = norm(v) + norm(wj);
            if den > 0.0 {
                quad / den
            } else {
                0.0
            }
        };
        fit + self.lam1 * ndiff + 0.5 * self.lam2 * quad
    }
    /// P(b + d) - P(b)
    pub fn delta_b(&self, sum_r: &[f64], d: &[f64]) -> f64 {
        let n = self.n as f64;
        let mut s = 0.0;
        for tt in 0..self.t {
            s += -2.0 * d[tt] * sum_r[tt] + d[tt] * d[tt] * n;
        }
        s / (2.0 * n)
    }
    /// All tested perturbations of the point (W, b) with residual r; returns the largest decrease
    /// of the objective among coefficient-type and among intercept-type perturbations.
    pub fn perturb(&self, r: &[Vec<f64>], w: &[Vec<f64>], intercept: bool) -> Pert {
        let n = self.n as f64;
        let yrms = (self.y.iter().flatten().map(|v| v * v).sum::<f64>() / (self.n * self.t) as f64).sqrt().max(1e-300);
        let mut out = Pert { d_coef: 0.0, coef_at: String::from("(none)"), kkt_at: 0.0, d_int: 0.0, int_at: String::from("(none)"), mean_r: vec![0.0; self.t], evaluated: 0 };
        for j in 0..self.p {
            let xr = self.xr(r, j);
            let csq = self.col_sq(j);
            // KKT residual of row j: distance of 0 to the sub-differential
            let grad: Vec<f64> = (0..self.t).map(|tt| -xr[tt] / n + self.lam2 * w[j][tt]).collect();
            let nw = norm(&w[j]);
            let kkt = if nw > 0.0 {
                norm(&(0..self.t).map(|tt| grad[tt] + self.lam1 * w[j][tt] / nw).collect::<Vec<_>>())
            } else {
                (norm(&grad) - self.lam1).max(0.0)
            };
            let consider = |v: &[f64], what: &dyn Fn() -> String, out: &mut Pert| {
                out.evaluated += 1;
                let dec = -self.delta_row(&xr, csq, &w[j], v);
                if dec > out.d_coef {
                    out.d_coef = dec;
                    out.coef_at = what();
                    out.kkt_at = kkt;
                }
            };
            // exact minimiser of row j with everything else fixed
            let a = csq / n + self.lam2;
            if a > 0.0 {
                let c: Vec<f64> = (0..self.t).map(|tt| xr[tt] / n + csq / n * w[j][tt]).collect();
                let v: Vec<f64> = bst(&c, self.lam1).iter().map(|u| u / a).collect();
                consider(&v, &|| format!("replacing coefficient row {} by its exact block minimiser {:?}", j, v), &mut out);
            }
            let xrms = (csq / n).sqrt();
            let unit = yrms / if xrms > 0.0 { xrms } else { 1.0 };
            for tt in 0..self.t {
                for k in -6..=0 {
                    for sign in [1.0, -1.0] {
                        let d = sign * 10f64.powi(k) * unit;
                        let mut v = w[j].clone();
                        v[tt] += d;
                        consider(&v, &|| format!("coefficient ({}, target {}) {:+e}", j, tt, d), &mut out);
                    }
                }
            }
        }
        let sum_r: Vec<f64> = (0..self.t).map(|tt| r.iter().map(|row| row[tt]).sum()).collect();
        out.mean_r = sum_r.iter().map(|s| s / n).collect();
        if intercept {
            let consider = |d: &[f64], what: &dyn Fn() -> String, out: &mut Pert| {
                out.evaluated += 1;
                let dec = -self.delta_b(&sum_r, d);
                if dec > out.d_int {
                    out.d_int = dec;
                    out.int_at = what();
                }
            };
            let d = out.mean_r.clone();
            consider(&d, &|| format!("moving the intercepts by the residual means {:?}", d), &mut out);
            for tt in 0..self.t {
                for k in -6..=0 {
                    for sign in [1.0, -1.0] {
                        let mut d = vec![0.0; self.t];
                        d[tt] = sign * 10f64.powi(k) * yrms;
                        consider(&d, &|| format!("intercept (target {}) {:+e}", tt, d[tt]), &mut out);
                    }
                }
            }
        }
        out
    }
    /// (|| x_j'(R + x_j w_j) ||, magnitude of the terms entering it) for the l1-threshold check.
    pub fn partial_correlation(&self, r: &[Vec<f64>], w: &[Vec<f64>], j: usize) -> (f64, f64) {
        let xr = self.xr(r, j);
        let csq = self.col_sq(j);
        let c: Vec<f64> = (0..self.t).map(|tt| xr[tt] + csq * w[j][tt]).collect();
        let mut mag = 0.0;
        for k in 0..self.p {
            let xjxk: f64 = (0..self.n).map(|i| self.x[i][j] * self.x[i][k]).sum();
            mag += xjxk.abs() * norm(&w[k]);
        }
        let xy: Vec<f64> = (0..self.t).map(|tt| (0..self.n).map(|i| self.x[i][j] * self.y[i][tt]).sum()).collect();
        mag += norm(&xy);
        (norm(&c), mag)
    }
}

fn centre(m: &[Vec<f64>]) -> (Vec<Vec<f64>>, Vec<f64>) {
    let n = m.len();
    let k = m[0].len();
    let means: Vec<f64> = (0..k).map(|j| m.iter().map(|r| r[j]).sum::<f64>() / n as f64).collect();
    (m.iter().map(|r| (0..k).map(|j| r[j] - means[j]).collect()).collect(), means)
}

/// Reference optimum value P* of the documented objective (jointly over W and, when `intercept`,
/// b): the unpenalised intercept is profiled out exactly by centring X and Y, then cyclic block
/// coordinate descent with exact row updates. None when it does not reach KKT within the budget.
pub fn solve(prob: &Prob, intercept: bool) -> Option<f64> {
    let (x, y) = if intercept { (centre(&prob.x).0, centre(&prob.y).0) } else { (prob.x.clone(), prob.y.clone()) };
    let cp = Prob::new(&x, &y, prob.lam1, prob.lam2);
    let n = cp.n as f64;
    let (p, t) = (cp.p, cp.t);
    let csq: Vec<f64> = (0..p).map(|j| cp.col_sq(j)).collect();
    let mut w = vec![vec![0.0; t]; p];
    let mut r = y.clone();
    let yrms = (y.iter().flatten().map(|v| v * v).sum::<f64>() / (cp.n * t) as f64).sqrt();
    let p0 = prob.y.iter().flatten().map(|v| v * v).sum::<f64>() / (2.0 * n) + 1e-300;
    for _sweep in 0..20_000 {
        let mut maxd: f64 = 0.0;
        for j in 0..p {
            let a = csq[j] / n + cp.lam2;
            if csq[j] == 0.0 || a <= 0.0 {
                continue;
            }
            let c: Vec<f64> = (0..t).map(|tt| ((0..cp.n).map(|i| x[i][j] * r[i][tt]).sum::<f64>() + csq[j] * w[j][tt]) / n).collect();
            let v: Vec<f64> = bst(&c, cp.lam1).iter().map(|u| u / a).collect();
            let d: Vec<f64> = (0..t).map(|tt| v[tt] - w[j][tt]).collect();
            if d.iter().any(|&u| u != 0.0) {
                for i in 0..cp.n {
                    for tt in 0..t {
                        r[i][tt] -= x[i][j] * d[tt];
                    }
                }
            }
            maxd = maxd.max(norm(&d) * (csq[j] / n).sqrt());
            w[j] = v;
        }
        if maxd <= 1e-15 * yrms {
            break;
        }
    }
    // accept only at a KKT point: largest decrease implied by the sub-gradient residual
    let zeros = vec![0.0; t];
    let rr = cp.resid(&w, &zeros);
    let pert = cp.perturb(&rr, &w, false);
    if pert.d_coef > 1e-14 * p0 {
        return None;
    }
    Some(cp.objective(&w, &zeros))
}

/// Number of sweeps the textbook cyclic (block) coordinate descent needs, from W = 0 and on the problem
/// exactly as the implementation poses it (records as given, targets centred when an intercept is fitted),
/// until the standard elastic-net duality gap is below `margin * tol * ||y||^2` and the largest coefficient
/// change of the sweep is below `tol / 10` of the largest coefficient. None if not within `max_sweeps`.
pub fn cd_sweeps_to_converge(prob: &Prob, intercept: bool, tol: f64, margin: f64, max_sweeps: usize) -> Option<usize> {
    let (n, p, t) = (prob.n, prob.p, prob.t);
    let nf = n as f64;
    let y: Vec<Vec<f64>> = if intercept { centre(&prob.y).0 } else { prob.y.clone() };
    let x = &prob.x;
    let (l1, l2) = (nf * prob.lam1, nf * prob.lam2);
    let csq: Vec<f64> = (0..p).map(|j| prob.col_sq(j)).collect();
    let ysq: f64 = y.iter().flatten().map(|v| v * v).sum();
    if ysq == 0.0 {
        return None;
    }
    let mut w = vec![vec![0.0; t]; p];
    let mut r = y.clone();
    for sweep in 1..=max_sweeps {
        let (mut w_max, mut d_max): (f64, f64) = (0.0, 0.0);
        for j in 0..p {
            if csq[j] <= f64::EPSILON {
                continue;
            }
            let c: Vec<f64> = (0..t).map(|tt| (0..n).map(|i| x[i][j] * r[i][tt]).sum::<f64>() + csq[j] * w[j][tt]).collect();
            let v: Vec<f64> = bst(&c, l1).iter().map(|u| u / (csq[j] + l2)).collect();
            let d: Vec<f64> = (0..t).map(|tt| v[tt] - w[j][tt]).collect();
            for i in 0..n {
                for tt in 0..t {
                    r[i][tt] -= x[i][j] * d[tt];
                }
            }
            d_max = d_max.max(norm(&d));
            w_max = w_max.max(norm(&v));
            w[j] = v;
        }
        // duality gap (same formula as scikit-learn / the implementation)
        let xta: Vec<Vec<f64>> = (0..p).map(|j| (0..t).map(|tt| (0..n).map(|i| x[i][j] * r[i][tt]).sum::<f64>() - l2 * w[j][tt]).collect()).collect();
        let dual_norm = xta.iter().map(|row| norm(row)).fold(0.0, f64::max);
        let r2: f64 = r.iter().flatten().map(|v| v * v).sum();
        let w2: f64 = w.iter().flatten().map(|v| v * v).sum();
        let (c, mut gap) = if dual_norm > l1 { (l1 / dual_norm, 0.5 * (r2 + r2 * (l1 / dual_norm).powi(2))) } else { (1.0, r2) };
        let ry: f64 = (0..n).map(|i| (0..t).map(|tt| r[i][tt] * y[i][tt]).sum::<f64>()).sum();
        gap += l1 * w.iter().map(|row| norm(row)).sum::<f64>() - c * ry + 0.5 * l2 * (1.0 + c * c) * w2;
        let stable = w_max == 0.0 || d_max / w_max < tol / 10.0;
        if stable && gap < margin * tol * ysq {
            return Some(sweep);
        }
    }
    None
}

/// Unit-norm columns (+ constant column) have full column rank.
pub fn full_column_rank(x: &[Vec<f64>], intercept: bool) -> bool {
    let n = x.len();
    let p = x[0].len();
    let mut cols: Vec<Vec<f64>> = (0..p).map(|j| x.iter().map(|r| r[j]).collect()).collect();
    if intercept {
        cols.push(vec![1.0; n]);
    }
    for c in cols.iter_mut() {
        let nc = norm(c);
        if nc == 0.0 {
            return false;
        }
        for v in c.iter_mut() {
            *v /= nc;
        }
    }
    let k = cols.len();
    let m: Vec<Vec<f64>> = (0..n).map(|i| (0..k).map(|j| cols[j][i]).collect()).collect();
    refmath::rank(&m, 1e-7) == k
}

/// Columns are mean-zero and mutually orthogonal (within rounding of the f32 image).
pub fn orthogonal_centred(x: &[Vec<f64>]) -> bool {
    let n = x.len();
    let p = x[0].len();
    let cols: Vec<Vec<f64>> = (0..p).map(|j| x.iter().map(|r| r[j]).collect()).collect();
    for j in 0..p {
        let nj = norm(&cols[j]);
        if nj == 0.0 {
            return false;
        }
        let mean = cols[j].iter().sum::<f64>() / n as f64;
        if mean.abs() > 1e-6 * nj / (n as f64).sqrt() {
            return false;
        }
        for k in 0..j {
            let d: f64 = (0..n).map(|i| cols[j][i] * cols[k][i]).sum();
            if d.abs() > 1e-6 * nj * norm(&cols[k]) {
                return false;
            }
        }
    }
    true
}

/// Least squares by modified Gram-Schmidt on the augmented matrix [Z | y] (Bjorck), Z = columns
/// centred when `intercept` (this removes the collinearity with the constant column exactly) and
/// scaled to unit norm; returns (coefficients, intercept, centred columns, centred y, column means, mean of y).
pub struct Lsq {
    pub beta: Vec<f64>,
    pub b: f64,
    pub xmean: Vec<f64>,
    pub ymean: f64,
    /// sum of squared residuals of the reference solution, evaluated on the centred data
    pub sse: f64,
    /// max_j ||z_j|| / min_j r_jj: estimate of the condition number of [X | 1]
    pub cond: f64,
}

pub fn lstsq(x: &[Vec<f64>], y: &[f64], intercept: bool) -> Option<Lsq> {
    let n = x.len();
    let p = x[0].len();
    let xmean: Vec<f64> = if intercept { (0..p).map(|j| x.iter().map(|r| r[j]).sum::<f64>() / n as f64).collect() } else { vec![0.0; p] };
    let ymean = if intercept { y.iter().sum::<f64>() / n as f64 } else { 0.0 };
    let zc: Vec<Vec<f64>> = (0..p).map(|j| x.iter().map(|r| r[j] - xmean[j]).collect()).collect(); // columns
    let yc: Vec<f64> = y.iter().map(|v| v - ymean).collect();
    let scale: Vec<f64> = zc.iter().map(|c| norm(c)).collect();
    if scale.iter().any(|&s| s == 0.0) {
        return None;
    }
    let mut q: Vec<Vec<f64>> = (0..p).map(|j| zc[j].iter().map(|v| v / scale[j]).collect()).collect();
    let mut rmat = vec![vec![0.0; p]; p];
    let mut zvec = vec![0.0; p];
    let mut yy = yc.clone();
    let mut rmin = f64::INFINITY;
    for j in 0..p {
        let rjj = norm(&q[j]);
        if rjj < 1e-13 {
            return None;
        }
        rmin = rmin.min(rjj);
        rmat[j][j] = rjj;
        for v in q[j].iter_mut() {
            *v /= rjj;
        }
        for k in j + 1..p {
            let d: f64 = (0..n).map(|i| q[j][i] * q[k][i]).sum();
            rmat[j][k] = d;
            for i in 0..n {
                q[k][i] -= d * q[j][i];
            }
        }
        let d: f64 = (0..n).map(|i| q[j][i] * yy[i]).sum();
        zvec[j] = d;
        for i in 0..n {
            yy[i] -= d * q[j][i];
        }
    }
    // back substitution R u = z
    let mut u = vec![0.0; p];
    for j in (0..p).rev() {
        let mut v = zvec[j];
        for k in j + 1..p {
            v -= rmat[j][k] * u[k];
        }
        u[j] = v / rmat[j][j];
    }
    let beta: Vec<f64> = (0..p).map(|j| u[j] / scale[j]).collect();
    let b = ymean - (0..p).map(|j| xmean[j] * beta[j]).sum::<f64>();
    let sse: f64 = (0..n).map(|i| yc[i] - (0..p).map(|j| zc[j][i] * beta[j]).sum::<f64>()).map(|r| r * r).sum();
    // condition estimate of the uncentred problem: offset / spread enters through ||x_j|| / ||centred x_j||
    let mut cond: f64 = 1.0 / rmin;
    if intercept {
        for j in 0..p {
            let full = x.iter().map(|r| r[j] * r[j]).sum::<f64>().sqrt();
            cond = cond.max(full / (scale[j] * rmin));
        }
    }
    Some(Lsq { beta, b, xmean, ymean, sse, cond })
}
