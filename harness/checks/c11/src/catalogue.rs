//! The finite catalogue of regression designs of C11. Every member has an id; the whole catalogue
//! of the tier is always run.

use lvmc_core::enumerate as en;
use serde::{Deserialize, Serialize};

pub const OFFSETS: [f64; 3] = [0.0, 5.0, -100.0];
pub const SCALES: [f64; 3] = [1e-3, 1.0, 1e3];

#[derive(Clone, Debug, Serialize, Deserialize)]
pub struct Data {
    pub design: String,
    pub variant: String, // "full_rank" | "const_col=<c>" | "dup_col0" | "even_targets"
    pub offsets: Vec<f64>,
    pub scales: Vec<f64>,
    pub x: Vec<Vec<f64>>, // n x p
    pub y: Vec<Vec<f64>>, // n x 3
    /// only the OLS part is run on this member (strongly offset images of the tall designs)
    #[serde(default)]
    pub ols_only: bool,
    /// restricts the member to one float type ("f64": offsets that f32 cannot resolve)
    #[serde(default)]
    pub only_float: Option<String>,
    /// large replicated members (n in {1025, 4097}): reduced target sets (enet: column 0, mtl: all 3)
    #[serde(default)]
    pub reduced_targets: bool,
}

/// Which per-column (offset, scale) images of a design are enumerated.
#[derive(Clone, Copy, PartialEq, Debug)]
pub enum Images {
    /// not part of the tier
    Skip,
    /// the 9 images that apply the same (offset, scale) to every column
    Same,
    /// Same + for every column the 8 other pairs with the remaining columns at (0, 1): 9 + 8p
    PerColumn,
    /// the full 9^p cross product
    Cross,
    /// three images, the same for every column: (0, 1), (5, 1), (0, 1e3) (large replicated members)
    Few,
}

pub struct Design {
    pub id: &'static str,
    pub pts: Vec<Vec<i64>>,
    pub quick: Images,
    pub thorough: Images,
}

/// Strong offsets of the tall designs (unit spacing): 1e7 only in f64, 2000 in both float types.
pub const STRONG_OFFSETS: [(f64, bool); 2] = [(1e7, true), (2000.0, false)];

fn full_factorial(levels: &[usize], reps: usize) -> Vec<Vec<i64>> {
    let mut out = Vec::new();
    for g in en::grid(levels) {
        for _ in 0..reps {
            out.push(g.iter().map(|&v| v as i64).collect());
        }
    }
    out
}

/// Lattice points (i, j) of the k x k lattice with |i - j| <= 1 (strongly correlated columns): 3k - 2 points.
fn band(k: usize) -> Vec<Vec<i64>> {
    en::grid(&[k, k]).into_iter().filter(|g| (g[0] as i64 - g[1] as i64).abs() <= 1).map(|g| g.iter().map(|&v| v as i64).collect()).collect()
}

fn latin() -> Vec<Vec<i64>> {
    en::grid(&[3, 3]).into_iter().map(|g| vec![g[0] as i64, g[1] as i64, ((g[0] + g[1]) % 3) as i64]).collect()
}
fn cyclic(base: &[Vec<i64>], n: usize) -> Vec<Vec<i64>> {
    (0..n).map(|i| base[i % base.len()].clone()).collect()
}

pub fn is_tall(id: &str) -> bool {
    id.starts_with("p1_n16") || id.starts_with("p1_n24") || id.starts_with("p1_n40") || id.starts_with("p2_n16") || id.starts_with("p2_n24") || id.starts_with("p2_n40")
}

pub fn designs() -> Vec<Design> {
    use Images::*;
    let d = |id: &'static str, pts: Vec<Vec<i64>>, quick: Images, thorough: Images| Design { id, pts, quick, thorough };
    let col = |v: &[i64]| -> Vec<Vec<i64>> { v.iter().map(|&a| vec![a]).collect() };
    vec![
        // ---- p = 1
        d("p1_n4_levels4", col(&[0, 1, 2, 3]), Cross, Cross),
        d("p1_n4_2levels_x2", col(&[0, 0, 1, 1]), Skip, Cross),
        d("p1_n6_levels6", col(&[0, 1, 2, 3, 4, 5]), Skip, Cross),
        d("p1_n6_3levels_x2", col(&[0, 0, 1, 1, 2, 2]), Cross, Cross),
        d("p1_n6_unbalanced", col(&[0, 0, 0, 1, 2, 5]), Skip, Cross),
        d("p1_n9_levels9", col(&[0, 1, 2, 3, 4, 5, 6, 7, 8]), Skip, Cross),
        d("p1_n9_3levels_x3", col(&[0, 0, 0, 1, 1, 1, 2, 2, 2]), Skip, Cross),
        d("p1_n12_levels12", col(&[0, 1, 2, 3, 4, 5, 6, 7, 8, 9, 10, 11]), Skip, Cross),
        d("p1_n12_4levels_x3", col(&[0, 0, 0, 1, 1, 1, 2, 2, 2, 3, 3, 3]), Skip, Cross),
        // ---- p = 2, full factorial
        d("p2_n4_ff2x2", full_factorial(&[2, 2], 1), Skip, PerColumn),
        d("p2_n6_ff2x3", full_factorial(&[2, 3], 1), PerColumn, Cross),
        d("p2_n9_ff3x3", full_factorial(&[3, 3], 1), Skip, PerColumn),
        d("p2_n12_ff3x4", full_factorial(&[3, 4], 1), Skip, Same),
        d("p2_n12_ff2x2_x3", full_factorial(&[2, 2], 3), Skip, Same),
        d("p2_n12_ff2x6", full_factorial(&[2, 6], 1), Skip, Same),
        // ---- p = 2, fractions of the 3x3 / 4x4 lattice (correlated columns)
        d("p2_n4_frac3x3_diagonal_plus_corner", vec![vec![0, 0], vec![1, 1], vec![2, 2], vec![0, 2]], Skip, Same),
        d("p2_n6_frac3x3_lower_triangle", vec![vec![0, 0], vec![0, 1], vec![0, 2], vec![1, 0], vec![1, 1], vec![2, 0]], PerColumn, PerColumn),
        d(
            "p2_n9_frac4x4_band",
            vec![vec![0, 0], vec![0, 1], vec![1, 0], vec![1, 1], vec![1, 2], vec![2, 1], vec![2, 2], vec![2, 3], vec![3, 2]],
            Skip, Same),
        d(
            "p2_n12_frac4x4_without_antidiagonal",
            en::grid(&[4, 4]).into_iter().filter(|g| g[0] + g[1] != 3).map(|g| g.iter().map(|&v| v as i64).collect()).collect(),
            Skip, Same),
        // ---- p = 3
        d("p3_n4_frac2x2x2_half", vec![vec![0, 0, 0], vec![1, 1, 0], vec![1, 0, 1], vec![0, 1, 1]], Skip, Same),
        d(
            "p3_n6_frac2x2x2_without_two_corners",
            en::grid(&[2, 2, 2]).into_iter().filter(|g| !(g[0] == g[1] && g[1] == g[2])).map(|g| g.iter().map(|&v| v as i64).collect()).collect(),
            Skip, Same),
        d(
            "p3_n9_frac3x3x3_latin_square",
            en::grid(&[3, 3]).into_iter().map(|g| vec![g[0] as i64, g[1] as i64, ((g[0] + g[1]) % 3) as i64]).collect(),
            PerColumn, PerColumn),
        d("p3_n12_ff2x2x3", full_factorial(&[2, 2, 3], 1), Skip, Same),
        d("p3_n12_frac2x3x4_cyclic", (0..12).map(|i| vec![i % 2, i % 3, i % 4]).collect(), Skip, Same),
        // ---- correlated (non-orthogonal) designs: sheared factorials and a nearly collinear pair
        d("p2_n6_sheared2x3_s_plus_e_and_e", en::grid(&[3, 2]).into_iter().map(|g| vec![(g[0] + 2 * g[1]) as i64, (2 * g[1]) as i64]).collect(), PerColumn, PerColumn),
        d("p2_n9_nearly_collinear_a_and_3a_plus_b", en::grid(&[3, 3]).into_iter().map(|g| vec![g[0] as i64, (3 * g[0] + g[1]) as i64]).collect(), Same, Same),
        d(
            "p3_n12_sheared3x2x2_s_se_sef",
            en::grid(&[3, 2, 2]).into_iter().map(|g| vec![g[0] as i64, (g[0] + 2 * g[1]) as i64, (g[0] + 2 * g[1] + 2 * g[2]) as i64]).collect(),
            Same,
            Same,
        ),
        // ---- tall designs (n >= 8 x number of columns incl. the constant column): replicated / extended lattices
        d("p1_n16_4levels_x4", full_factorial(&[4], 4), Cross, Cross),
        d("p1_n24_6levels_x4", full_factorial(&[6], 4), Skip, Cross),
        d("p1_n40_8levels_x5", full_factorial(&[8], 5), Cross, Cross),
        d("p2_n16_ff4x4", full_factorial(&[4, 4], 1), Same, PerColumn),
        d("p2_n16_frac6x6_band", band(6), Skip, Same),
        d("p2_n24_ff4x6", full_factorial(&[4, 6], 1), Skip, Same),
        d("p2_n40_ff5x8", full_factorial(&[5, 8], 1), Same, Same),
        d("p2_n40_frac14x14_band", band(14), Same, Same),
        // ---- large replicated members (size thresholds 1024 / 4096): base design repeated cyclically
        d("p1_n1025_4levels_cyclic", cyclic(&full_factorial(&[4], 1), 1025), Skip, Few),
        d("p2_n1025_ff2x3_cyclic", cyclic(&full_factorial(&[2, 3], 1), 1025), Few, Few),
        d("p3_n1025_latin_square_cyclic", cyclic(&latin(), 1025), Skip, Few),
        d("p2_n4097_ff2x3_cyclic", cyclic(&full_factorial(&[2, 3], 1), 4097), Skip, Few),
        d("p3_n4097_latin_square_cyclic", cyclic(&latin(), 4097), Skip, Few),
    ]
}

/// Per-column (offset, scale) images: every column sees every pair.
pub fn images(p: usize, mode: Images) -> Vec<(Vec<f64>, Vec<f64>)> {
    let pairs: Vec<(f64, f64)> = OFFSETS.iter().flat_map(|&o| SCALES.iter().map(move |&s| (o, s))).collect();
    let mut out: Vec<(Vec<f64>, Vec<f64>)> = Vec::new();
    if mode == Images::Skip {
        return out;
    }
    if mode == Images::Few {
        for (o, s) in [(0.0, 1.0), (5.0, 1.0), (0.0, 1e3)] {
            out.push((vec![o; p], vec![s; p]));
        }
        return out;
    }
    if p == 1 || mode == Images::Cross {
        for seq in en::sequences(p, pairs.len()) {
            out.push((seq.iter().map(|&k| pairs[k].0).collect(), seq.iter().map(|&k| pairs[k].1).collect()));
        }
        return out;
    }
    for &(o, s) in &pairs {
        out.push((vec![o; p], vec![s; p]));
    }
    if mode == Images::Same {
        return out;
    }
    for j in 0..p {
        for &(o, s) in &pairs {
            if o == 0.0 && s == 1.0 {
                continue;
            }
            let mut os = vec![0.0; p];
            let mut ss = vec![1.0; p];
            os[j] = o;
            ss[j] = s;
            out.push((os, ss));
        }
    }
    out
}

/// 12 significant digits, so that the literal survives a JSON round trip bit-exactly.
fn q(v: f64) -> f64 {
    format!("{:.11e}", v).parse::<f64>().unwrap()
}

const COEF: [[f64; 3]; 3] = [[1.5, -2.0, 0.75], [-0.5, 1.0, 2.0], [0.0, 3.0, -1.0]];
const CONST: [f64; 3] = [2.0, -1.0, 0.5];

fn centred(pts: &[Vec<i64>]) -> Vec<Vec<f64>> {
    let n = pts.len();
    let p = pts[0].len();
    let means: Vec<f64> = (0..p).map(|j| pts.iter().map(|r| r[j] as f64).sum::<f64>() / n as f64).collect();
    pts.iter().map(|r| (0..p).map(|j| r[j] as f64 - means[j]).collect()).collect()
}

fn targets(z: &[Vec<f64>]) -> Vec<Vec<f64>> {
    z.iter()
        .enumerate()
        .map(|(i, r)| (0..3).map(|t| q(CONST[t] + r.iter().enumerate().map(|(j, v)| COEF[t][j] * v).sum::<f64>() + 8.0 * en::jitter(i, t))).collect())
        .collect()
}

pub fn enumerate(thorough: bool) -> Vec<Data> {
    let mut out = Vec::new();
    for d in designs() {
        let mode = if thorough { d.thorough } else { d.quick };
        if mode == Images::Skip {
            continue;
        }
        let p = d.pts[0].len();
        let big = d.pts.len() > 1000;
        let z = centred(&d.pts);
        let y = targets(&z);
        for (os, ss) in images(p, mode).into_iter().take(if big && !thorough { 1 } else if d.pts.len() > 4000 { 2 } else { usize::MAX }) {
            let x: Vec<Vec<f64>> = z.iter().map(|r| (0..p).map(|j| q((r[j] + os[j]) * ss[j])).collect()).collect();
            out.push(Data { design: d.id.to_string(), variant: "full_rank".into(), offsets: os.clone(), scales: ss.clone(), x, y: y.clone(), ols_only: false, only_float: Option::None, reduced_targets: big });
        }
        // tall designs: strongly offset images, OLS only ("whatever the offsets of the features")
        if is_tall(d.id) {
            for &(off, f64_only) in &STRONG_OFFSETS {
                let mut imgs: Vec<Vec<f64>> = vec![vec![off; p]];
                if p == 2 {
                    imgs = vec![vec![off, -1.5 * off], vec![off, 0.0], vec![0.0, off]];
                }
                for os in imgs {
                    let x: Vec<Vec<f64>> = z.iter().map(|r| (0..p).map(|j| q(r[j] + os[j])).collect()).collect();
                    out.push(Data {
                        design: d.id.to_string(),
                        variant: "strong_offset".into(),
                        offsets: os.clone(),
                        scales: vec![1.0; p],
                        x,
                        y: y.clone(),
                        ols_only: true,
                        only_float: if f64_only { Some("f64".to_string()) } else { Option::None },
                        reduced_targets: false,
                    });
                }
            }
        }
        // targets that are an even function of column 0 (integers): column 0 is EXACTLY orthogonal to every
        // centred target, i.e. its correlation sits exactly at 0 <= l1 threshold (image (0, 1) only: exact arithmetic)
        let even = matches!(d.id, "p1_n4_levels4" | "p2_n6_ff2x3") || (thorough && matches!(d.id, "p1_n6_3levels_x2" | "p2_n9_ff3x3"));
        if even {
            const C: [f64; 3] = [1.0, -2.0, 3.0];
            const K: [f64; 3] = [1.0, 2.0, -1.0];
            const L: [f64; 3] = [3.0, -1.0, 2.0];
            let ye: Vec<Vec<f64>> = z.iter().map(|r| (0..3).map(|t| C[t] + K[t] * (2.0 * r[0]) * (2.0 * r[0]) + if p > 1 { L[t] * r[1] } else { 0.0 }).collect()).collect();
            out.push(Data { design: d.id.to_string(), variant: "even_targets".into(), offsets: vec![0.0; p], scales: vec![1.0; p], x: z.clone(), y: ye, ols_only: false, only_float: Option::None, reduced_targets: big });
        }
        // suppressor targets on the correlated designs (centred image only): y = K (z0 - z1) + c + small noise
        if d.id.contains("sheared") || d.id.contains("nearly_collinear") {
            const C: [f64; 3] = [1.0, -2.0, 0.5];
            const K: [f64; 3] = [1.0, -1.5, 2.0];
            let ys: Vec<Vec<f64>> = z.iter().enumerate().map(|(i, r)| (0..3).map(|t| q(C[t] + K[t] * (r[0] - r[1]) + 0.2 * en::jitter(i, t))).collect()).collect();
            let x: Vec<Vec<f64>> = z.iter().map(|r| r.iter().map(|&v| q(v)).collect()).collect();
            out.push(Data { design: d.id.to_string(), variant: "suppressor_targets".into(), offsets: vec![0.0; p], scales: vec![1.0; p], x, y: ys, ols_only: false, only_float: Option::None, reduced_targets: false });
        }
        // rank-deficient variants (p <= 2 so that p stays <= 3): same image for all columns
        let variants = d.id == "p1_n6_3levels_x2" || (thorough && d.id == "p2_n4_ff2x2");
        if variants {
            for (os, ss) in images(p, Images::Same) {
                let x: Vec<Vec<f64>> = z.iter().map(|r| (0..p).map(|j| q((r[j] + os[j]) * ss[j])).collect()).collect();
                for c in if thorough { vec![0.0, 1.0, 5000.0] } else { vec![1.0] } {
                    let xc: Vec<Vec<f64>> = x.iter().map(|r| r.iter().cloned().chain(std::iter::once(c)).collect()).collect();
                    out.push(Data { design: d.id.to_string(), variant: format!("const_col={}", c), offsets: os.clone(), scales: ss.clone(), x: xc, y: y.clone(), ols_only: false, only_float: Option::None, reduced_targets: big });
                }
                let xd: Vec<Vec<f64>> = x.iter().map(|r| r.iter().cloned().chain(std::iter::once(r[0])).collect()).collect();
                out.push(Data { design: d.id.to_string(), variant: "dup_col0".into(), offsets: os.clone(), scales: ss.clone(), x: xd, y: y.clone(), ols_only: false, only_float: Option::None, reduced_targets: big });
            }
        }
    }
    out
}
