//! The finite catalogue of regression designs of C11. Every member has an id; the whole catalogue
//! of the tier is always run.

use lvmc_core::enumerate as en;
use serde::{Deserialize, Serialize};

pub const OFFSETS: [f64; 3] = [0.0, 5.0, -100.0];
pub const SCALES: [f64; 3] = [1e-3, 1.0, 1e3];

#[derive(Clone, Debug, Serialize, Deserialize)]
pub struct Data {
    pub design: String,
    pub variant: String, // "full_rank" | "const_col=<c>" | "dup_col0"
    pub offsets: Vec<f64>,
    pub scales: Vec<f64>,
    pub x: Vec<Vec<f64>>, // n x p
    pub y: Vec<Vec<f64>>, // n x 3
}

pub struct Design {
    pub id: &'static str,
    pub pts: Vec<Vec<i64>>,
    pub quick: bool,
    /// thorough: full 9^p cross product of per-column images (p = 2 only)
    pub cross: bool,
}

fn full_factorial(levels: &[usize], reps: usize) -> Vec<Vec<i64>> {
    let mut out = Vec::new();
    for g in en::grid(levels) {
        for _ in 0..reps {
            out.push(g.iter().map(|&v| v as i64).collect());
        }
    }
    out
}

pub fn designs() -> Vec<Design> {
    let d = |id: &'static str, pts: Vec<Vec<i64>>, quick: bool, cross: bool| Design { id, pts, quick, cross };
    let col = |v: &[i64]| -> Vec<Vec<i64>> { v.iter().map(|&a| vec![a]).collect() };
    vec![
        // ---- p = 1
        d("p1_n4_levels4", col(&[0, 1, 2, 3]), true, false),
        d("p1_n4_2levels_x2", col(&[0, 0, 1, 1]), false, false),
        d("p1_n6_levels6", col(&[0, 1, 2, 3, 4, 5]), false, false),
        d("p1_n6_3levels_x2", col(&[0, 0, 1, 1, 2, 2]), true, false),
        d("p1_n6_unbalanced", col(&[0, 0, 0, 1, 2, 5]), true, false),
        d("p1_n9_levels9", col(&[0, 1, 2, 3, 4, 5, 6, 7, 8]), false, false),
        d("p1_n9_3levels_x3", col(&[0, 0, 0, 1, 1, 1, 2, 2, 2]), false, false),
        d("p1_n12_levels12", col(&[0, 1, 2, 3, 4, 5, 6, 7, 8, 9, 10, 11]), false, false),
        d("p1_n12_4levels_x3", col(&[0, 0, 0, 1, 1, 1, 2, 2, 2, 3, 3, 3]), false, false),
        // ---- p = 2, full factorial
        d("p2_n4_ff2x2", full_factorial(&[2, 2], 1), true, true),
        d("p2_n6_ff2x3", full_factorial(&[2, 3], 1), true, true),
        d("p2_n9_ff3x3", full_factorial(&[3, 3], 1), false, true),
        d("p2_n12_ff3x4", full_factorial(&[3, 4], 1), false, false),
        d("p2_n12_ff2x2_x3", full_factorial(&[2, 2], 3), false, false),
        d("p2_n12_ff2x6", full_factorial(&[2, 6], 1), false, false),
        // ---- p = 2, fractions of the 3x3 / 4x4 lattice (correlated columns)
        d("p2_n4_frac3x3_diagonal_plus_corner", vec![vec![0, 0], vec![1, 1], vec![2, 2], vec![0, 2]], false, true),
        d("p2_n6_frac3x3_lower_triangle", vec![vec![0, 0], vec![0, 1], vec![0, 2], vec![1, 0], vec![1, 1], vec![2, 0]], true, true),
        d(
            "p2_n9_frac4x4_band",
            vec![vec![0, 0], vec![0, 1], vec![1, 0], vec![1, 1], vec![1, 2], vec![2, 1], vec![2, 2], vec![2, 3], vec![3, 2]],
            false,
            false,
        ),
        d(
            "p2_n12_frac4x4_without_antidiagonal",
            en::grid(&[4, 4]).into_iter().filter(|g| g[0] + g[1] != 3).map(|g| g.iter().map(|&v| v as i64).collect()).collect(),
            false,
            false,
        ),
        // ---- p = 3
        d("p3_n4_frac2x2x2_half", vec![vec![0, 0, 0], vec![1, 1, 0], vec![1, 0, 1], vec![0, 1, 1]], true, false),
        d(
            "p3_n6_frac2x2x2_without_two_corners",
            en::grid(&[2, 2, 2]).into_iter().filter(|g| !(g[0] == g[1] && g[1] == g[2])).map(|g| g.iter().map(|&v| v as i64).collect()).collect(),
            false,
            false,
        ),
        d(
            "p3_n9_frac3x3x3_latin_square",
            en::grid(&[3, 3]).into_iter().map(|g| vec![g[0] as i64, g[1] as i64, ((g[0] + g[1]) % 3) as i64]).collect(),
            true,
            false,
        ),
        d("p3_n12_ff2x2x3", full_factorial(&[2, 2, 3], 1), false, false),
        d("p3_n12_frac2x3x4_cyclic", (0..12).map(|i| vec![i % 2, i % 3, i % 4]).collect(), false, false),
    ]
}

/// Per-column (offset, scale) images: every column sees every pair.
pub fn images(p: usize, cross: bool) -> Vec<(Vec<f64>, Vec<f64>)> {
    let pairs: Vec<(f64, f64)> = OFFSETS.iter().flat_map(|&o| SCALES.iter().map(move |&s| (o, s))).collect();
    let mut out: Vec<(Vec<f64>, Vec<f64>)> = Vec::new();
    if p == 1 || cross {
        for seq in en::sequences(p, pairs.len()) {
            out.push((seq.iter().map(|&k| pairs[k].0).collect(), seq.iter().map(|&k| pairs[k].1).collect()));
        }
        return out;
    }
    for &(o, s) in &pairs {
        out.push((vec![o; p], vec![s; p]));
    }
    for j in 0..p {
        for &(o, s) in &pairs {
            if o == 0.0 && s == 1.0 {
                continue;
            }
            let mut os = vec![0.0; p];
            let mut ss = vec![1.0; p];
            os[j] = o;
            ss[j] = s;
            out.push((os, ss));
        }
    }
    out
}

/// 12 significant digits, so that the literal survives a JSON round trip bit-exactly.
fn q(v: f64) -> f64 {
    format!("{:.11e}", v).parse::<f64>().unwrap()
}

const COEF: [[f64; 3]; 3] = [[1.5, -2.0, 0.75], [-0.5, 1.0, 2.0], [0.0, 3.0, -1.0]];
const CONST: [f64; 3] = [2.0, -1.0, 0.5];

fn centred(pts: &[Vec<i64>]) -> Vec<Vec<f64>> {
    let n = pts.len();
    let p = pts[0].len();
    let means: Vec<f64> = (0..p).map(|j| pts.iter().map(|r| r[j] as f64).sum::<f64>() / n as f64).collect();
    pts.iter().map(|r| (0..p).map(|j| r[j] as f64 - means[j]).collect()).collect()
}

fn targets(z: &[Vec<f64>]) -> Vec<Vec<f64>> {
    z.iter()
        .enumerate()
        .map(|(i, r)| (0..3).map(|t| q(CONST[t] + r.iter().enumerate().map(|(j, v)| COEF[t][j] * v).sum::<f64>() + 8.0 * en::jitter(i, t))).collect())
        .collect()
}

pub fn enumerate(thorough: bool) -> Vec<Data> {
    let mut out = Vec::new();
    for d in designs() {
        if !thorough && !d.quick {
            continue;
        }
        let p = d.pts[0].len();
        let z = centred(&d.pts);
        let y = targets(&z);
        for (os, ss) in images(p, thorough && d.cross && p == 2) {
            let x: Vec<Vec<f64>> = z.iter().map(|r| (0..p).map(|j| q((r[j] + os[j]) * ss[j])).collect()).collect();
            out.push(Data { design: d.id.to_string(), variant: "full_rank".into(), offsets: os.clone(), scales: ss.clone(), x, y: y.clone() });
        }
        // rank-deficient variants (p <= 2 so that p stays <= 3): same image for all columns
        let variants = if thorough { d.quick && p <= 2 } else { d.id == "p1_n6_3levels_x2" || d.id == "p2_n4_ff2x2" };
        if variants {
            for (os, ss) in images(p, false).into_iter().take(9) {
                let x: Vec<Vec<f64>> = z.iter().map(|r| (0..p).map(|j| q((r[j] + os[j]) * ss[j])).collect()).collect();
                for c in [0.0, 1.0, 5000.0] {
                    let xc: Vec<Vec<f64>> = x.iter().map(|r| r.iter().cloned().chain(std::iter::once(c)).collect()).collect();
                    out.push(Data { design: d.id.to_string(), variant: format!("const_col={}", c), offsets: os.clone(), scales: ss.clone(), x: xc, y: y.clone() });
                }
                let xd: Vec<Vec<f64>> = x.iter().map(|r| r.iter().cloned().chain(std::iter::once(r[0])).collect()).collect();
                out.push(Data { design: d.id.to_string(), variant: "dup_col0".into(), offsets: os.clone(), scales: ss.clone(), x: xd, y: y.clone() });
            }
        }
    }
    out
}
