//! C03 — prediction is a per-sample function, identical through every calling form.
//! Registry check (DESIGN.md §4 C03): every predictor type of the workspace x fitted instances x
//! ALL ordered sub-selections of a 6-row query pool up to the length bound (incl. the empty batch)
//! x 4 memory layouts x every calling form, against the model applied to each row alone.

mod large;
mod registry;
mod sweep;

use lvmc_core::{json, par_sweep, Ctx, Level, Value, Violation};
use serde::{Deserialize, Serialize};
use std::collections::BTreeMap;
use std::sync::Mutex;

#[derive(Clone, Debug, Serialize, Deserialize)]
struct Case {
    entry: String,
    instance: usize,
    max_len: usize,
    #[serde(default)]
    only: Option<Value>,
    /// "pool" (default) | "large" | "fit_layout"
    #[serde(default)]
    family: Option<String>,
    #[serde(default)]
    n: usize,
    #[serde(default)]
    float: Option<String>,
    #[serde(default)]
    all_rows_single: bool,
    #[serde(default)]
    extreme: bool,
}

fn run_case(c: &Case) -> Result<sweep::Rep, String> {
    let mut rep = sweep::Rep::default();
    match c.family.as_deref() {
        Some("large") => {
            let reg = large::large_registry();
            let ent = reg.iter().find(|e| e.name == c.entry).ok_or_else(|| format!("unknown large-family entry {}", c.entry))?;
            let args = large::LArgs { n: c.n, f32_: c.float.as_deref() == Some("f32"), all_rows_single: c.all_rows_single };
            (ent.run)(&args, &mut rep).map_err(|e| format!("fitting {} ({:?}) failed: {}", c.entry, c.float, e))?;
            return Ok(rep);
        }
        Some("fit_layout") => {
            let reg = large::fit_registry();
            let ent = reg.iter().find(|e| e.name == c.entry).ok_or_else(|| format!("unknown fit-layout entry {}", c.entry))?;
            (ent.run)(&mut rep).map_err(|e| format!("fit-layout entry {} failed: {}", c.entry, e))?;
            return Ok(rep);
        }
        _ => {}
    }
    let reg = registry::registry();
    let ent = reg.iter().find(|e| e.name == c.entry).ok_or_else(|| format!("unknown registry entry {}", c.entry))?;
    let only: Option<sweep::Only> = c.only.clone().and_then(|v| serde_json::from_value(v).ok());
    let args = registry::Args { instance: c.instance, max_len: c.max_len, only, extreme: c.extreme };
    (ent.run)(&args, &mut rep).map_err(|e| format!("fitting {} instance {} failed: {}", c.entry, c.instance, e))?;
    Ok(rep)
}

fn replay_value(v: &Value) -> Vec<Violation> {
    let c: Case = match serde_json::from_value(v.clone()) {
        Ok(c) => c,
        Err(e) => {
            println!("MACHINERY-ERROR replay case does not parse: {}", e);
            std::process::exit(2);
        }
    };
    let rep = match run_case(&c) {
        Ok(r) => r,
        Err(e) => {
            println!("MACHINERY-ERROR {}", e);
            std::process::exit(2);
        }
    };
    // keep the violations of the recorded (batch, layout, form)
    let only = v.get("only").cloned();
    // fit-layout artefacts name the entry with the plain predictor kind; the case is found by entry + float
    rep.viols.into_iter().filter(|x| only.is_none() || x.case.get("only") == only.as_ref()).collect()
}

fn main() {
    let ctx = Ctx::new("C03", Level::Exploration);
    ctx.maybe_replay(&replay_value);
    let max_len = ctx.pick(3usize, 6usize);
    let instances = 3usize;
    ctx.set_rule(
        "cases = (registry entry, fitted instance 0..2 with different data seeds / feature counts / hyper-parameters); registry = 38 entries (incl. MultiClassModel member lists with REPEATED labels: all 8 + 16 labellings of 3 / 4 members over two labels x all 6 / 24 orders of the probability levels 0.3 / 0.9 / 0.5 / 0.7 = 432 wrappers, each on the 6-row pool as a batch, row by row and in place; 28 + single-member MultiTargetModel + one- / two-member MultiClassModel + Platt with prescribed calibrated decision values spanning [-110, 1e4] + MultiClassModel with nearly tied / all-unconfident members + 5 exact-decision-boundary instances: linear C-SVC on point-symmetric integer data with pool rows on the hyperplane, one-class SVM with rho set to a pool row's decision value, logistic regression with the threshold set to a pool row's probability, k-means with pool rows equidistant from two centroids, decision tree with pool rows exactly on split values; exactness is checked at run time and counted as rows_exactly_on_decision_boundary) covering every predictor type of the workspace (k-means, GMM, OLS, isotonic, Tweedie, \
         elastic net, multi-task elastic net, PLS regression / canonical / CCA, logistic binary / multinomial, SVM C-bool gaussian, C-bool linear / polynomial, probability, regression \
         linear / gaussian, one-class, decision tree, Gaussian NB, multinomial NB, FTRL, PCA, FastICA, MultiTargetModel, MultiClassModel, Platt over a linear scorer and over an SVM); \
         per case: query pool of 6 rows (2 training rows, a duplicate of the first, an off-data midpoint, an extreme row, a third training row) x EVERY ordered selection \
         without repetition of 0..=L pool rows (L = 3 quick: 157 batches; L = 6 thorough: all 1957 arrangements of the pool, a superset of the designed bound 4 = 517 batches; the duplicate row gives batches with equal rows) x 4 memory layouts (standard, \
         column-major, every second row of a larger array, reversed-row) x calling forms {predict(&Array2), predict(Array2), predict(&Dataset), predict(Dataset), predict_inplace \
         into default_target, predict_inplace into a target holding another batch's result, predict(ArrayView2), predict(&ArrayView2), predict(&Dataset<ArrayView2>)} plus the \
         composite oracle, predict_inplace with a too long / too short target (standard layout), and, for the types that have one (k-means, the six SVM entries), the single-observation form \
         on every pool row as a contiguous / every-second-element / reversed 1-D view. evaluation = one call of one form on one (batch, layout); \
         non-trivial = batch of >= 2 rows whose single-row reference outputs are not all equal (so a permutation / mixing / wrong-axis bug is observable); distinct by construction.",
    );
    ctx.assume("oracle = the same fitted model applied to each pool row alone as a 1 x p standard-layout Array2 through predict(&Array2); output row i of every batch must equal the single-row output of the selected pool row");
    ctx.assume("labels (usize / bool / String) are compared exactly; for labels that are an arg-max / threshold of floats (k-means, logistic, SVM classifiers) a mismatch on a row whose decision gap is <= 2(p+2) eps S is counted indeterminate (none expected)");
    ctx.assume("floats: |batch - single| <= 2(p+2) * eps * S(row), the worst-case difference between two summation orders of the same p products (what ndarray's 8-way unrolled dot vs the strided sequential dot can introduce); S = sum of the magnitudes of the operands of the model's inner product for that row (per-model closure in registry.rs), eps = 2^-52, or 2^-23 with S = 1 for Pr outputs evaluated in f32; the evidence reports how many float cells were bit-identical and the largest deviation in tolerance units");
    ctx.assume("float cells whose operand magnitude S reaches the largest finite value of the model's float type (f32::MAX for f32 models) and where one of the two compared values is not finite are indeterminate: an intermediate sum may overflow (to inf, or to inf - inf = NaN across the lanes of the unrolled dot) in one summation order and not in another (seen: OLS / elastic net f32, p = 17 / 33, on the row of alternating +-f32::MAX/2)");
    ctx.assume("dataset / owned forms must hand back records with the same shape, strides and bit pattern (view form: the same buffer)");
    ctx.assume("documented panic: predict_inplace with a target of n+1 or n-1 rows must panic with the message documented in the assert ('The number of data points must match the number of output targets.' / '... memberships.' for k-means) and must not have written into the target");
    ctx.assume("MultiTargetModel: column j bit-identical to member j's own prediction of the same batch; MultiClassModel: returned label belongs to a member whose probability (computed by that member on the same batch) is maximal, any tied member accepted; Platt and Svm<_, Pr> (definitional oracle; A, B read from the model's Debug form, f = inner model / weighted_sum - rho on the same batch, t = A f + B): output in [0,1]; for t >= 0 compared in log space, |ln p - (-softplus(t))| <= 4 eps32 (1 + |t|); for t < 0 |p - exact| <= 4 eps32; where the exact value is below the smallest normal f32 the output must be <= 2 * that; order over all pairs of a batch: t_i < t_j => p_i >= p_j, and p_i > p_j strictly wherever the exact values differ by more than 16 eps32 (relative on the low side, absolute on the high side)");
    ctx.assume("Platt and FastICA implement PredictInplace for owned arrays only (trait bounds), so the three view forms do not exist for them; all four layouts are still realised with owned arrays");
    ctx.assume("exact-boundary instances: labels compared exactly with no indeterminate margin; a pool row counts as on the boundary only if the harness recomputes its decision value / tie from the model's public parameters and finds exact equality (rho == 0 and weighted_sum == 0; probability == threshold; equal squared distances; feature == split value)");
    ctx.assume("large family (21 predictors, f64 and, where the type is generic, f32): one batch of n = 1025 (quick, thorough) and 4097 (thorough) distinct rows (training rows + constant-LCG offsets; p = 17 / 33 for the linear / logistic / FTRL / PCA members) in 5 layouts (standard, column-major owned, transposed view of a feature-major array, reversed-row view of a reversed copy, every second row of a larger array whose filler rows are NaN) through 10 forms (the pool-family forms plus predict_inplace on the view); oracle: every (layout, form) output == the standard-layout predict(&Array2) output (labels exact, floats within the same 2(p+2) eps S, eps = 2^-23 for f32 models), signature <kind>.layout_dependence, and rows {0, 1, 1023, 1024, n-1} (quick) / all rows (thorough) of the standard-layout output == the row predicted alone");
    ctx.assume("fit-layout family (closed-form / deterministic fits only: OLS f64+f32, Gaussian NB, multinomial NB, decision tree f64+f32, k-means with precomputed init on 1025 rows, PLS regression, PCA up to axis sign): the TRAINING records in the same 5 layouts as owned arrays and as views; the fitted model's predictions on a 6-row query (k-means: plus centroids) must equal those of the standard-layout fit: labels exactly, floats bit-identical or within 1e-9 * S (1e-4 * S for f32; DESIGN 3.6 tolerance for a value recomputed along a different arithmetic path), signature <kind>.fit.layout_dependence; a panic whose message documents a contiguity requirement is counted, not reported");
    ctx.assume("extreme pools: every non-boundary entry runs a second time with the pool {training row 0, five rows of a 15-pattern catalogue of extreme-but-finite rows: +-1e3, +-1e6, +-1e30, f32::MAX/2, +-1e-30, zero, mixed magnitudes, one coordinate of a training row replaced}; same oracle (batch containing an extreme row == rows predicted alone, no panic) plus: Pr outputs in [0, 1]; the large family carries the 15 catalogue rows as rows 2..16 of every batch (f32 too)");
    ctx.assume("in-place forms: into default_target; into a target that holds the answers of a DIFFERENT batch of the same length chosen so that every position holds an answer different from the wanted one where the pool allows; into a target pre-filled with poison (two fillings: NaN / -7.5e300, 987654321 / 0, true / false, Pr 1 / 0, \"<poison>\" / \"\")");
    ctx.assume("smallest composites: MultiTargetModel with exactly one member (via new and via FromIterator), MultiClassModel with one and with two members; batches of 0, 1, 2, 3 rows; output shape checked as well as values");
    ctx.assume("training data and pools come from a constant LCG (no entropy source); VERIF_SEED does not influence anything explored");

    let reg = registry::registry();
    let mut cases: Vec<Case> = Vec::new();
    for e in &reg {
        for inst in 0..instances {
            cases.push(Case { entry: e.name.to_string(), instance: inst, max_len, only: None, family: None, n: 0, float: None, all_rows_single: false, extreme: false });
            if e.extreme_ok {
                cases.push(Case { entry: e.name.to_string(), instance: inst, max_len, only: None, family: None, n: 0, float: None, all_rows_single: false, extreme: true });
            }
        }
    }
    ctx.extra("extreme_pool_cases", json!(cases.iter().filter(|c| c.extreme).count()));
    let n_pool_cases = cases.len();
    // large-batch / layout / f32 family
    let sizes: Vec<usize> = if ctx.quick() { vec![1025] } else { vec![1025, 4097] };
    for e in large::large_registry() {
        for &n in &sizes {
            for f in ["f64", "f32"] {
                if f == "f32" && !e.f32_too {
                    continue;
                }
                cases.push(Case { entry: e.name.to_string(), instance: 0, max_len: 0, only: None, family: Some("large".into()), n, float: Some(f.into()), all_rows_single: ctx.thorough(), extreme: false });
            }
        }
    }
    let n_large_cases = cases.len() - n_pool_cases;
    for e in large::fit_registry() {
        cases.push(Case { entry: e.name.to_string(), instance: 0, max_len: 0, only: None, family: Some("fit_layout".into()), n: 0, float: None, all_rows_single: false, extreme: false });
    }
    ctx.extra("pool_family_cases", json!(n_pool_cases));
    ctx.extra("large_family_cases", json!(n_large_cases));
    ctx.extra("fit_layout_family_cases", json!(cases.len() - n_pool_cases - n_large_cases));
    ctx.extra("registry_entries", json!(reg.len()));
    ctx.extra("cases_enumerated", json!(cases.len()));
    ctx.extra("batches_per_case", json!(sweep::n_selections(max_len)));

    let agg: Mutex<BTreeMap<String, u64>> = Mutex::new(BTreeMap::new());
    let per_entry: Mutex<BTreeMap<String, Value>> = Mutex::new(BTreeMap::new());
    let maxdev: Mutex<f64> = Mutex::new(0.0);
    let done = std::sync::atomic::AtomicU64::new(0);
    par_sweep(&ctx, "registry sweep", &cases, |c| {
        let t0 = std::time::Instant::now();
        let rep = match run_case(c) {
            Ok(r) => r,
            Err(e) => {
                println!("MACHINERY-ERROR {}", e);
                std::process::exit(2);
            }
        };
        ctx.evals(rep.evals, rep.nontrivial);
        for _ in 0..rep.indeterminate {
            ctx.indeterminate();
        }
        {
            let mut a = agg.lock().unwrap();
            for (k, v) in rep.counters.iter() {
                *a.entry(k.clone()).or_insert(0) += *v;
            }
            *a.entry("float_cells_compared".into()).or_insert(0) += rep.float_cells;
            *a.entry("float_cells_bit_identical".into()).or_insert(0) += rep.float_bit_identical;
            *a.entry("label_cells_compared".into()).or_insert(0) += rep.label_cells;
            *a.entry("records_handed_back_checks".into()).or_insert(0) += rep.records_checks;
            *a.entry("wrong_length_target_panics_checked".into()).or_insert(0) += rep.wrong_len_checks;
            *a.entry("batches_run".into()).or_insert(0) += rep.batches;
            *a.entry("followup_reports_suppressed".into()).or_insert(0) += rep.suppressed_followups;
        }
        {
            let mut m = maxdev.lock().unwrap();
            if rep.max_dev_in_tol_units > *m {
                *m = rep.max_dev_in_tol_units;
            }
        }
        per_entry.lock().unwrap().insert(
            match c.family.as_deref() {
                Some("large") => format!("large:{}:{}:n{}", c.entry, c.float.clone().unwrap_or_default(), c.n),
                Some(f) => format!("{}:{}", f, c.entry),
                None => format!("{}#{}{}", c.entry, c.instance, if c.extreme { "#extreme" } else { "" }),
            },
            json!({"evaluations": rep.evals, "nontrivial": rep.nontrivial, "batches": rep.batches, "float_cells": rep.float_cells,
                   "float_cells_not_bit_identical": rep.float_cells - rep.float_bit_identical, "max_dev_in_tol_units": rep.max_dev_in_tol_units,
                   "label_cells": rep.label_cells, "violations": rep.viols.len(), "single_row_reference_outputs": rep.refs_json, "wall_ms": t0.elapsed().as_millis() as u64}),
        );
        if c.family.is_none() && !rep.counters.contains_key("entry_without_batch_sweep") && rep.batches as usize != sweep::n_selections(c.max_len) {
            ctx.capped(&format!("{}#{}: {} of {} batches run (reference unavailable for some pool row)", c.entry, c.instance, rep.batches, sweep::n_selections(c.max_len)));
        }
        ctx.sample(|| json!({"entry": c.entry, "family": c.family, "instance": c.instance, "max_len": c.max_len, "n": c.n, "float": c.float, "evaluations": rep.evals, "batches": rep.batches}));
        ctx.violations(rep.viols);
        done.fetch_add(1, std::sync::atomic::Ordering::Relaxed);
    });
    let done = done.load(std::sync::atomic::Ordering::Relaxed);
    ctx.extra("cases_completed", json!(done));
    for (k, v) in agg.lock().unwrap().iter() {
        ctx.extra(k, json!(v));
    }
    ctx.extra("max_float_deviation_in_tolerance_units", json!(*maxdev.lock().unwrap()));
    ctx.extra("per_entry", json!(*per_entry.lock().unwrap()));
    {
        let a = agg.lock().unwrap();
        if a.get("rows_exactly_on_decision_boundary").copied().unwrap_or(0) == 0 {
            ctx.capped("no pool row lies exactly on a decision boundary: the boundary instances are vacuous");
        }
        for (k, v) in a.iter() {
            if k.starts_with("boundary_construction_not_exact_") && k.ends_with("#0") {
                ctx.capped(&format!("{}: {} designed boundary rows are not exactly on the boundary", k, v));
            }
        }
    }
    if done as usize != cases.len() {
        ctx.capped(&format!("{} of {} cases completed", done, cases.len()));
    }
    ctx.finish(&replay_value);
}
