fn main() { println!("MACHINERY-ERROR check not built yet"); std::process::exit(2); }
