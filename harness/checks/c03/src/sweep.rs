//! Generic engine of C03: one fitted model x every batch of the enumerated batch space x memory
//! layouts x calling forms, against the model applied to each pool row alone (1 x p, standard layout).

use linfa::dataset::{AsTargets, DatasetBase, Pr};
use linfa::traits::{Predict, PredictInplace};
use lvmc_core::enumerate as en;
use lvmc_core::{guarded, json, Value, Violation};
use ndarray::{Array1, Array2, ArrayView1, ArrayView2, Axis, ShapeBuilder, Slice};
use serde::{Deserialize, Serialize};
use std::collections::BTreeMap;
use std::marker::PhantomData;

pub const LAYOUTS: [&str; 4] = ["standard", "column_major", "every_second_row", "reversed_rows"];
pub const POOL: usize = 6;
/// filler of the rows that a strided view skips (must never be read)
const GARBAGE: f64 = 31337.5;
/// at most this many violations of one signature are materialised per case (the rest is counted)
const KEEP_PER_SIG_PER_CASE: usize = 40;

#[derive(Clone, Debug, PartialEq)]
pub enum Cell {
    U(u64),
    S(String),
    F(f64),
}

impl Cell {
    pub fn json(&self) -> Value {
        match self {
            Cell::U(u) => json!(u),
            Cell::S(s) => json!(s),
            Cell::F(f) => {
                if f.is_finite() {
                    json!(f)
                } else {
                    json!(format!("{}", f))
                }
            }
        }
    }
}

/// Output container of a predictor, seen as a table of cells.
pub trait OutT: Clone {
    fn rows(&self) -> usize;
    fn cols(&self) -> usize;
    fn shape_vec(&self) -> Vec<usize>;
    fn cell(&self, i: usize, j: usize) -> Cell;
    /// a default-filled target with the same number of columns and `rows` rows
    fn with_rows(&self, rows: usize) -> Self;
    /// overwrite every cell with poison number `k` (0 / 1: two different fillings, so that for
    /// two-valued outputs each answer is once the "wrong" pre-filling)
    fn poison(&mut self, k: usize);
}

macro_rules! out1 {
    ($t:ty, $conv:expr, $default:expr, $poison:expr) => {
        impl OutT for Array1<$t> {
            fn rows(&self) -> usize {
                self.len()
            }
            fn cols(&self) -> usize {
                1
            }
            fn shape_vec(&self) -> Vec<usize> {
                self.shape().to_vec()
            }
            fn cell(&self, i: usize, _j: usize) -> Cell {
                let f: fn(&$t) -> Cell = $conv;
                f(&self[i])
            }
            fn with_rows(&self, rows: usize) -> Self {
                Array1::from_elem(rows, $default)
            }
            fn poison(&mut self, k: usize) {
                let f: fn(usize) -> $t = $poison;
                self.fill(f(k));
            }
        }
    };
}
out1!(usize, |v| Cell::U(*v as u64), 0usize, |k| if k == 0 { 987_654_321 } else { 0 });
out1!(bool, |v| Cell::U(*v as u64), false, |k| k == 0);
out1!(f64, |v| Cell::F(*v), 0.0f64, |k| if k == 0 { f64::NAN } else { -7.5e300 });
out1!(f32, |v| Cell::F(*v as f64), 0.0f32, |k| if k == 0 { f32::NAN } else { -7.5e30 });
out1!(Pr, |v| Cell::F(**v as f64), Pr::default(), |k| if k == 0 { Pr::new(1.0) } else { Pr::new(0.0) });
out1!(String, |v| Cell::S(v.clone()), String::new(), |k| if k == 0 { "<poison>".to_string() } else { String::new() });

impl OutT for Array2<f64> {
    fn rows(&self) -> usize {
        self.nrows()
    }
    fn cols(&self) -> usize {
        self.ncols()
    }
    fn shape_vec(&self) -> Vec<usize> {
        self.shape().to_vec()
    }
    fn cell(&self, i: usize, j: usize) -> Cell {
        Cell::F(self[(i, j)])
    }
    fn with_rows(&self, rows: usize) -> Self {
        Array2::zeros((rows, self.ncols()))
    }
    fn poison(&mut self, k: usize) {
        self.fill(if k == 0 { f64::NAN } else { -7.5e300 });
    }
}

impl OutT for Array2<f32> {
    fn rows(&self) -> usize {
        self.nrows()
    }
    fn cols(&self) -> usize {
        self.ncols()
    }
    fn shape_vec(&self) -> Vec<usize> {
        self.shape().to_vec()
    }
    fn cell(&self, i: usize, j: usize) -> Cell {
        Cell::F(self[(i, j)] as f64)
    }
    fn with_rows(&self, rows: usize) -> Self {
        Array2::zeros((rows, self.ncols()))
    }
    fn poison(&mut self, k: usize) {
        self.fill(if k == 0 { f32::NAN } else { -7.5e30 });
    }
}

fn table<T: OutT>(t: &T) -> Value {
    let shape = t.shape_vec();
    let (r, c) = if shape.len() == 1 { (shape[0], 1) } else { (shape[0], shape[1]) };
    Value::Array((0..r).map(|i| Value::Array((0..c).map(|j| t.cell(i, j).json()).collect())).collect())
}

/// An owned array holding `rows` (n x p) in the requested memory layout.
pub fn make_owned(rows: &[&Vec<f64>], p: usize, layout: usize) -> Array2<f64> {
    let n = rows.len();
    match layout {
        0 => Array2::from_shape_fn((n, p), |(i, j)| rows[i][j]),
        1 => Array2::from_shape_fn((n, p).f(), |(i, j)| rows[i][j]),
        2 => {
            let mut big = Array2::from_shape_fn((2 * n, p), |(i, j)| if i % 2 == 0 { rows[i / 2][j] } else { GARBAGE + (i * p + j) as f64 });
            big.slice_axis_inplace(Axis(0), Slice::new(0, None, 2));
            big
        }
        3 => {
            let mut a = Array2::from_shape_fn((n, p), |(i, j)| rows[n - 1 - i][j]);
            a.invert_axis(Axis(0));
            a
        }
        _ => unreachable!(),
    }
}

#[derive(Clone, Debug, Serialize, Deserialize, PartialEq)]
pub struct Only {
    pub sel: Vec<usize>,
    pub layout: String,
    pub form: String,
}

pub struct Batch {
    pub sel: Vec<usize>,
    pub protos: Vec<Array2<f64>>,
}

/// Every ordered selection without repetition of 0..=max_len pool rows (the pool itself holds a
/// duplicated row, so batches with equal rows are included), each in all four layouts.
pub fn build_store(pool: &[Vec<f64>], max_len: usize, only: &Option<Only>) -> Vec<Batch> {
    assert_eq!(pool.len(), POOL);
    let p = pool[0].len();
    let mut out = Vec::new();
    for len in 0..=max_len {
        for sel in en::arrangements(POOL, len) {
            if let Some(o) = only {
                if o.sel != sel {
                    continue;
                }
            }
            let rows: Vec<&Vec<f64>> = sel.iter().map(|&q| &pool[q]).collect();
            let protos: Vec<Array2<f64>> = (0..4).map(|l| make_owned(&rows, p, l)).collect();
            // harness self-check: every layout shows the same logical content
            for pr in &protos {
                assert_eq!(pr.dim(), (sel.len(), p));
                for (i, r) in rows.iter().enumerate() {
                    for j in 0..p {
                        assert_eq!(pr[(i, j)].to_bits(), r[j].to_bits());
                    }
                }
            }
            if sel.len() >= 2 {
                assert!(!protos[2].is_standard_layout() && protos[3].strides()[0] < 0);
                if p >= 2 {
                    assert!(!protos[1].is_standard_layout());
                }
            }
            out.push(Batch { sel, protos });
        }
    }
    out
}

pub fn n_selections(max_len: usize) -> usize {
    (0..=max_len).map(|l| en::arrangements(POOL, l).len()).sum()
}

/// Everything the engine needs to know about one fitted model.
pub struct Spec<'s> {
    pub kind: &'static str,
    pub instance: usize,
    pub max_len: usize,
    pub pool: &'s [Vec<f64>],
    /// machine epsilon of the arithmetic that produces float outputs (2^-52, or 2^-23 for `Pr`)
    pub eps: f64,
    /// operand magnitude S(row, column, reference output) of the inner product behind a float output
    pub scale: Box<dyn Fn(&[f64], usize, f64) -> f64 + 's>,
    /// for labels that are an arg-max / threshold of floats: (gap between the two best decision
    /// values, operand magnitude) of a row; a label mismatch on a row whose gap is within the float
    /// tolerance is indeterminate
    pub margin: Option<Box<dyn Fn(&[f64]) -> (f64, f64) + 's>>,
    /// fragment of the documented panic message of `predict_inplace` with a wrong-length target
    pub wrong_len_msg: &'static str,
    /// the model's single-observation calling form (1-D record), where the type has one
    pub row_form: Option<Box<dyn Fn(ArrayView1<f64>) -> Cell + 's>>,
    /// the pool is the extreme-row pool (recorded in the replay artefacts)
    pub extreme: bool,
    /// float outputs are probabilities: every output cell must lie in [0, 1] (NaN is outside)
    pub unit_interval: bool,
}

impl<'s> Spec<'s> {
    pub fn new(kind: &'static str, instance: usize, max_len: usize, pool: &'s [Vec<f64>]) -> Self {
        Spec {
            kind,
            instance,
            max_len,
            pool,
            eps: f64::EPSILON,
            scale: Box::new(|_, _, o| o.abs()),
            margin: None,
            wrong_len_msg: "The number of data points must match the number of output targets.",
            row_form: None,
            extreme: false,
            unit_interval: false,
        }
    }
    fn p(&self) -> usize {
        self.pool[0].len()
    }
    /// worst-case difference between two summation orders of the same p products, in units of eps * S
    fn k(&self) -> f64 {
        2.0 * (self.p() as f64 + 2.0)
    }
}

#[derive(Default)]
pub struct Rep {
    pub evals: u64,
    pub nontrivial: u64,
    pub indeterminate: u64,
    pub float_cells: u64,
    pub float_bit_identical: u64,
    pub max_dev_in_tol_units: f64,
    pub label_cells: u64,
    pub records_checks: u64,
    pub wrong_len_checks: u64,
    pub batches: u64,
    pub suppressed_followups: u64,
    pub counters: BTreeMap<String, u64>,
    /// single-row reference outputs of the pool rows (evidence)
    pub refs_json: Value,
    pub viols: Vec<Violation>,
    kept: BTreeMap<String, usize>,
}

impl Rep {
    pub fn bump(&mut self, k: &str, n: u64) {
        *self.counters.entry(k.to_string()).or_insert(0) += n;
    }
    pub fn push(&mut self, v: Violation) {
        let c = self.kept.entry(v.sig.clone()).or_insert(0);
        *c += 1;
        if *c <= KEEP_PER_SIG_PER_CASE {
            self.viols.push(v);
        } else {
            *self.counters.entry("violations_not_materialised".into()).or_insert(0) += 1;
        }
    }
}

/// Placeholder "view model" of predictors whose trait bounds admit owned arrays only.
pub struct NoView<T>(pub PhantomData<T>);
impl<'a, T> PredictInplace<ArrayView2<'a, f64>, T> for NoView<T> {
    fn predict_inplace<'b>(&'b self, _x: &'b ArrayView2<'a, f64>, _y: &mut T) {
        unreachable!()
    }
    fn default_target(&self, _x: &ArrayView2<'a, f64>) -> T {
        unreachable!()
    }
}

enum Verdict {
    Ok,
    Indeterminate,
    Bad { i: usize, j: usize, want: Cell, got: Cell, tol: f64 },
    Shape { want: Vec<usize>, got: Vec<usize> },
}

struct Run<'r, 's> {
    spec: &'r Spec<'s>,
    refs: Vec<Option<Vec<Cell>>>,
    rep: &'r mut Rep,
}

impl<'r, 's> Run<'r, 's> {
    fn case_json(&self, sel: &[usize], layout: usize, form: &str, expected: Value, observed: Value) -> Value {
        let rows: Vec<&Vec<f64>> = sel.iter().map(|&q| &self.spec.pool[q]).collect();
        json!({
            "entry": self.spec.kind, "instance": self.spec.instance, "max_len": self.spec.max_len, "extreme": self.spec.extreme,
            "only": {"sel": sel, "layout": LAYOUTS[layout], "form": form},
            "batch_rows": rows, "expected": expected, "observed": observed,
        })
    }

    fn expected_json(&self, sel: &[usize]) -> Value {
        Value::Array(
            sel.iter()
                .map(|&q| Value::Array(self.refs[q].as_ref().map(|r| r.iter().map(|c| c.json()).collect()).unwrap_or_default()))
                .collect(),
        )
    }

    fn compare<T: OutT>(&mut self, sel: &[usize], out: &T) -> Verdict {
        let ncols = self.refs.iter().flatten().next().map(|r| r.len()).unwrap_or(1);
        let shape = out.shape_vec();
        let want_shape: Vec<usize> = if shape.len() == 1 { vec![sel.len()] } else { vec![sel.len(), ncols] };
        if shape != want_shape {
            return Verdict::Shape { want: want_shape, got: shape };
        }
        let k = self.spec.k();
        let mut indeterminate = false;
        for (i, &q) in sel.iter().enumerate() {
            let want_row = self.refs[q].as_ref().unwrap();
            for j in 0..ncols {
                let want = &want_row[j];
                let got = out.cell(i, j);
                match (want, &got) {
                    (Cell::F(a), Cell::F(b)) => {
                        self.rep.float_cells += 1;
                        if self.spec.unit_interval && !(0.0..=1.0).contains(b) {
                            return Verdict::Bad { i, j, want: Cell::S("a probability in [0, 1]".into()), got, tol: 0.0 };
                        }
                        if a.to_bits() == b.to_bits() || (a.is_nan() && b.is_nan()) {
                            self.rep.float_bit_identical += 1;
                            continue;
                        }
                        let sc = (self.spec.scale)(&self.spec.pool[q], j, *a);
                        if !(sc < f64::MAX) && (!a.is_finite() || !b.is_finite()) {
                            // operand magnitude beyond the float range: an intermediate sum may overflow
                            // in one summation order and not in another
                            indeterminate = true;
                            self.rep.bump("float_cells_overflow_order_dependent_indeterminate", 1);
                            continue;
                        }
                        let tol = k * self.spec.eps * sc;
                        let dev = (a - b).abs();
                        if dev.is_finite() && dev <= tol {
                            let r = dev / tol;
                            if r > self.rep.max_dev_in_tol_units {
                                self.rep.max_dev_in_tol_units = r;
                            }
                            continue;
                        }
                        return Verdict::Bad { i, j, want: want.clone(), got, tol };
                    }
                    (w, g) => {
                        self.rep.label_cells += 1;
                        if w == g {
                            continue;
                        }
                        if let Some(m) = &self.spec.margin {
                            let (gap, sc) = m(&self.spec.pool[q]);
                            if gap.abs() <= k * f64::EPSILON * sc {
                                indeterminate = true;
                                continue;
                            }
                        }
                        return Verdict::Bad { i, j, want: want.clone(), got, tol: 0.0 };
                    }
                }
            }
        }
        if indeterminate {
            Verdict::Indeterminate
        } else {
            Verdict::Ok
        }
    }

    /// Judges one call. `base_ok`: verdict of the `ref_array` form on the same (batch, layout);
    /// `std_ok`: verdict of the `ref_array` form on the standard layout of the same batch.
    /// Returns true when the output matched the oracle.
    fn judge<T: OutT>(&mut self, b: &Batch, layout: usize, form: &str, out: Result<T, String>, base_ok: Option<bool>, std_ok: Option<bool>) -> bool {
        self.rep.evals += 1;
        self.rep.bump(&format!("calls_form_{}", form), 1);
        self.rep.bump(&format!("calls_layout_{}", LAYOUTS[layout]), 1);
        let nontrivial = b.sel.len() >= 2 && b.sel.iter().any(|&q| self.refs[q] != self.refs[b.sel[0]]);
        if nontrivial {
            self.rep.nontrivial += 1;
        }
        let kind = self.spec.kind;
        let out = match out {
            Ok(o) => o,
            Err(msg) => {
                if base_ok == Some(false) {
                    self.rep.suppressed_followups += 1;
                    return false;
                }
                let sig = if form == "ref_array" && layout != 0 && std_ok == Some(true) {
                    format!("{}.predict.panic_on_layout.{}", kind, LAYOUTS[layout])
                } else if form == "ref_array" {
                    format!("{}.predict.panic", kind)
                } else {
                    format!("{}.{}.panic", kind, form)
                };
                let what = format!("{} {} batch of pool rows {:?} through form {} panicked: {}", kind, LAYOUTS[layout], b.sel, form, msg);
                let cj = self.case_json(&b.sel, layout, form, self.expected_json(&b.sel), json!({"panic": msg}));
                self.rep.push(Violation::new(sig, what, cj));
                return false;
            }
        };
        match self.compare(&b.sel, &out) {
            Verdict::Ok => true,
            Verdict::Indeterminate => {
                self.rep.indeterminate += 1;
                true
            }
            Verdict::Shape { want, got } => {
                if base_ok == Some(false) {
                    self.rep.suppressed_followups += 1;
                    return false;
                }
                let sig = if form == "ref_array" { format!("{}.predict.output_shape", kind) } else { format!("{}.{}.output_shape", kind, form) };
                let what = format!("{} {} batch of {} rows (pool rows {:?}) through form {}: output shape {:?}, expected {:?} (one output per input row)", kind, LAYOUTS[layout], b.sel.len(), b.sel, form, got, want);
                let cj = self.case_json(&b.sel, layout, form, json!({"shape": want}), json!({"shape": got, "values": table(&out)}));
                self.rep.push(Violation::new(sig, what, cj));
                false
            }
            Verdict::Bad { i, j, want, got, tol } => {
                if form != "ref_array" && base_ok == Some(false) {
                    // already reported through the borrowed-array form of the same batch and layout
                    self.rep.suppressed_followups += 1;
                    return false;
                }
                let sig = if form == "ref_array" {
                    if layout != 0 && std_ok == Some(true) {
                        format!("{}.predict.layout_dependent", kind)
                    } else {
                        format!("{}.predict.batch_row_differs_from_single_row", kind)
                    }
                } else {
                    format!("{}.{}.differs_from_ref_array_form", kind, form)
                };
                let what = format!(
                    "{} {} batch of pool rows {:?} through form {}: output row {} column {} = {:?}, but the same row predicted alone (1 x p, standard layout) gives {:?} (float tolerance {:e})",
                    kind, LAYOUTS[layout], b.sel, form, i, j, got, want, tol
                );
                let cj = self.case_json(&b.sel, layout, form, self.expected_json(&b.sel), table(&out));
                self.rep.push(Violation::new(sig, what, cj));
                false
            }
        }
    }

    fn records_unchanged(&mut self, b: &Batch, layout: usize, form: &str, rec_shape: &[usize], rec_strides: &[isize], bits: Vec<u64>, same_ptr: Option<bool>) {
        self.rep.records_checks += 1;
        let proto = &b.protos[layout];
        let want_bits: Vec<u64> = proto.iter().map(|v| v.to_bits()).collect();
        let ok = rec_shape == proto.shape() && rec_strides == proto.strides() && bits == want_bits && same_ptr != Some(false);
        if !ok {
            let what = format!(
                "{} form {} on a {} batch (pool rows {:?}) handed back records with shape {:?} strides {:?} (input: shape {:?} strides {:?}); values bitwise equal: {}; same buffer: {:?}",
                self.spec.kind, form, LAYOUTS[layout], b.sel, rec_shape, rec_strides, proto.shape(), proto.strides(), bits == want_bits, same_ptr
            );
            let cj = self.case_json(&b.sel, layout, &format!("{}#records", form), json!("input records, bitwise"), json!({"shape": rec_shape, "strides": rec_strides}));
            self.rep.push(Violation::new(format!("{}.{}.records_not_handed_back_unchanged", self.spec.kind, form), what, cj));
        }
    }
}

/// The sweep. `mo` is the model as seen through owned arrays, `mv` (if the type system admits it)
/// through array views. `hook` is a composite-specific oracle evaluated on every (batch, layout)
/// output of the borrowed-array form; it returns (signature suffix, description) pairs.
#[allow(clippy::type_complexity)]
pub fn sweep<'a, T, MO, MV>(
    spec: &Spec,
    mo: &MO,
    mv: Option<&MV>,
    store: &'a [Batch],
    hook: Option<&dyn Fn(&Array2<f64>, &T) -> Vec<(String, String)>>,
    rep: &mut Rep,
) where
    T: OutT + AsTargets,
    MO: PredictInplace<Array2<f64>, T>,
    MV: PredictInplace<ArrayView2<'a, f64>, T>,
{
    let p = spec.p();
    let kind = spec.kind;
    let mut run = Run { spec, refs: Vec::new(), rep };

    // ---- reference: every pool row alone, 1 x p, standard layout ----
    for (q, row) in spec.pool.iter().enumerate() {
        let x = make_owned(&[row], p, 0);
        match guarded(|| Predict::<&Array2<f64>, T>::predict(mo, &x)) {
            Ok(o) if o.rows() == 1 => {
                let cells: Vec<Cell> = (0..o.cols()).map(|j| o.cell(0, j)).collect();
                if spec.unit_interval && cells.iter().any(|c| matches!(c, Cell::F(v) if !(0.0..=1.0).contains(v))) {
                    let cj = run.case_json(&[q], 0, "ref_array", json!("a probability in [0, 1]"), json!(cells.iter().map(|c| c.json()).collect::<Vec<_>>()));
                    run.rep.push(Violation::new(format!("{}.predict.probability_outside_unit_interval", kind), format!("{}: pool row {} = {:?} alone gives {:?}, not a probability in [0, 1]", kind, q, row, cells), cj));
                }
                run.refs.push(Some(cells))
            }
            Ok(o) => {
                let cj = run.case_json(&[q], 0, "ref_array", json!({"rows": 1}), json!({"shape": o.shape_vec()}));
                run.rep.push(Violation::new(format!("{}.predict.output_shape", kind), format!("{}: a single row gave an output of shape {:?}", kind, o.shape_vec()), cj));
                run.refs.push(None);
            }
            Err(msg) => {
                let cj = run.case_json(&[q], 0, "ref_array", json!("a prediction"), json!({"panic": msg}));
                run.rep.push(Violation::new(format!("{}.predict.panic", kind), format!("{}: predicting pool row {} = {:?} alone panicked: {}", kind, q, row, msg), cj));
                run.refs.push(None);
            }
        }
    }

    // ---- single-observation forms (1-D record) in three 1-D layouts ----
    if let Some(rf) = &spec.row_form {
        const ROW_LAYOUTS: [&str; 3] = ["row_contiguous", "row_every_second_element", "row_reversed"];
        for (q, row) in spec.pool.iter().enumerate() {
            let Some(want) = run.refs[q].clone() else { continue };
            for (l, lname) in ROW_LAYOUTS.iter().enumerate() {
                let backing: Array1<f64> = match l {
                    0 => Array1::from(row.clone()),
                    1 => Array1::from_shape_fn(2 * p, |i| if i % 2 == 0 { row[i / 2] } else { GARBAGE + i as f64 }),
                    _ => Array1::from_shape_fn(p, |i| row[p - 1 - i]),
                };
                let view = match l {
                    0 => backing.view(),
                    1 => backing.slice(ndarray::s![..;2]),
                    _ => backing.slice(ndarray::s![..;-1]),
                };
                assert!(view.iter().zip(row.iter()).all(|(a, b)| a.to_bits() == b.to_bits()) && view.len() == p);
                run.rep.evals += 1;
                run.rep.bump("calls_form_single_observation", 1);
                let got = guarded(|| rf(view));
                let at = json!({"sel": [q], "layout": lname, "form": "single_observation"});
                let mk = |expected: Value, observed: Value| json!({"entry": kind, "instance": spec.instance, "max_len": spec.max_len, "extreme": spec.extreme, "only": at, "batch_rows": [row], "expected": expected, "observed": observed});
                match got {
                    Err(msg) => {
                        let cj = mk(json!(want.iter().map(|c| c.json()).collect::<Vec<_>>()), json!({"panic": msg}));
                        run.rep.push(Violation::new(format!("{}.single_observation.panic", kind), format!("{}: the 1-D form on pool row {} ({}) panicked: {}", kind, q, lname, msg), cj));
                    }
                    Ok(cell) => {
                        let ok = match (&want[0], &cell) {
                            (Cell::F(a), Cell::F(b)) => {
                                a.to_bits() == b.to_bits() || (a.is_nan() && b.is_nan()) || {
                                    let tol = spec.k() * spec.eps * (spec.scale)(row, 0, *a);
                                    (a - b).abs() <= tol
                                }
                            }
                            (w, g) => {
                                w == g || spec.margin.as_ref().map_or(false, |m| {
                                    let (gap, sc) = m(row);
                                    let ind = gap.abs() <= spec.k() * f64::EPSILON * sc;
                                    if ind {
                                        run.rep.indeterminate += 1;
                                    }
                                    ind
                                })
                            }
                        };
                        if !ok {
                            let cj = mk(want[0].json(), cell.json());
                            run.rep.push(Violation::new(
                                format!("{}.single_observation.differs_from_one_row_batch", kind),
                                format!("{}: the 1-D form on pool row {} ({}) gives {:?}, the same row as a 1 x p batch gives {:?}", kind, q, lname, cell, want[0]),
                                cj,
                            ));
                        }
                    }
                }
            }
        }
    }

    run.rep.refs_json = Value::Array(
        run.refs.iter().map(|r| r.as_ref().map(|r| Value::Array(r.iter().map(|c| c.json()).collect())).unwrap_or(Value::Null)).collect(),
    );

    for b in store {
        if b.sel.iter().any(|&q| run.refs[q].is_none()) {
            run.rep.bump("batches_skipped_reference_unavailable", 1);
            continue;
        }
        run.rep.batches += 1;
        let n = b.sel.len();
        let mut std_ok: Option<bool> = None;
        for layout in 0..4 {
            let proto = &b.protos[layout];

            // ---- form 1: predict(&Array2) ----
            let r = guarded(|| Predict::<&Array2<f64>, T>::predict(mo, proto));
            let base_out: Option<T> = r.as_ref().ok().cloned();
            let base = run.judge(b, layout, "ref_array", r, None, std_ok);
            if layout == 0 {
                std_ok = Some(base);
            }
            let base_ok = Some(base);

            // ---- composite oracle on the same output ----
            if let (Some(h), Some(o)) = (hook, base_out.as_ref()) {
                run.rep.evals += 1;
                run.rep.bump("calls_form_composite_oracle", 1);
                if n >= 2 {
                    run.rep.nontrivial += 1;
                }
                for (suffix, what) in h(proto, o) {
                    let cj = run.case_json(&b.sel, layout, "composite_oracle", json!("see what"), table(o));
                    run.rep.push(Violation::new(format!("{}.{}", kind, suffix), format!("{} {} batch of pool rows {:?}: {}", kind, LAYOUTS[layout], b.sel, what), cj));
                }
            }

            // ---- form 2: predict(Array2) -> Dataset ----
            let x = proto.clone();
            match guarded(|| Predict::<Array2<f64>, DatasetBase<Array2<f64>, T>>::predict(mo, x)) {
                Ok(ds) => {
                    let bits = ds.records.iter().map(|v| v.to_bits()).collect();
                    run.records_unchanged(b, layout, "owned_array", ds.records.shape(), ds.records.strides(), bits, None);
                    run.judge(b, layout, "owned_array", Ok(ds.targets), base_ok, std_ok);
                }
                Err(m) => {
                    run.judge::<T>(b, layout, "owned_array", Err(m), base_ok, std_ok);
                }
            }

            // ---- form 3: predict(&Dataset) ----
            let tags: Array1<usize> = Array1::from_shape_fn(n, |i| 7 * i + 1);
            let ds_in = DatasetBase::new(proto.clone(), tags.clone());
            let r = guarded(|| Predict::<&DatasetBase<Array2<f64>, Array1<usize>>, T>::predict(mo, &ds_in));
            run.judge(b, layout, "ref_dataset", r, base_ok, std_ok);
            {
                // the borrowed dataset must not have been touched either
                let bits = ds_in.records.iter().map(|v| v.to_bits()).collect();
                run.records_unchanged(b, layout, "ref_dataset", ds_in.records.shape(), ds_in.records.strides(), bits, None);
            }

            // ---- form 4: predict(Dataset) -> Dataset ----
            match guarded(|| Predict::<DatasetBase<Array2<f64>, Array1<usize>>, DatasetBase<Array2<f64>, T>>::predict(mo, ds_in)) {
                Ok(ds) => {
                    let bits = ds.records.iter().map(|v| v.to_bits()).collect();
                    run.records_unchanged(b, layout, "owned_dataset", ds.records.shape(), ds.records.strides(), bits, None);
                    run.judge(b, layout, "owned_dataset", Ok(ds.targets), base_ok, std_ok);
                }
                Err(m) => {
                    run.judge::<T>(b, layout, "owned_dataset", Err(m), base_ok, std_ok);
                }
            }

            // ---- form 5: predict_inplace into default_target ----
            let r = guarded(|| {
                let mut y = mo.default_target(proto);
                mo.predict_inplace(proto, &mut y);
                y
            });
            run.judge(b, layout, "inplace", r, base_ok, std_ok);

            // ---- form 6: predict_inplace into a target that holds the result of a DIFFERENT batch of the
            // same length: position i holds the answer of a pool row whose single-row answer differs from
            // the one wanted there (the "opposite answer") whenever the pool has such a row ----
            if n >= 1 {
                let other_sel: Vec<usize> = b
                    .sel
                    .iter()
                    .map(|&q| (1..POOL).map(|d| (q + d) % POOL).find(|&o| run.refs[o].is_some() && run.refs[o] != run.refs[q]).unwrap_or((q + 1) % POOL))
                    .collect();
                if other_sel.iter().zip(b.sel.iter()).any(|(o, q)| run.refs[*o] != run.refs[*q]) {
                    run.rep.bump("inplace_reused_targets_holding_different_answers", 1);
                }
                let other_rows: Vec<&Vec<f64>> = other_sel.iter().map(|&q| &spec.pool[q]).collect();
                let other = make_owned(&other_rows, p, 0);
                let r = guarded(|| {
                    let mut y = mo.default_target(&other);
                    mo.predict_inplace(&other, &mut y);
                    mo.predict_inplace(proto, &mut y);
                    y
                });
                run.judge(b, layout, "inplace_reused_target", r, base_ok, std_ok);
            }
            // ---- forms 7, 8: predict_inplace into a target pre-filled with poison (two fillings) ----
            for (k, form) in ["inplace_poisoned_target_a", "inplace_poisoned_target_b"].iter().enumerate() {
                let r = guarded(|| {
                    let mut y = mo.default_target(proto);
                    y.poison(k);
                    mo.predict_inplace(proto, &mut y);
                    y
                });
                run.judge(b, layout, form, r, base_ok, std_ok);
            }

            // ---- view forms ----
            if let Some(mv) = mv {
                let view: ArrayView2<'a, f64> = proto.view();
                match guarded(|| Predict::<ArrayView2<'a, f64>, DatasetBase<ArrayView2<'a, f64>, T>>::predict(mv, view)) {
                    Ok(ds) => {
                        let bits = ds.records.iter().map(|v| v.to_bits()).collect();
                        let same = ds.records.as_ptr() == proto.as_ptr();
                        run.records_unchanged(b, layout, "view", ds.records.shape(), ds.records.strides(), bits, Some(same));
                        run.judge(b, layout, "view", Ok(ds.targets), base_ok, std_ok);
                    }
                    Err(m) => {
                        run.judge::<T>(b, layout, "view", Err(m), base_ok, std_ok);
                    }
                }
                let view: ArrayView2<'a, f64> = proto.view();
                let r = guarded(|| Predict::<&ArrayView2<'a, f64>, T>::predict(mv, &view));
                run.judge(b, layout, "ref_view", r, base_ok, std_ok);
                let dsv = DatasetBase::new(proto.view(), tags.clone());
                let r = guarded(|| Predict::<&DatasetBase<ArrayView2<'a, f64>, Array1<usize>>, T>::predict(mv, &dsv));
                run.judge(b, layout, "ref_dataset_of_view", r, base_ok, std_ok);
            }
        }

        // ---- documented panic: predict_inplace with a wrong-length target ----
        let proto = &b.protos[0];
        let mut wrong = vec![n + 1];
        if n >= 1 {
            wrong.push(n - 1);
        }
        for wn in wrong {
            run.rep.wrong_len_checks += 1;
            run.rep.evals += 1;
            run.rep.bump("calls_form_inplace_wrong_length_target", 1);
            let proper = match guarded(|| mo.default_target(proto)) {
                Ok(t) => t,
                Err(_) => continue,
            };
            let mut y = proper.with_rows(wn);
            let before = table(&y);
            let r = guarded(|| mo.predict_inplace(proto, &mut y));
            let after = table(&y);
            let form = format!("inplace_wrong_length_target_{}", if wn > n { "longer" } else { "shorter" });
            match r {
                Err(msg) => {
                    if !msg.contains(spec.wrong_len_msg) {
                        let cj = run.case_json(&b.sel, 0, &form, json!({"panic_containing": spec.wrong_len_msg}), json!({"panic": msg}));
                        run.rep.push(Violation::new(
                            format!("{}.predict_inplace.wrong_length_target_undocumented_panic", kind),
                            format!("{}: predict_inplace of {} rows into a target of {} rows panicked with '{}' instead of the documented '{}'", kind, n, wn, msg, spec.wrong_len_msg),
                            cj,
                        ));
                    } else if before != after {
                        let cj = run.case_json(&b.sel, 0, &form, before.clone(), after.clone());
                        run.rep.push(Violation::new(
                            format!("{}.predict_inplace.wrong_length_target_written_before_panic", kind),
                            format!("{}: predict_inplace of {} rows into a target of {} rows wrote into the target before panicking", kind, n, wn),
                            cj,
                        ));
                    }
                }
                Ok(()) => {
                    let cj = run.case_json(&b.sel, 0, &form, json!({"panic_containing": spec.wrong_len_msg}), json!({"returned_target": after}));
                    run.rep.push(Violation::new(
                        format!("{}.predict_inplace.wrong_length_target_accepted", kind),
                        format!("{}: predict_inplace of {} rows into a target of {} rows returned normally (target afterwards has shape {:?}) instead of the documented panic", kind, n, wn, y.shape_vec()),
                        cj,
                    ));
                }
            }
        }
    }
}
