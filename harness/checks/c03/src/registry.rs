//! Registry of C03: every predictor type of the workspace, fitted on fixed data (constant LCG, no
//! entropy source), with its query pool, its float-operand-magnitude model and, for composites, the
//! oracle through the parts.

use crate::sweep::{build_store, sweep, Cell, NoView, Only, Rep, Spec};
use linfa::composing::platt_scaling::Platt;
use linfa::composing::{MultiClassModel, MultiTargetModel};
use linfa::prelude::*;
use linfa::traits::PredictInplace;
use linfa::Dataset;
use ndarray::{Array1, Array2, ArrayView1, ArrayView2};
use rand_xoshiro::rand_core::SeedableRng;
use rand_xoshiro::Xoshiro256Plus;
use std::cell::RefCell;
use std::collections::BTreeMap;

pub struct Args {
    pub instance: usize,
    pub max_len: usize,
    pub only: Option<Only>,
    /// query pool = one training row + five extreme-but-finite rows (instead of the ordinary pool)
    pub extreme: bool,
}

/// Catalogue of extreme-but-finite query rows (15 patterns; instance i uses patterns 5i .. 5i+4):
/// coordinates +-1e3, +-1e6, +-1e30, f32::MAX / 2, +-1e-30, zero, mixed magnitudes, and a training
/// row with one coordinate replaced.
pub(crate) fn extreme_pattern(k: usize, base: &[f64]) -> Vec<f64> {
    let p = base.len();
    let alt = |j: usize| if j % 2 == 0 { 1.0 } else { -1.0 };
    let big32 = (f32::MAX / 2.0) as f64;
    let cyc = [1e30, 1e-30, -1e6, 1e3];
    match k % 15 {
        0 => vec![1e6; p],
        1 => (0..p).map(|j| alt(j) * 1e6).collect(),
        2 => vec![-1e30; p],
        3 => (0..p).map(|j| alt(j) * 1e30).collect(),
        4 => (0..p).map(|j| if j == 0 { big32 } else { 0.0 }).collect(),
        5 => vec![1e-30; p],
        6 => (0..p).map(|j| cyc[j % 4]).collect(),
        7 => vec![-1e3; p],
        8 => (0..p).map(|j| if j == 0 { 1e6 } else { base[j] }).collect(),
        9 => (0..p).map(|j| if j == p - 1 { -1e30 } else { base[j] }).collect(),
        10 => vec![1e30; p],
        11 => (0..p).map(|j| alt(j) * big32).collect(),
        12 => vec![0.0; p],
        13 => (0..p).map(|j| alt(j) * -1e-30).collect(),
        _ => (0..p).map(|j| cyc[3 - j % 4]).collect(),
    }
}

impl Args {
    /// the ordinary pool, or (extreme mode) a training row followed by five catalogue rows
    pub fn pool(&self, x: &Array2<f64>, extreme_row: Vec<f64>) -> Vec<Vec<f64>> {
        if !self.extreme {
            return pool_from(x, extreme_row);
        }
        let base = x.row(0).to_vec();
        let mut v = vec![base.clone()];
        for k in 0..5 {
            v.push(extreme_pattern(5 * (self.instance % 3) + k, &base));
        }
        v
    }
    /// same for predictors whose domain is non-negative records
    pub fn pool_nonneg(&self, x: &Array2<f64>, extreme_row: Vec<f64>) -> Vec<Vec<f64>> {
        self.pool(x, extreme_row).into_iter().map(|r| r.into_iter().map(f64::abs).collect()).collect()
    }
}

pub struct Entry {
    pub name: &'static str,
    /// the entry also runs with the extreme query pool
    pub extreme_ok: bool,
    pub run: fn(&Args, &mut Rep) -> Result<(), String>,
}

// ---------- deterministic data (same generators as the C20 registry) ----------
pub(crate) struct Lcg(pub u64);
impl Lcg {
    pub(crate) fn next(&mut self) -> f64 {
        self.0 = self.0.wrapping_mul(6364136223846793005).wrapping_add(1442695040888963407);
        ((self.0 >> 11) as f64) / ((1u64 << 53) as f64)
    }
    pub(crate) fn normalish(&mut self) -> f64 {
        (self.next() + self.next() + self.next() + self.next() - 2.0) * 1.2
    }
}

/// n rows, p columns, k blobs (row i belongs to blob i % k)
pub(crate) fn blobs(n: usize, p: usize, k: usize, seed: u64) -> (Array2<f64>, Array1<usize>) {
    let mut g = Lcg(seed);
    let mut x = Array2::zeros((n, p));
    let mut y = Array1::zeros(n);
    for i in 0..n {
        let c = i % k;
        y[i] = c;
        for j in 0..p {
            let centre = ((c * (j + 2)) % 5) as f64 * 2.5 - 3.0;
            x[(i, j)] = centre + g.normalish();
        }
    }
    (x, y)
}

pub(crate) fn regression(n: usize, p: usize, t: usize, seed: u64) -> (Array2<f64>, Array2<f64>) {
    let mut g = Lcg(seed);
    let mut x = Array2::zeros((n, p));
    let mut y = Array2::zeros((n, t));
    for i in 0..n {
        for j in 0..p {
            x[(i, j)] = g.normalish() * (1.0 + (j % 4) as f64);
        }
        for c in 0..t {
            let mut s = 0.5 * (c as f64 + 1.0);
            for j in 0..p {
                s += x[(i, j)] * (((j + c) % 5 + 1) as f64 * 0.3 - 0.4);
            }
            y[(i, c)] = s + 0.1 * g.normalish();
        }
    }
    (x, y)
}

pub(crate) fn rng(seed: u64) -> Xoshiro256Plus {
    Xoshiro256Plus::seed_from_u64(seed)
}

pub(crate) fn e<T: std::fmt::Debug>(x: T) -> String {
    format!("{:?}", x)
}

pub(crate) fn extreme(p: usize) -> Vec<f64> {
    (0..p).map(|j| (if j % 2 == 0 { 1e3 } else { -1e3 }) * (1.0 + j as f64 * 0.25)).collect()
}

/// Query pool of 6 rows: two training rows, a duplicate of the first, an off-data row (midpoint of
/// two training rows of different blobs / far apart), an extreme row, a third training row.
pub(crate) fn pool_from(x: &Array2<f64>, extreme_row: Vec<f64>) -> Vec<Vec<f64>> {
    let r = |i: usize| x.row(i).to_vec();
    let mid: Vec<f64> = r(0).iter().zip(r(1).iter()).map(|(a, b)| 0.5 * (a + b)).collect();
    vec![r(0), r(1), r(0), mid, extreme_row, r(2)]
}

fn lin_scale<'s>(w: Vec<f64>, b: f64) -> Box<dyn Fn(&[f64], usize, f64) -> f64 + 's> {
    Box::new(move |row, _c, _o| row.iter().zip(w.iter()).map(|(x, w)| (x * w).abs()).sum::<f64>() + b.abs())
}

/// column c of a (p x t) coefficient matrix plus offset b[c]
fn mat_scale<'s>(w: Array2<f64>, b: Vec<f64>) -> Box<dyn Fn(&[f64], usize, f64) -> f64 + 's> {
    Box::new(move |row, c, _o| row.iter().enumerate().map(|(j, x)| (x * w[(j, c)]).abs()).sum::<f64>() + b[c].abs())
}

fn spec<'s>(kind: &'static str, a: &Args, pool: &'s [Vec<f64>]) -> Spec<'s> {
    let mut sp = Spec::new(kind, a.instance, a.max_len, pool);
    sp.extreme = a.extreme;
    sp
}

// ============================ clustering ============================
fn kmeans(a: &Args, rep: &mut Rep) -> Result<(), String> {
    use linfa_clustering::KMeans;
    let k = [3, 4, 2][a.instance % 3];
    let (x, _) = blobs(60, 3, k, 101 + a.instance as u64);
    let m = KMeans::params_with_rng(k, rng(7)).n_runs(2).max_n_iterations(20).fit(&Dataset::from(x.clone())).map_err(e)?;
    let pool = a.pool(&x, extreme(3));
    let store = build_store(&pool, a.max_len, &a.only);
    let cent = m.centroids().clone();
    let mut sp = spec("kmeans", a, &pool);
    sp.wrong_len_msg = "The number of data points must match the number of memberships.";
    sp.margin = Some(Box::new(move |row| {
        let mut d: Vec<f64> = cent.rows().into_iter().map(|c| c.iter().zip(row).map(|(a, b)| (a - b) * (a - b)).sum()).collect();
        d.sort_by(|a, b| a.partial_cmp(b).unwrap());
        (d[1] - d[0], d[1])
    }));
    sp.row_form = Some(Box::new(|v| Cell::U(Predict::<&ArrayView1<f64>, usize>::predict(&m, &v) as u64)));
    sweep::<Array1<usize>, _, _>(&sp, &m, Some(&m), &store, None, rep);
    Ok(())
}

fn gmm(a: &Args, rep: &mut Rep) -> Result<(), String> {
    use linfa_clustering::GaussianMixtureModel;
    let k = [3, 2, 2][a.instance % 3];
    let (x, _) = blobs(150, 2, k, 111 + a.instance as u64);
    let m = GaussianMixtureModel::params_with_rng(k, rng(5)).n_runs(2).tolerance(1e-4).fit(&Dataset::from(x.clone())).map_err(e)?;
    let pool = a.pool(&x, extreme(2));
    let store = build_store(&pool, a.max_len, &a.only);
    let sp = spec("gmm", a, &pool);
    sweep::<Array1<usize>, _, _>(&sp, &m, Some(&m), &store, None, rep);
    Ok(())
}

// ============================ regression ============================
fn ols(a: &Args, rep: &mut Rep) -> Result<(), String> {
    use linfa_linear::LinearRegression;
    let p = [9, 3, 17][a.instance % 3];
    let (x, y) = regression(80, p, 1, 121 + a.instance as u64);
    let ds = Dataset::new(x.clone(), y.column(0).to_owned());
    let m = LinearRegression::new().with_intercept(a.instance != 1).fit(&ds).map_err(e)?;
    let pool = a.pool(&x, extreme(p));
    let store = build_store(&pool, a.max_len, &a.only);
    let mut sp = spec("ols", a, &pool);
    sp.scale = lin_scale(m.params().to_vec(), m.intercept());
    sweep::<Array1<f64>, _, _>(&sp, &m, Some(&m), &store, None, rep);
    Ok(())
}

fn isotonic(a: &Args, rep: &mut Rep) -> Result<(), String> {
    use linfa_linear::IsotonicRegression;
    let (x, y) = regression(60, 1, 1, 131 + a.instance as u64);
    // the generator's slope for one feature is negative: mirror the regressor so that the isotonic fit is not constant
    let _ = y;
    // sorted regressor (the fit takes its block boundaries from the records in the given order)
    let mut xs: Vec<f64> = x.iter().cloned().collect();
    xs.sort_by(|a, b| a.partial_cmp(b).unwrap());
    let x = Array2::from_shape_vec((xs.len(), 1), xs).unwrap();
    // a clearly increasing, noisy response so that the fitted step function has many distinct levels
    let mut g = Lcg(977 + a.instance as u64);
    let yv: Array1<f64> = x.column(0).mapv(|v| 0.8 * v + 0.3 * g.normalish());
    let ds = Dataset::new(x.clone(), yv);
    let m = IsotonicRegression::new().fit(&ds).map_err(e)?;
    // pool: training rows from the lower, middle and upper part, an interpolated off-data point, an extreme
    let mut pool = a.pool(&x, vec![if a.instance % 2 == 0 { 1e6 } else { -1e6 }]);
    if !a.extreme {
        pool[0] = x.row(7).to_vec();
        pool[1] = x.row(45).to_vec();
        pool[2] = x.row(7).to_vec();
        pool[3] = vec![0.5 * (x[(20, 0)] + x[(21, 0)]) + 0.013];
        pool[5] = x.row(30).to_vec();
    }
    let store = build_store(&pool, a.max_len, &a.only);
    let sp = spec("isotonic", a, &pool);
    sweep::<Array1<f64>, _, _>(&sp, &m, Some(&m), &store, None, rep);
    Ok(())
}

fn tweedie(a: &Args, rep: &mut Rep) -> Result<(), String> {
    use linfa_linear::TweedieRegressor;
    let (x, y) = regression(80, 2, 1, 141 + a.instance as u64);
    let ypos = y.column(0).mapv(|v| (v * 0.2).exp());
    let ds = Dataset::new(x.clone(), ypos);
    let power = [1.0, 0.0, 2.0][a.instance % 3];
    let m = TweedieRegressor::params().power(power).alpha(0.1).fit(&ds).map_err(e)?;
    // moderately extreme row: the log link must stay finite
    let pool = a.pool(&x, vec![40.0, -55.0]);
    let store = build_store(&pool, a.max_len, &a.only);
    let mut sp = spec("tweedie", a, &pool);
    let (w, b) = (m.coef.to_vec(), m.intercept);
    // out = g^-1(eta), g in {identity, log}: |d out| <= max(1, |out|) * |d eta|
    sp.scale = Box::new(move |row, _c, o| {
        let s: f64 = row.iter().zip(w.iter()).map(|(x, w)| (x * w).abs()).sum::<f64>() + b.abs();
        s * o.abs().max(1.0)
    });
    sweep::<Array1<f64>, _, _>(&sp, &m, Some(&m), &store, None, rep);
    Ok(())
}

fn elasticnet(a: &Args, rep: &mut Rep) -> Result<(), String> {
    use linfa_elasticnet::ElasticNet;
    let p = [4, 10, 4][a.instance % 3];
    let (x, y) = regression(80, p, 1, 151 + a.instance as u64);
    let ds = Dataset::new(x.clone(), y.column(0).to_owned());
    let m = ElasticNet::params().penalty(0.1).l1_ratio([0.5, 1.0, 0.0][a.instance % 3]).fit(&ds).map_err(e)?;
    let pool = a.pool(&x, extreme(p));
    let store = build_store(&pool, a.max_len, &a.only);
    let mut sp = spec("elasticnet", a, &pool);
    sp.scale = lin_scale(m.hyperplane().to_vec(), m.intercept());
    sweep::<Array1<f64>, _, _>(&sp, &m, Some(&m), &store, None, rep);
    Ok(())
}

fn multitask_elasticnet(a: &Args, rep: &mut Rep) -> Result<(), String> {
    use linfa_elasticnet::MultiTaskElasticNet;
    let t = [2, 3, 1][a.instance % 3];
    let (x, y) = regression(80, 4, t, 161 + a.instance as u64);
    let ds = Dataset::new(x.clone(), y);
    let m = MultiTaskElasticNet::params().penalty(0.1).l1_ratio(0.5).fit(&ds).map_err(e)?;
    let pool = a.pool(&x, extreme(4));
    let store = build_store(&pool, a.max_len, &a.only);
    let mut sp = spec("multitask_elasticnet", a, &pool);
    sp.scale = mat_scale(m.hyperplane().clone(), m.intercept().to_vec());
    sweep::<Array2<f64>, _, _>(&sp, &m, Some(&m), &store, None, rep);
    Ok(())
}

fn pls_common<M>(kind: &'static str, a: &Args, rep: &mut Rep, x: &Array2<f64>, m: &M, coef: &Array2<f64>) -> Result<(), String>
where
    M: for<'v> PredictInplace<ArrayView2<'v, f64>, Array2<f64>> + PredictInplace<Array2<f64>, Array2<f64>>,
{
    let p = x.ncols();
    let pool = a.pool(x, extreme(p));
    let store = build_store(&pool, a.max_len, &a.only);
    let mut sp = spec(kind, a, &pool);
    // out_c = sum_j ((x_j - mean_j) / std_j) C_jc + ymean_c ; mean / std of the training records
    // are recomputed here (only used as operand magnitudes of the tolerance)
    let n = x.nrows() as f64;
    let mean: Vec<f64> = (0..p).map(|j| x.column(j).sum() / n).collect();
    let std: Vec<f64> = (0..p).map(|j| (x.column(j).iter().map(|v| (v - mean[j]).powi(2)).sum::<f64>() / (n - 1.0)).sqrt()).collect();
    let coef = coef.clone();
    sp.scale = Box::new(move |row, c, o| row.iter().enumerate().map(|(j, v)| ((v.abs() + mean[j].abs()) / std[j] * coef[(j, c)]).abs()).sum::<f64>() + o.abs());
    sweep::<Array2<f64>, _, _>(&sp, m, Some(m), &store, None, rep);
    Ok(())
}

fn pls_data(a: &Args, seed: u64) -> (Array2<f64>, Dataset<f64, f64, ndarray::Ix2>) {
    let t = [2, 3, 2][a.instance % 3];
    let (x, y) = regression(60, 4, t, seed + a.instance as u64);
    (x.clone(), Dataset::new(x, y))
}

fn pls_regression(a: &Args, rep: &mut Rep) -> Result<(), String> {
    let (x, ds) = pls_data(a, 171);
    let m = linfa_pls::PlsRegression::<f64>::params(2).fit(&ds).map_err(e)?;
    let c = m.coefficients().clone();
    pls_common("pls_regression", a, rep, &x, &m, &c)
}
fn pls_canonical(a: &Args, rep: &mut Rep) -> Result<(), String> {
    let (x, ds) = pls_data(a, 181);
    let m = linfa_pls::PlsCanonical::<f64>::params(2).fit(&ds).map_err(e)?;
    let c = m.coefficients().clone();
    pls_common("pls_canonical", a, rep, &x, &m, &c)
}
fn pls_cca(a: &Args, rep: &mut Rep) -> Result<(), String> {
    let (x, ds) = pls_data(a, 191);
    let m = linfa_pls::PlsCca::<f64>::params(2).fit(&ds).map_err(e)?;
    let c = m.coefficients().clone();
    pls_common("pls_cca", a, rep, &x, &m, &c)
}

// ============================ classification ============================
fn logistic_binary(a: &Args, rep: &mut Rep) -> Result<(), String> {
    use linfa_logistic::LogisticRegression;
    let p = [9, 2, 12][a.instance % 3];
    let (x, y) = blobs(120, p, 2, 201 + a.instance as u64);
    let ds = Dataset::new(x.clone(), y.mapv(|c| c == 1));
    let m = LogisticRegression::default().alpha(0.5).max_iterations(200).fit(&ds).map_err(e)?;
    let pool = a.pool(&x, extreme(p));
    let store = build_store(&pool, a.max_len, &a.only);
    let mut sp = spec("logistic_binary", a, &pool);
    let (w, b) = (m.params().to_vec(), m.intercept());
    sp.margin = Some(Box::new(move |row| {
        let eta: f64 = row.iter().zip(w.iter()).map(|(x, w)| x * w).sum::<f64>() + b;
        let s: f64 = row.iter().zip(w.iter()).map(|(x, w)| (x * w).abs()).sum::<f64>() + b.abs();
        (eta.abs(), s)
    }));
    sweep::<Array1<bool>, _, _>(&sp, &m, Some(&m), &store, None, rep);
    Ok(())
}

fn logistic_multinomial(a: &Args, rep: &mut Rep) -> Result<(), String> {
    use linfa_logistic::MultiLogisticRegression;
    let p = [2, 9, 3][a.instance % 3];
    let (x, y) = blobs(150, p, 3, 211 + a.instance as u64);
    let names = ["cat", "dog", "ant"];
    let ds = Dataset::new(x.clone(), y.mapv(|c| names[c].to_string()));
    let m = MultiLogisticRegression::default().alpha(0.5).max_iterations(200).fit(&ds).map_err(e)?;
    let pool = a.pool(&x, extreme(p));
    let store = build_store(&pool, a.max_len, &a.only);
    let mut sp = spec("logistic_multinomial", a, &pool);
    let (w, b) = (m.params().clone(), m.intercept().to_vec());
    sp.margin = Some(Box::new(move |row| {
        let mut eta: Vec<f64> = (0..b.len()).map(|c| row.iter().enumerate().map(|(j, x)| x * w[(j, c)]).sum::<f64>() + b[c]).collect();
        let s = (0..b.len()).map(|c| row.iter().enumerate().map(|(j, x)| (x * w[(j, c)]).abs()).sum::<f64>() + b[c].abs()).fold(0.0, f64::max);
        eta.sort_by(|a, b| b.partial_cmp(a).unwrap());
        (eta[0] - eta[1], s)
    }));
    sweep::<Array1<String>, _, _>(&sp, &m, Some(&m), &store, None, rep);
    Ok(())
}

fn svm_margin<'s, T: 's>(m: &linfa_svm::Svm<f64, T>) -> Box<dyn Fn(&[f64]) -> (f64, f64) + 's>
where
    linfa_svm::Svm<f64, T>: Clone,
{
    let m = m.clone();
    Box::new(move |row| {
        let r = Array1::from(row.to_vec());
        let ws = m.weighted_sum(&r);
        ((ws - m.rho).abs(), ws.abs() + m.rho.abs() + m.alpha.iter().map(|a| a.abs()).sum::<f64>())
    })
}

fn svm_c_bool_gaussian(a: &Args, rep: &mut Rep) -> Result<(), String> {
    use linfa_svm::Svm;
    let (x, y) = blobs(80, 2, 2, 221 + a.instance as u64);
    let ds = Dataset::new(x.clone(), y.mapv(|c| c == 1));
    let m = Svm::<f64, bool>::params().gaussian_kernel(2.0).pos_neg_weights(1.0, 2.0).fit(&ds).map_err(e)?;
    let pool = a.pool(&x, extreme(2));
    let store = build_store(&pool, a.max_len, &a.only);
    let mut sp = spec("svm_c_bool_gaussian", a, &pool);
    sp.margin = Some(svm_margin(&m));
    sp.row_form = Some(Box::new(|v| Cell::U(Predict::<ArrayView1<f64>, bool>::predict(&m, v) as u64)));
    sweep::<Array1<bool>, _, _>(&sp, &m, Some(&m), &store, None, rep);
    Ok(())
}

fn svm_bool_linear_poly(a: &Args, rep: &mut Rep) -> Result<(), String> {
    use linfa_svm::Svm;
    let p = [2, 9, 3][a.instance % 3];
    let (x, y) = blobs(80, p, 2, 231 + a.instance as u64);
    let ds = Dataset::new(x.clone(), y.mapv(|c| c == 1));
    let m = if a.instance % 3 == 2 {
        Svm::<f64, bool>::params().polynomial_kernel(1.0, 2.0).pos_neg_weights(1.0, 1.0).fit(&ds).map_err(e)?
    } else {
        Svm::<f64, bool>::params().linear_kernel().pos_neg_weights(1.0, 1.0).fit(&ds).map_err(e)?
    };
    let pool = a.pool(&x, extreme(p));
    let store = build_store(&pool, a.max_len, &a.only);
    let mut sp = spec("svm_bool_linear_poly", a, &pool);
    sp.margin = Some(svm_margin(&m));
    sp.row_form = Some(Box::new(|v| Cell::U(Predict::<ArrayView1<f64>, bool>::predict(&m, v) as u64)));
    sweep::<Array1<bool>, _, _>(&sp, &m, Some(&m), &store, None, rep);
    Ok(())
}

fn svm_probability(a: &Args, rep: &mut Rep) -> Result<(), String> {
    use linfa_svm::Svm;
    let (x, y) = blobs(80, 2, 2, 241 + a.instance as u64);
    let ds = Dataset::new(x.clone(), y.mapv(|c| c == 1));
    let m = if a.instance % 2 == 0 {
        Svm::<f64, Pr>::params().gaussian_kernel(2.0).fit(&ds).map_err(e)?
    } else {
        Svm::<f64, Pr>::params().polynomial_kernel(1.0, 2.0).fit(&ds).map_err(e)?
    };
    let pool = a.pool(&x, if a.instance % 2 == 0 { extreme(2) } else { vec![25.0, -31.0] });
    let store = build_store(&pool, a.max_len, &a.only);
    let mut sp = spec("svm_probability", a, &pool);
    sp.eps = f32::EPSILON as f64;
    sp.unit_interval = true;
    sp.scale = Box::new(|_, _, _| 1.0);
    sp.row_form = Some(Box::new(|v| Cell::F(*Predict::<ArrayView1<f64>, Pr>::predict(&m, v) as f64)));
    // definitional oracle: the calibration coefficients are private, the derived Debug form shows them
    let dbg = format!("{:?}", m);
    let (pa, pb) = {
        let key = "probability_coeffs: Some((";
        let i = dbg.find(key).ok_or("Svm Debug form has no probability_coeffs")? + key.len();
        let rest = &dbg[i..dbg[i..].find("))").ok_or("unterminated probability_coeffs")? + i];
        let mut it = rest.split(',').map(|s| s.trim().parse::<f64>());
        (it.next().ok_or("no A")?.map_err(e)?, it.next().ok_or("no B")?.map_err(e)?)
    };
    let counters: RefCell<BTreeMap<&'static str, u64>> = RefCell::new(BTreeMap::new());
    let hook = |xb: &Array2<f64>, out: &Array1<Pr>| -> Vec<(String, String)> {
        let f: Vec<f64> = xb.rows().into_iter().map(|r| m.weighted_sum(&r) - m.rho).collect();
        if f.len() != out.len() {
            return Vec::new();
        }
        sigmoid_oracle(pa, pb, &f, &out.iter().map(|p| **p).collect::<Vec<f32>>(), &counters)
    };
    sweep::<Array1<Pr>, _, _>(&sp, &m, Some(&m), &store, Some(&hook), rep);
    for (k, v) in counters.borrow().iter() {
        rep.bump(k, *v);
    }
    Ok(())
}

fn svm_regression_linear(a: &Args, rep: &mut Rep) -> Result<(), String> {
    use linfa_svm::Svm;
    let p = [2, 9, 3][a.instance % 3];
    let (x, y) = regression(if p > 4 { 30 } else { 60 }, p, 1, 251 + a.instance as u64);
    let ds = Dataset::new(x.clone(), y.column(0).to_owned());
    let m = Svm::<f64, f64>::params().c_svr(if p > 4 { 0.1 } else { 1.0 }, Some(if p > 4 { 0.5 } else { 0.1 })).linear_kernel().fit(&ds).map_err(e)?;
    let pool = a.pool(&x, extreme(p));
    let store = build_store(&pool, a.max_len, &a.only);
    let mut sp = spec("svm_regression_linear", a, &pool);
    // w is not exposed; |w_j| <= sum_i |alpha_i| max|x_ij| ; use the weighted sum's own magnitude plus rho,
    // scaled by the row's dynamic range (sum_j |w_j x_j| <= p * max_j |x_j| * max_j |w_j|)
    let wmax: f64 = {
        let probe = |j: usize| {
            let mut r = Array1::zeros(p);
            r[j] = 1.0;
            m.weighted_sum(&r).abs()
        };
        (0..p).map(probe).fold(0.0, f64::max)
    };
    let rho = m.rho;
    sp.scale = Box::new(move |row, _c, o| row.iter().map(|v| v.abs()).sum::<f64>() * wmax + rho.abs() + o.abs());
    sp.row_form = Some(Box::new(|v| Cell::F(Predict::<ArrayView1<f64>, f64>::predict(&m, v))));
    sweep::<Array1<f64>, _, _>(&sp, &m, Some(&m), &store, None, rep);
    Ok(())
}

fn svm_regression_gaussian(a: &Args, rep: &mut Rep) -> Result<(), String> {
    use linfa_svm::Svm;
    let (x, y) = regression(60, 2, 1, 261 + a.instance as u64);
    let ds = Dataset::new(x.clone(), y.column(0).to_owned());
    let m = Svm::<f64, f64>::params().nu_svr(0.5, Some(1.0)).gaussian_kernel(5.0).fit(&ds).map_err(e)?;
    let pool = a.pool(&x, extreme(2));
    let store = build_store(&pool, a.max_len, &a.only);
    let mut sp = spec("svm_regression_gaussian", a, &pool);
    // sum_i alpha_i k(x_i, s) - rho ; the kernel sums (x - y)^2 sequentially whatever the layout
    let asum: f64 = m.alpha.iter().map(|v| v.abs()).sum();
    let rho = m.rho;
    sp.scale = Box::new(move |_row, _c, o| asum + rho.abs() + o.abs());
    sp.row_form = Some(Box::new(|v| Cell::F(Predict::<ArrayView1<f64>, f64>::predict(&m, v))));
    sweep::<Array1<f64>, _, _>(&sp, &m, Some(&m), &store, None, rep);
    Ok(())
}

fn svm_one_class(a: &Args, rep: &mut Rep) -> Result<(), String> {
    use linfa_svm::Svm;
    let (x, _) = blobs(60, 2, 1, 271 + a.instance as u64);
    let ds = Dataset::new(x.clone(), Array1::from_elem(60, ()));
    let m = Svm::<f64, Pr>::params().gaussian_kernel(3.0).nu_weight(0.2).fit(&ds).map_err(e)?;
    let pool = a.pool(&x, extreme(2));
    let store = build_store(&pool, a.max_len, &a.only);
    let mut sp = spec("svm_one_class", a, &pool);
    sp.margin = Some(svm_margin(&m));
    sp.row_form = Some(Box::new(|v| Cell::U(Predict::<ArrayView1<f64>, bool>::predict(&m, v) as u64)));
    sweep::<Array1<bool>, _, _>(&sp, &m, Some(&m), &store, None, rep);
    Ok(())
}

fn decision_tree(a: &Args, rep: &mut Rep) -> Result<(), String> {
    use linfa_trees::DecisionTree;
    let (x, y) = blobs(150, 3, 3, 281 + a.instance as u64);
    let ds = Dataset::new(x.clone(), y);
    let m = DecisionTree::params().max_depth(Some([4, 2, 8][a.instance % 3])).fit(&ds).map_err(e)?;
    let pool = a.pool(&x, extreme(3));
    let store = build_store(&pool, a.max_len, &a.only);
    let sp = spec("decision_tree", a, &pool);
    sweep::<Array1<usize>, _, _>(&sp, &m, Some(&m), &store, None, rep);
    Ok(())
}

fn gaussian_nb(a: &Args, rep: &mut Rep) -> Result<(), String> {
    use linfa_bayes::GaussianNb;
    let (x, y) = blobs(150, 3, 3, 291 + a.instance as u64);
    let ds = Dataset::new(x.clone(), y);
    let m = GaussianNb::params().fit(&ds).map_err(e)?;
    let pool = a.pool(&x, extreme(3));
    let store = build_store(&pool, a.max_len, &a.only);
    let sp = spec("gaussian_nb", a, &pool);
    sweep::<Array1<usize>, _, _>(&sp, &m, Some(&m), &store, None, rep);
    Ok(())
}

fn multinomial_nb(a: &Args, rep: &mut Rep) -> Result<(), String> {
    use linfa_bayes::MultinomialNb;
    // count data: class c prefers feature c
    let mut g = Lcg(301 + a.instance as u64);
    let n = 60;
    let mut x = Array2::zeros((n, 3));
    let mut y = Array1::zeros(n);
    for i in 0..n {
        let c = i % 3;
        y[i] = c;
        for j in 0..3 {
            x[(i, j)] = (g.next() * if j == c { 6.0 } else { 2.5 }).floor();
        }
    }
    let ds = Dataset::new(x.clone(), y);
    let m = MultinomialNb::params().fit(&ds).map_err(e)?;
    let pool = a.pool_nonneg(&x, vec![1000.0, 0.0, 500.0]);
    let store = build_store(&pool, a.max_len, &a.only);
    let sp = spec("multinomial_nb", a, &pool);
    sweep::<Array1<usize>, _, _>(&sp, &m, Some(&m), &store, None, rep);
    Ok(())
}

fn ftrl(a: &Args, rep: &mut Rep) -> Result<(), String> {
    use linfa_ftrl::Ftrl;
    let p = [3, 9, 3][a.instance % 3];
    let (x, y) = blobs(200, p, 2, 311 + a.instance as u64);
    let ds = Dataset::new(x.clone(), y.mapv(|c| c == 1));
    let params = Ftrl::params_with_rng(rng(3)).alpha(0.1).beta(1.0).l1_ratio(0.2).l2_ratio(0.3);
    let mut m = params.fit_with(None, &ds).map_err(e)?;
    m = params.fit_with(Some(m), &ds).map_err(e)?;
    let pool = a.pool(&x, extreme(p));
    let store = build_store(&pool, a.max_len, &a.only);
    let mut sp = spec("ftrl", a, &pool);
    sp.eps = f32::EPSILON as f64;
    sp.unit_interval = true;
    sp.scale = Box::new(|_, _, _| 1.0);
    sweep::<Array1<Pr>, _, _>(&sp, &m, Some(&m), &store, None, rep);
    Ok(())
}

// ============================ decomposition ============================
fn pca(a: &Args, rep: &mut Rep) -> Result<(), String> {
    use linfa_reduction::Pca;
    let p = [9, 4, 9][a.instance % 3];
    let (x, _) = blobs(120, p, 3, 321 + a.instance as u64);
    let m = Pca::params(3).whiten(a.instance % 3 == 2).fit(&Dataset::from(x.clone())).map_err(e)?;
    let pool = a.pool(&x, extreme(p));
    let store = build_store(&pool, a.max_len, &a.only);
    let mut sp = spec("pca", a, &pool);
    let (comp, mean) = (m.components().clone(), m.mean().to_vec());
    sp.scale = Box::new(move |row, c, _o| row.iter().enumerate().map(|(j, v)| ((v.abs() + mean[j].abs()) * comp[(c, j)]).abs()).sum::<f64>());
    sweep::<Array2<f64>, _, _>(&sp, &m, Some(&m), &store, None, rep);
    Ok(())
}

fn fast_ica(a: &Args, rep: &mut Rep) -> Result<(), String> {
    use linfa_ica::fast_ica::{FastIca, GFunc};
    let (x, _) = blobs(200, 3, 2, 331 + a.instance as u64);
    let m = FastIca::params().ncomponents(2).gfunc(GFunc::Logcosh(1.0)).random_state(10).fit(&Dataset::from(x.clone())).map_err(e)?;
    let pool = a.pool(&x, extreme(3));
    let store = build_store(&pool, a.max_len, &a.only);
    let mut sp = spec("fast_ica", a, &pool);
    // the unmixing matrix is not exposed: probe it (out(e_j) - out(0)); only used as operand magnitude
    let zero = m.predict(&Array2::<f64>::zeros((1, 3)));
    let mut w = Array2::<f64>::zeros((3, 2));
    for j in 0..3 {
        let mut ej = Array2::<f64>::zeros((1, 3));
        ej[(0, j)] = 1.0;
        let o = m.predict(&ej);
        for c in 0..2 {
            w[(j, c)] = o[(0, c)] - zero[(0, c)];
        }
    }
    let mean: Vec<f64> = (0..3).map(|j| x.column(j).sum() / 200.0).collect();
    sp.scale = Box::new(move |row, c, _o| row.iter().enumerate().map(|(j, v)| ((v.abs() + mean[j].abs()) * w[(j, c)]).abs()).sum::<f64>());
    // PredictInplace is implemented for owned arrays only: no view forms
    sweep::<Array2<f64>, _, NoView<Array2<f64>>>(&sp, &m, None, &store, None, rep);
    Ok(())
}

// ============================ composing wrappers ============================
fn multi_target_model(a: &Args, rep: &mut Rep) -> Result<(), String> {
    use linfa_elasticnet::ElasticNet;
    use linfa_linear::LinearRegression;
    use linfa_svm::Svm;
    let (x, y) = regression(60, 3, 3, 341 + a.instance as u64);
    let pool = a.pool(&x, extreme(3));
    let store = build_store(&pool, a.max_len, &a.only);
    let col = |c: usize| Dataset::new(x.clone(), y.column(c).to_owned());
    let ols = LinearRegression::new().fit(&col(0)).map_err(e)?;
    let en = ElasticNet::params().penalty(0.2).l1_ratio(0.5).fit(&col(1)).map_err(e)?;
    let en2 = ElasticNet::params().penalty(0.05).l1_ratio(0.9).fit(&col(2)).map_err(e)?;
    let svr = Svm::<f64, f64>::params().c_svr(1.0, Some(0.1)).gaussian_kernel(8.0).fit(&col(2)).map_err(e)?;
    let mut sp = spec("multi_target_model", a, &pool);
    let wmax = ols.params().iter().chain(en.hyperplane().iter()).chain(en2.hyperplane().iter()).fold(0.0f64, |m, v| m.max(v.abs()));
    let bmax = ols.intercept().abs().max(en.intercept().abs()).max(en2.intercept().abs()).max(svr.rho.abs() + svr.alpha.iter().map(|v| v.abs()).sum::<f64>());
    sp.scale = Box::new(move |row, _c, o| row.iter().map(|v| v.abs()).sum::<f64>() * wmax + bmax + o.abs());
    let counters: RefCell<BTreeMap<&'static str, u64>> = RefCell::new(BTreeMap::new());

    if a.instance % 3 == 1 {
        // homogeneous members through the FromIterator impl (2 members)
        let mo: MultiTargetModel<Array2<f64>, f64> = vec![en.clone(), en2.clone()].into_iter().collect();
        let mv: MultiTargetModel<ArrayView2<f64>, f64> = vec![en.clone(), en2.clone()].into_iter().collect();
        let hook = |xb: &Array2<f64>, out: &Array2<f64>| -> Vec<(String, String)> {
            let members: Vec<Array1<f64>> = vec![en.predict(xb), en2.predict(xb)];
            member_columns(&members, out, &counters)
        };
        sweep::<Array2<f64>, _, _>(&sp, &mo, Some(&mv), &store, Some(&hook), rep);
    } else {
        // heterogeneous members through `new` (3 members: n x 3 outputs)
        let mo: MultiTargetModel<Array2<f64>, f64> = MultiTargetModel::new(vec![Box::new(ols.clone()), Box::new(en.clone()), Box::new(svr.clone())]);
        let mv: MultiTargetModel<ArrayView2<f64>, f64> = MultiTargetModel::new(vec![Box::new(ols.clone()), Box::new(en.clone()), Box::new(svr.clone())]);
        let hook = |xb: &Array2<f64>, out: &Array2<f64>| -> Vec<(String, String)> {
            let members: Vec<Array1<f64>> = vec![ols.predict(xb), en.predict(xb), svr.predict(xb)];
            member_columns(&members, out, &counters)
        };
        sweep::<Array2<f64>, _, _>(&sp, &mo, Some(&mv), &store, Some(&hook), rep);
    }
    for (k, v) in counters.borrow().iter() {
        rep.bump(k, *v);
    }
    Ok(())
}

/// column j of the wrapper's output == member j's own prediction of the same batch, bit for bit
fn member_columns(members: &[Array1<f64>], out: &Array2<f64>, counters: &RefCell<BTreeMap<&'static str, u64>>) -> Vec<(String, String)> {
    let mut v = Vec::new();
    *counters.borrow_mut().entry("multi_target_member_columns_compared").or_insert(0) += members.len() as u64;
    if out.ncols() != members.len() {
        v.push(("composite.column_count".to_string(), format!("output has {} columns for {} member models", out.ncols(), members.len())));
        return v;
    }
    for (j, mj) in members.iter().enumerate() {
        if out.nrows() != mj.len() {
            continue; // reported by the shape oracle
        }
        for i in 0..mj.len() {
            if out[(i, j)].to_bits() != mj[i].to_bits() {
                v.push((
                    "composite.column_is_not_member_prediction".to_string(),
                    format!("output[{}, {}] = {:?} but member model {} predicts {:?} for row {} of this batch", i, j, out[(i, j)], j, mj[i], i),
                ));
                return v;
            }
        }
    }
    v
}

fn multi_class_model(a: &Args, rep: &mut Rep) -> Result<(), String> {
    use linfa_svm::Svm;
    let (x, y) = blobs(90, 2, 3, 351 + a.instance as u64);
    // labels 10, 20, 30: a defaulted label (0) is never a valid answer
    let ds = Dataset::new(x.clone(), y.mapv(|c| 10 * (c + 1)));
    let params = Svm::<f64, Pr>::params().gaussian_kernel([3.0, 1.0, 10.0][a.instance % 3]);
    let mut members: Vec<(usize, Svm<f64, Pr>)> = Vec::new();
    for (l, d) in ds.one_vs_all().map_err(e)? {
        members.push((l, params.fit(&d).map_err(e)?));
    }
    members.sort_by_key(|m| m.0);
    if a.instance % 3 == 2 {
        members.reverse();
    }
    if a.instance % 3 == 0 {
        // a second label backed by an identical member: every row where that member wins is an exact tie
        // (either label is admissible; the wrapper must still answer per row)
        let twin = members[0].1.clone();
        members.push((40, twin));
    }
    multi_class_run("multi_class_model", a, rep, &x, members, false)
}

fn multi_class_run<M>(kind: &'static str, a: &Args, rep: &mut Rep, x: &Array2<f64>, members: Vec<(usize, M)>, via_new: bool) -> Result<(), String>
where
    M: Clone + 'static + PredictInplace<Array2<f64>, Array1<Pr>> + for<'v> PredictInplace<ArrayView2<'v, f64>, Array1<Pr>>,
{
    multi_class_run_pool(kind, a, rep, a.pool(x, extreme(x.ncols())), members, via_new)
}

fn multi_class_run_pool<M>(kind: &'static str, a: &Args, rep: &mut Rep, pool: Vec<Vec<f64>>, members: Vec<(usize, M)>, via_new: bool) -> Result<(), String>
where
    M: Clone + 'static + PredictInplace<Array2<f64>, Array1<Pr>> + for<'v> PredictInplace<ArrayView2<'v, f64>, Array1<Pr>>,
{
    let store = build_store(&pool, a.max_len, &a.only);
    let (mo, mv): (MultiClassModel<Array2<f64>, usize>, MultiClassModel<ArrayView2<f64>, usize>) = if via_new {
        (
            MultiClassModel::new(members.iter().cloned().map(|(l, m)| (l, Box::new(m) as Box<dyn PredictInplace<Array2<f64>, Array1<Pr>>>)).collect()),
            MultiClassModel::new(members.iter().cloned().map(|(l, m)| (l, Box::new(m) as Box<dyn PredictInplace<ArrayView2<f64>, Array1<Pr>>>)).collect()),
        )
    } else {
        (members.clone().into_iter().collect(), members.clone().into_iter().collect())
    };
    let sp = spec(kind, a, &pool);
    let counters: RefCell<BTreeMap<&'static str, u64>> = RefCell::new(BTreeMap::new());
    let hook = |xb: &Array2<f64>, out: &Array1<usize>| -> Vec<(String, String)> {
        let probs: Vec<Array1<Pr>> = members.iter().map(|(_, m)| Predict::<&Array2<f64>, Array1<Pr>>::predict(m, xb)).collect();
        let mut v = Vec::new();
        if out.len() != xb.nrows() {
            return v;
        }
        for i in 0..out.len() {
            let pr: Vec<f32> = probs.iter().map(|p| *p[i]).collect();
            let best = pr.iter().cloned().fold(f32::MIN, f32::max);
            {
                let mut c = counters.borrow_mut();
                let runner_up = pr.iter().cloned().filter(|p| *p < best).fold(f32::MIN, f32::max);
                if runner_up > f32::MIN && best - runner_up <= f32::EPSILON {
                    *c.entry("multi_class_rows_best_beats_runner_up_by_at_most_f32_epsilon").or_insert(0) += 1;
                }
                if best < f32::EPSILON && best > 0.0 {
                    *c.entry("multi_class_rows_all_members_below_f32_epsilon").or_insert(0) += 1;
                }
            }
            let admissible: Vec<usize> = members.iter().zip(pr.iter()).filter(|(_, p)| **p == best).map(|(m, _)| m.0).collect();
            let mut c = counters.borrow_mut();
            *c.entry("multi_class_rows_checked").or_insert(0) += 1;
            if admissible.len() > 1 {
                *c.entry("multi_class_rows_with_tied_best_members").or_insert(0) += 1;
            }
            if !admissible.contains(&out[i]) {
                v.push((
                    "composite.label_is_not_of_a_most_probable_member".to_string(),
                    format!("row {}: label {} returned, member probabilities {:?} for labels {:?}: the most probable member(s) carry {:?}", i, out[i], pr, members.iter().map(|m| m.0).collect::<Vec<_>>(), admissible),
                ));
                return v;
            }
        }
        v
    };
    sweep::<Array1<usize>, _, _>(&sp, &mo, Some(&mv), &store, Some(&hook), rep);
    for (k, v) in counters.borrow().iter() {
        rep.bump(k, *v);
    }
    Ok(())
}

/// MultiClassModel with ONE and with TWO member models (the smallest wrappers)
fn multi_class_model_few_members(a: &Args, rep: &mut Rep) -> Result<(), String> {
    use linfa_svm::Svm;
    let (x, y) = blobs(90, 2, 3, 951 + a.instance as u64);
    let ds = Dataset::new(x.clone(), y.mapv(|c| 10 * (c + 1)));
    let params = Svm::<f64, Pr>::params().gaussian_kernel(3.0);
    let mut members: Vec<(usize, Svm<f64, Pr>)> = Vec::new();
    for (l, d) in ds.one_vs_all().map_err(e)? {
        members.push((l, params.fit(&d).map_err(e)?));
    }
    members.sort_by_key(|m| m.0);
    // instance 0: one member (FromIterator), instance 1: two members, instance 2: one member (the last) through `new`
    let members = match a.instance % 3 {
        0 => members[..1].to_vec(),
        1 => members[..2].to_vec(),
        _ => members[2..].to_vec(),
    };
    rep.bump(&format!("multi_class_wrappers_with_{}_member", members.len()), 1);
    multi_class_run("multi_class_model_few_members", a, rep, &x, members, a.instance % 3 == 2)
}

/// MultiTargetModel built from exactly ONE member model: the output must still be (n, 1)
fn multi_target_model_single_member(a: &Args, rep: &mut Rep) -> Result<(), String> {
    use linfa_elasticnet::ElasticNet;
    use linfa_linear::LinearRegression;
    use linfa_svm::Svm;
    let (x, y) = regression(60, 3, 1, 961 + a.instance as u64);
    let pool = a.pool(&x, extreme(3));
    let store = build_store(&pool, a.max_len, &a.only);
    let ds = Dataset::new(x.clone(), y.column(0).to_owned());
    let mut sp = spec("multi_target_model_single_member", a, &pool);
    let counters: RefCell<BTreeMap<&'static str, u64>> = RefCell::new(BTreeMap::new());
    rep.bump("multi_target_wrappers_with_1_member", 1);
    match a.instance % 3 {
        0 => {
            let m = LinearRegression::new().fit(&ds).map_err(e)?;
            sp.scale = lin_scale(m.params().to_vec(), m.intercept());
            let mo: MultiTargetModel<Array2<f64>, f64> = MultiTargetModel::new(vec![Box::new(m.clone())]);
            let mv: MultiTargetModel<ArrayView2<f64>, f64> = MultiTargetModel::new(vec![Box::new(m.clone())]);
            let hook = |xb: &Array2<f64>, out: &Array2<f64>| member_columns(&[m.predict(xb)], out, &counters);
            sweep::<Array2<f64>, _, _>(&sp, &mo, Some(&mv), &store, Some(&hook), rep);
        }
        1 => {
            let m = ElasticNet::params().penalty(0.2).l1_ratio(0.5).fit(&ds).map_err(e)?;
            sp.scale = lin_scale(m.hyperplane().to_vec(), m.intercept());
            let mo: MultiTargetModel<Array2<f64>, f64> = vec![m.clone()].into_iter().collect();
            let mv: MultiTargetModel<ArrayView2<f64>, f64> = vec![m.clone()].into_iter().collect();
            let hook = |xb: &Array2<f64>, out: &Array2<f64>| member_columns(&[m.predict(xb)], out, &counters);
            sweep::<Array2<f64>, _, _>(&sp, &mo, Some(&mv), &store, Some(&hook), rep);
        }
        _ => {
            let m = Svm::<f64, f64>::params().c_svr(1.0, Some(0.1)).gaussian_kernel(8.0).fit(&ds).map_err(e)?;
            let asum: f64 = m.alpha.iter().map(|v| v.abs()).sum();
            let rho = m.rho;
            sp.scale = Box::new(move |_row, _c, o| asum + rho.abs() + o.abs());
            let mo: MultiTargetModel<Array2<f64>, f64> = MultiTargetModel::new(vec![Box::new(m.clone())]);
            let mv: MultiTargetModel<ArrayView2<f64>, f64> = MultiTargetModel::new(vec![Box::new(m.clone())]);
            let hook = |xb: &Array2<f64>, out: &Array2<f64>| member_columns(&[m.predict(xb)], out, &counters);
            sweep::<Array2<f64>, _, _>(&sp, &mo, Some(&mv), &store, Some(&hook), rep);
        }
    }
    for (k, v) in counters.borrow().iter() {
        rep.bump(k, *v);
    }
    Ok(())
}

/// Harness-side uncalibrated scorer f(x) = w.x + c (inner model of one Platt instance)
#[derive(Clone, Debug)]
struct LinearScorer {
    w: Vec<f64>,
    c: f64,
}
impl PredictInplace<Array2<f64>, Array1<f64>> for LinearScorer {
    fn predict_inplace<'a>(&'a self, x: &'a Array2<f64>, y: &mut Array1<f64>) {
        assert_eq!(x.nrows(), y.len(), "The number of data points must match the number of output targets.");
        for (i, r) in x.rows().into_iter().enumerate() {
            y[i] = r.iter().zip(self.w.iter()).map(|(a, b)| a * b).sum::<f64>() + self.c;
        }
    }
    fn default_target(&self, x: &Array2<f64>) -> Array1<f64> {
        Array1::zeros(x.nrows())
    }
}

/// Definitional oracle of a Platt-calibrated probability: p = 1 / (1 + exp(t)), t = A f + B.
/// Compared in log space with a RELATIVE tolerance on the low-probability side (t >= 0):
/// |ln p - (-softplus(t))| <= 4 eps32 (1 + |t|) (t is rounded to f32 before the sigmoid: 6e-8 |t|;
/// exp / division in f32: a few ulp), absolutely (4 eps32) on the side where p >= 0.5; where the exact
/// value is below the smallest normal f32 the output must be at most twice that. Order: for t_i < t_j the
/// output must not increase, and must strictly decrease wherever the exact values differ by more
/// than 4x those tolerances.
fn sigmoid_oracle(pa: f64, pb: f64, f: &[f64], out: &[f32], counters: &RefCell<BTreeMap<&'static str, u64>>) -> Vec<(String, String)> {
    let eps = f32::EPSILON as f64;
    let tiny = f32::MIN_POSITIVE as f64;
    let mut v = Vec::new();
    let mut c = counters.borrow_mut();
    let t: Vec<f64> = f.iter().map(|f| pa * f + pb).collect();
    let ln_ref = |t: f64| -(t.max(0.0) + (-t.abs()).exp().ln_1p());
    for i in 0..out.len() {
        let p = out[i] as f64;
        *c.entry("sigmoid_outputs_checked").or_insert(0) += 1;
        if !(0.0..=1.0).contains(&p) {
            v.push(("composite.probability_outside_unit_interval".to_string(), format!("row {}: output {} is not in [0, 1]", i, p)));
            return v;
        }
        if t[i].is_nan() {
            continue;
        }
        let lr = ln_ref(t[i]);
        let pr = lr.exp();
        let bad = if t[i] >= 0.0 {
            if pr < tiny {
                *c.entry("sigmoid_outputs_below_smallest_normal_f32").or_insert(0) += 1;
                p > 2.0 * tiny
            } else {
                *c.entry("sigmoid_outputs_checked_in_log_space").or_insert(0) += 1;
                if t[i] >= 16.0 {
                    *c.entry("sigmoid_outputs_with_calibrated_decision_value_above_16").or_insert(0) += 1;
                }
                !(p > 0.0 && (p.ln() - lr).abs() <= 4.0 * eps * (1.0 + t[i].abs()))
            }
        } else {
            (p - pr).abs() > 4.0 * eps
        };
        if bad {
            v.push((
                "composite.not_the_documented_sigmoid".to_string(),
                format!("row {}: output {:e} (ln = {}) but 1/(1+exp(A f + B)) = {:e} (ln = {}) with A = {}, B = {}, decision value f = {}, A f + B = {}", i, p, p.ln(), pr, lr, pa, pb, f[i], t[i]),
            ));
            return v;
        }
    }
    for i in 0..out.len() {
        for j in 0..out.len() {
            if t[i] < t[j] {
                *c.entry("sigmoid_ordered_pairs_checked").or_insert(0) += 1;
                let (pi, pj) = (out[i], out[j]);
                let (li, lj) = (ln_ref(t[i]), ln_ref(t[j]));
                let must_be_strict = if t[i] >= 0.0 {
                    lj.exp() >= tiny && (li - lj) > 16.0 * eps * (1.0 + t[j].abs())
                } else if t[j] < 0.0 {
                    (li.exp() - lj.exp()) > 16.0 * eps
                } else {
                    // across 0.5
                    (li.exp() - lj.exp()) > 16.0 * eps && lj.exp() >= tiny
                };
                let ok = if must_be_strict { pi > pj } else { pi >= pj };
                if must_be_strict {
                    *c.entry("sigmoid_pairs_required_strictly_ordered").or_insert(0) += 1;
                }
                if !ok {
                    v.push((
                        "composite.not_monotone_in_decision_value".to_string(),
                        format!("rows {} and {}: A f + B = {} < {} (exact probabilities {:e} > {:e}) but outputs {:e} and {:e}", i, j, t[i], t[j], li.exp(), lj.exp(), pi, pj),
                    ));
                    return v;
                }
            }
        }
    }
    v
}

/// reads the private fields `a`, `b` out of the derived Debug representation `Platt { a: .., b: .., obj: .. }`
fn platt_ab(dbg: &str) -> Result<(f64, f64), String> {
    let grab = |key: &str| -> Result<f64, String> {
        let i = dbg.find(key).ok_or_else(|| format!("no '{}' in {}", key, &dbg[..dbg.len().min(80)]))? + key.len();
        let rest = &dbg[i..];
        let end = rest.find(',').ok_or("no comma")?;
        rest[..end].trim().parse::<f64>().map_err(|x| format!("{} ({})", x, &rest[..end]))
    };
    if !dbg.starts_with("Platt {") {
        return Err(format!("unexpected Debug form: {}", &dbg[..dbg.len().min(80)]));
    }
    Ok((grab("Platt { a: ")?, grab(", b: ")?))
}

fn platt_run<O>(kind: &'static str, a: &Args, rep: &mut Rep, x: &Array2<f64>, labels: Array1<bool>, inner: O, pool: Vec<Vec<f64>>) -> Result<(), String>
where
    O: PredictInplace<Array2<f64>, Array1<f64>> + Clone + std::fmt::Debug,
{
    let ds = Dataset::new(x.clone(), labels);
    let m: Platt<f64, O> = Platt::params().fit_with(inner.clone(), &ds).map_err(e)?;
    let (pa, pb) = platt_ab(&format!("{:?}", m))?;
    let store = build_store(&pool, a.max_len, &a.only);
    let mut sp = spec(kind, a, &pool);
    sp.eps = f32::EPSILON as f64;
    sp.unit_interval = true;
    sp.scale = Box::new(|_, _, _| 1.0);
    let counters: RefCell<BTreeMap<&'static str, u64>> = RefCell::new(BTreeMap::new());
    let hook = |xb: &Array2<f64>, out: &Array1<Pr>| -> Vec<(String, String)> {
        let f: Array1<f64> = inner.predict(xb);
        if f.len() != out.len() {
            return Vec::new();
        }
        sigmoid_oracle(pa, pb, f.as_slice().unwrap(), &out.iter().map(|p| **p).collect::<Vec<f32>>(), &counters)
    };
    // Platt's bound `O: PredictInplace<ArrayBase<D, Ix2>, ArrayBase<D, Ix1>>` admits owned arrays only
    sweep::<Array1<Pr>, _, NoView<Array1<Pr>>>(&sp, &m, None, &store, Some(&hook), rep);
    for (k, v) in counters.borrow().iter() {
        rep.bump(k, *v);
    }
    Ok(())
}

fn platt_linear_scorer(a: &Args, rep: &mut Rep) -> Result<(), String> {
    let (x, y) = blobs(80, 2, 2, 361 + a.instance as u64);
    // a noisy score: the calibration stays finite
    let inner = LinearScorer { w: vec![[0.4, -0.3, 0.05][a.instance % 3], 0.25], c: -0.1 };
    let mut pool = a.pool(&x, vec![30.0, -20.0]);
    // more distinct decision values around the steep part of the sigmoid
    if !a.extreme {
        pool[5] = vec![0.5, 0.25];
    }
    platt_run("platt_linear_scorer", a, rep, &x, y.mapv(|c| c == 1), inner, pool)
}

fn platt_svm(a: &Args, rep: &mut Rep) -> Result<(), String> {
    use linfa_svm::Svm;
    let (x, y) = blobs(80, 2, 2, 371 + a.instance as u64);
    let reg = Dataset::new(x.clone(), y.mapv(|c| if c == 1 { 1.0 } else { -1.0 }));
    let inner = Svm::<f64, f64>::params().c_svr(1.0, Some(0.1)).gaussian_kernel([2.0, 6.0, 0.7][a.instance % 3]).fit(&reg).map_err(e)?;
    let pool = a.pool(&x, extreme(2));
    platt_run("platt_svm", a, rep, &x, y.mapv(|c| c == 1), inner, pool)
}


// ============================ exact decision-boundary instances ============================
// Pool rows whose decision value is EXACTLY on the threshold / tie of the model (checked at run
// time, counted as `rows_exactly_on_decision_boundary`). Labels are compared exactly (no margin):
// the data are small integers / the boundary is set from the model's own value, so no calling form
// has any rounding freedom; what differs between `>=` and `>`, or between two tie-break rules in
// two forms, is visible here and nowhere else.

fn note_boundary(rep: &mut Rep, kind: &str, inst: usize, exact: usize, wanted: usize) {
    rep.bump("rows_exactly_on_decision_boundary", exact as u64);
    rep.bump(&format!("boundary_rows_{}", kind), exact as u64);
    if exact < wanted {
        rep.bump(&format!("boundary_construction_not_exact_{}#{}", kind, inst), (wanted - exact) as u64);
    }
}

fn svm_bool_linear_on_hyperplane(a: &Args, rep: &mut Rep) -> Result<(), String> {
    use linfa_svm::Svm;
    // point-symmetric integer data: rho == 0 and a hyperplane x0 + x1 = 0 through the origin
    let half: Vec<Vec<f64>> = match a.instance % 3 {
        0 => vec![vec![1., 1.], vec![2., 2.], vec![1., 2.]],
        1 => vec![vec![2., 1.], vec![1., 2.], vec![3., 3.]],
        _ => vec![vec![1., 1., 0.], vec![2., 2., 0.], vec![1., 2., 0.]],
    };
    let p = half[0].len();
    let mut rows = half.clone();
    rows.extend(half.iter().map(|r| r.iter().map(|v| -v).collect::<Vec<f64>>()));
    let x = Array2::from_shape_fn((6, p), |(i, j)| rows[i][j]);
    let y = Array1::from_shape_fn(6, |i| i < 3);
    let m = Svm::<f64, bool>::params().pos_neg_weights(1.0, 1.0).linear_kernel().fit(&Dataset::new(x, y)).map_err(e)?;
    let ext = |v: Vec<f64>| -> Vec<f64> {
        let mut v = v;
        if p == 3 {
            v.push(5.0);
        }
        v
    };
    // three rows on the hyperplane (one duplicated), two ordinary rows
    let pool = vec![ext(vec![0., 0.]), ext(vec![1., -1.]), ext(vec![0., 0.]), ext(vec![-2., 2.]), ext(vec![3., 1.]), ext(vec![-3., 1.])];
    let exact = if m.rho == 0.0 { pool.iter().filter(|r| m.weighted_sum(&Array1::from(r.to_vec())) - m.rho == 0.0).count() } else { 0 };
    note_boundary(rep, "svm_bool_linear_on_hyperplane", a.instance, exact, 4);
    let store = build_store(&pool, a.max_len, &a.only);
    let mut sp = spec("svm_bool_linear_on_hyperplane", a, &pool);
    sp.row_form = Some(Box::new(|v| Cell::U(Predict::<ArrayView1<f64>, bool>::predict(&m, v) as u64)));
    sweep::<Array1<bool>, _, _>(&sp, &m, Some(&m), &store, None, rep);
    // the owned 1-D form as well
    for (q, r) in pool.iter().enumerate() {
        let owned: bool = Predict::<Array1<f64>, bool>::predict(&m, Array1::from(r.clone()));
        let one: Array1<bool> = m.predict(&Array2::from_shape_vec((1, p), r.clone()).unwrap());
        rep.evals += 1;
        rep.bump("calls_form_single_observation_owned", 1);
        if owned != one[0] {
            rep.push(lvmc_core::Violation::new(
                "svm_bool_linear_on_hyperplane.single_observation.differs_from_one_row_batch",
                format!("svm_bool_linear_on_hyperplane: the owned 1-D form on pool row {} = {:?} (decision value {:e}) gives {}, the same row as a 1 x p batch gives {}", q, r, m.weighted_sum(&Array1::from(r.clone())) - m.rho, owned, one[0]),
                lvmc_core::json!({"entry": "svm_bool_linear_on_hyperplane", "instance": a.instance, "max_len": a.max_len,
                    "only": {"sel": [q], "layout": "row_owned", "form": "single_observation"}, "batch_rows": [r], "expected": one[0], "observed": owned}),
            ));
        }
    }
    Ok(())
}

fn svm_one_class_on_boundary(a: &Args, rep: &mut Rep) -> Result<(), String> {
    use linfa_svm::Svm;
    let (x, _) = blobs(60, 2, 1, 471 + a.instance as u64);
    let ds = Dataset::new(x.clone(), Array1::from_elem(60, ()));
    let mut m = Svm::<f64, Pr>::params().gaussian_kernel(3.0).nu_weight(0.2).fit(&ds).map_err(e)?;
    let pool = pool_from(&x, extreme(2));
    // `rho` is a public field: put the threshold exactly on the decision value of the off-data pool row
    // (instance 1: of a training row, instance 2: of the far row whose kernel values underflow)
    let on = [3usize, 1, 4][a.instance % 3];
    m.rho = m.weighted_sum(&Array1::from(pool[on].clone()));
    let exact = pool.iter().filter(|r| m.weighted_sum(&Array1::from(r.to_vec())) - m.rho == 0.0).count();
    note_boundary(rep, "svm_one_class_on_boundary", a.instance, exact, 1);
    let store = build_store(&pool, a.max_len, &a.only);
    let mut sp = spec("svm_one_class_on_boundary", a, &pool);
    sp.row_form = Some(Box::new(|v| Cell::U(Predict::<ArrayView1<f64>, bool>::predict(&m, v) as u64)));
    sweep::<Array1<bool>, _, _>(&sp, &m, Some(&m), &store, None, rep);
    Ok(())
}

fn logistic_binary_threshold_on_row(a: &Args, rep: &mut Rep) -> Result<(), String> {
    use linfa_logistic::LogisticRegression;
    let (x, y) = blobs(120, 2, 2, 481 + a.instance as u64);
    let ds = Dataset::new(x.clone(), y.mapv(|c| c == 1));
    let m = LogisticRegression::default().alpha(0.5).max_iterations(200).fit(&ds).map_err(e)?;
    let pool = pool_from(&x, extreme(2));
    // threshold := the model's own probability of one pool row (off-data / training / duplicate row)
    let on = [3usize, 1, 0][a.instance % 3];
    let prob = |m: &linfa_logistic::FittedLogisticRegression<f64, bool>, r: &Vec<f64>| m.predict_probabilities(&Array2::from_shape_vec((1, 2), r.clone()).unwrap())[0];
    let thr = prob(&m, &pool[on]);
    let m = m.set_threshold(thr);
    let exact = pool.iter().filter(|r| prob(&m, r) == thr).count();
    note_boundary(rep, "logistic_binary_threshold_on_row", a.instance, exact, 1);
    let store = build_store(&pool, a.max_len, &a.only);
    let sp = spec("logistic_binary_threshold_on_row", a, &pool);
    sweep::<Array1<bool>, _, _>(&sp, &m, Some(&m), &store, None, rep);
    Ok(())
}

fn kmeans_equidistant_row(a: &Args, rep: &mut Rep) -> Result<(), String> {
    use linfa_clustering::{KMeans, KMeansInit};
    // two mirrored integer clusters: the centroids are exactly (-c, 0) and (c, 0)
    let c = [2.0, 3.0, 5.0][a.instance % 3];
    let left = [[-c - 1.0, 0.0], [-c + 1.0, 0.0], [-c, 1.0], [-c, -1.0]];
    let mut rows: Vec<[f64; 2]> = left.to_vec();
    rows.extend(left.iter().map(|r| [-r[0], r[1]]));
    let x = Array2::from_shape_fn((8, 2), |(i, j)| rows[i][j]);
    let init = ndarray::array![[-c, 0.0], [c, 0.0]];
    let m = KMeans::params_with_rng(2, rng(9)).init_method(KMeansInit::Precomputed(init)).n_runs(1).max_n_iterations(10).fit(&Dataset::from(x.clone())).map_err(e)?;
    // rows on the perpendicular bisector x0 = 0 (one duplicated), two ordinary rows
    let pool = vec![vec![0.0, 0.0], vec![0.0, 7.0], vec![0.0, 0.0], vec![0.0, -2.5], vec![-1.0, 4.0], vec![c, 1.0]];
    let cent = m.centroids().clone();
    let d2 = |r: &Vec<f64>, k: usize| -> f64 { (0..2).map(|j| (r[j] - cent[(k, j)]) * (r[j] - cent[(k, j)])).sum() };
    let exact = pool.iter().filter(|r| d2(r, 0) == d2(r, 1)).count();
    note_boundary(rep, "kmeans_equidistant_row", a.instance, exact, 4);
    let store = build_store(&pool, a.max_len, &a.only);
    let mut sp = spec("kmeans_equidistant_row", a, &pool);
    sp.wrong_len_msg = "The number of data points must match the number of memberships.";
    sp.row_form = Some(Box::new(|v| Cell::U(Predict::<&ArrayView1<f64>, usize>::predict(&m, &v) as u64)));
    sweep::<Array1<usize>, _, _>(&sp, &m, Some(&m), &store, None, rep);
    Ok(())
}

fn decision_tree_row_on_split_threshold(a: &Args, rep: &mut Rep) -> Result<(), String> {
    use linfa_trees::DecisionTree;
    let (x, y) = blobs(150, 3, 3, 491 + a.instance as u64);
    let ds = Dataset::new(x.clone(), y);
    let m = DecisionTree::params().max_depth(Some([4, 2, 8][a.instance % 3])).fit(&ds).map_err(e)?;
    let mut pool = pool_from(&x, extreme(3));
    // rows whose tested feature equals a split value exactly: at the root, and at the node the
    // root sends such a row to (`<` goes left, so equality goes right)
    let root = m.root_node();
    let (f0, v0, _) = root.split();
    let mut exact = 0;
    if !root.is_leaf() {
        pool[3][f0] = v0;
        exact += 1;
        pool[2] = pool[3].clone(); // duplicate of the boundary row
        exact += 1;
        if let Some(Some(right)) = root.children().get(1).map(|c| c.as_ref()) {
            if !right.is_leaf() {
                let (f1, v1, _) = right.split();
                let mut r = pool[5].clone();
                r[f0] = v0;
                r[f1] = v1;
                if r[f0] == v0 {
                    pool[5] = r;
                    exact += 1;
                }
            }
        }
    }
    note_boundary(rep, "decision_tree_row_on_split_threshold", a.instance, exact, 2);
    let store = build_store(&pool, a.max_len, &a.only);
    let sp = spec("decision_tree_row_on_split_threshold", a, &pool);
    sweep::<Array1<usize>, _, _>(&sp, &m, Some(&m), &store, None, rep);
    Ok(())
}

/// Platt over the linear scorer with query rows placed so that the calibrated decision value
/// A f + B takes prescribed values spanning [-100, 100] (incl. just below / above 16, 24.5, 41, 88)
fn platt_decision_value_ladder(a: &Args, rep: &mut Rep) -> Result<(), String> {
    let (x, y) = blobs(80, 2, 2, 361 + a.instance as u64);
    let inner = LinearScorer { w: vec![[0.4, -0.3, 0.05][a.instance % 3], 0.25], c: -0.1 };
    let labels = y.mapv(|c| c == 1);
    let probe: Platt<f64, LinearScorer> = Platt::params().fit_with(inner.clone(), &Dataset::new(x.clone(), labels.clone())).map_err(e)?;
    let (pa, pb) = platt_ab(&format!("{:?}", probe))?;
    let targets: [f64; 6] = match (a.instance % 3, a.extreme) {
        (0, false) => [-100.0, -24.5, -16.5, 16.5, 24.5, 100.0],
        (1, false) => [-41.0, -8.0, -0.5, 0.5, 8.0, 41.0],
        (2, false) => [-88.0, -60.0, 15.9, 16.1, 60.0, 88.0],
        (0, true) => [17.0, 20.0, 30.0, 50.0, 70.0, 86.0],
        (1, true) => [86.5, 87.0, 88.5, 95.0, 103.0, 110.0],
        _ => [-110.0, -17.5, -15.0, 33.0, 41.0, 1e4],
    };
    let w2: f64 = inner.w.iter().map(|v| v * v).sum();
    let pool: Vec<Vec<f64>> = targets
        .iter()
        .map(|t| {
            let s = (t - pb) / pa - inner.c;
            inner.w.iter().map(|w| w / w2 * s).collect()
        })
        .collect();
    platt_run("platt_decision_value_ladder", a, rep, &x, labels, inner, pool)
}

/// Harness-side probability scorer for the near-tie MultiClassModel instances: a per-row function
/// base(x) = sigmoid_f32(w.x + bias), then shifted by `ulps`, increased by `add` or scaled by `factor`
#[derive(Clone, Debug)]
struct TinyScorer {
    w: Vec<f64>,
    bias: f64,
    ulps: i32,
    add: f32,
    factor: f32,
}
impl TinyScorer {
    fn p(&self, row: ndarray::ArrayView1<f64>) -> f32 {
        let t = (row.iter().zip(self.w.iter()).map(|(a, b)| a * b).sum::<f64>() + self.bias) as f32;
        let base = if t >= 0.0 { 1.0 / (1.0 + (-t).exp()) } else { t.exp() / (1.0 + t.exp()) };
        let shifted = f32::from_bits((base.to_bits() as i64 + self.ulps as i64).max(0) as u32);
        let v = (shifted + self.add) * self.factor;
        if v.is_finite() {
            v.clamp(0.0, 1.0)
        } else {
            0.0
        }
    }
}
impl<D: ndarray::Data<Elem = f64>> PredictInplace<ndarray::ArrayBase<D, ndarray::Ix2>, Array1<Pr>> for TinyScorer {
    fn predict_inplace<'a>(&'a self, x: &'a ndarray::ArrayBase<D, ndarray::Ix2>, y: &mut Array1<Pr>) {
        assert_eq!(x.nrows(), y.len(), "The number of data points must match the number of output targets.");
        for (i, r) in x.rows().into_iter().enumerate() {
            y[i] = Pr::new(self.p(r));
        }
    }
    fn default_target(&self, x: &ndarray::ArrayBase<D, ndarray::Ix2>) -> Array1<Pr> {
        Array1::default(x.nrows())
    }
}

/// MultiClassModel whose members are nearly tied or all unconfident: the label of the member with
/// the (exactly) largest probability is demanded however small the lead
fn multi_class_model_near_ties(a: &Args, rep: &mut Rep) -> Result<(), String> {
    let plain = |w: Vec<f64>, bias: f64| TinyScorer { w, bias, ulps: 0, add: 0.0, factor: 1.0 };
    let members: Vec<(usize, TinyScorer)> = match a.instance % 3 {
        // three linear scorers 120 degrees apart with bias -20: every probability is ~1e-9 .. 1e-7
        0 => vec![(10, plain(vec![1.0, 0.0], -20.0)), (20, plain(vec![-0.5, 0.8660254037844386], -20.0)), (30, plain(vec![-0.5, -0.8660254037844386], -20.0))],
        // one base probability (~0.2 .. 0.5): +0 ulp, +1 ulp, +1e-7, +1e-8 (later members lead by a hair)
        1 => {
            let b = plain(vec![0.7, -0.2], -0.8);
            vec![(10, b.clone()), (20, TinyScorer { ulps: 1, ..b.clone() }), (30, TinyScorer { add: 1e-7, ..b.clone() }), (40, TinyScorer { add: 1e-8, ..b })]
        }
        // scaled-down probabilities: 1e-9, 2e-8, 1e-11, 1.9e-8 times the same base
        _ => {
            let b = plain(vec![0.3, 0.4], 0.2);
            vec![(10, TinyScorer { factor: 1e-9, ..b.clone() }), (20, TinyScorer { factor: 2e-8, ..b.clone() }), (30, TinyScorer { factor: 1e-11, ..b.clone() }), (40, TinyScorer { factor: 1.9e-8, ..b })]
        }
    };
    let x = Array2::from_shape_vec((3, 2), vec![1.0, 0.0, -0.5, 0.8, 0.3, 0.2]).unwrap();
    let pool = if a.extreme { a.pool(&x, extreme(2)) } else { vec![vec![1.0, 0.0], vec![-0.5, 0.8], vec![1.0, 0.0], vec![-0.5, -0.8], vec![0.3, 0.2], vec![2.0, -1.0]] };
    multi_class_run_pool("multi_class_model_near_ties", a, rep, pool, members, a.instance % 3 == 1)
}

/// MultiClassModel whose member list carries REPEATED labels: every labelling of 3 and 4 members
/// over two labels x every order of the probability levels (low, high, mid[, mid2]); the levels
/// scale a common per-row base probability, so the members' order is the same on every row.
/// Oracle unchanged: the returned label is the label of a most probable member (exact f32
/// comparison of the members' own predictions), batch == single rows, in-place == plain.
fn multi_class_model_repeated_labels(a: &Args, rep: &mut Rep) -> Result<(), String> {
    use lvmc_core::enumerate as en;
    rep.bump("entry_without_batch_sweep", 1);
    let levels = [0.30f32, 0.90, 0.50, 0.70];
    let base = TinyScorer { w: vec![0.3, 0.4], bias: 1.0, ulps: 0, add: 0.0, factor: 1.0 };
    let pool = vec![vec![1.0, 0.0], vec![-0.5, 0.8], vec![1.0, 0.0], vec![-0.5, -0.8], vec![0.3, 0.2], vec![2.0, -1.0]];
    let xq = Array2::from_shape_fn((6, 2), |(i, j)| pool[i][j]);
    let mut configs: Vec<(Vec<usize>, Vec<usize>)> = Vec::new(); // (labels, level order)
    for m in [3usize, 4] {
        for lab in en::sequences(m, 2) {
            for perm in en::permutations(m) {
                configs.push((lab.iter().map(|l| 10 * (l + 1)).collect(), perm));
            }
        }
    }
    let share: Vec<usize> = (0..configs.len()).filter(|i| i % 3 == a.instance % 3).collect();
    for ci in share {
        let (labels, perm) = &configs[ci];
        let members: Vec<(usize, TinyScorer)> = labels.iter().zip(perm.iter()).map(|(l, &k)| (*l, TinyScorer { factor: levels[k], ..base.clone() })).collect();
        let model: MultiClassModel<Array2<f64>, usize> = if ci % 2 == 0 {
            members.clone().into_iter().collect()
        } else {
            MultiClassModel::new(members.iter().cloned().map(|(l, m)| (l, Box::new(m) as Box<dyn PredictInplace<Array2<f64>, Array1<Pr>>>)).collect())
        };
        let distinct_labels = labels.iter().collect::<std::collections::BTreeSet<_>>().len();
        if distinct_labels < labels.len() {
            rep.bump("multi_class_member_lists_with_repeated_labels", 1);
        }
        let probs: Vec<Array1<Pr>> = members.iter().map(|(_, m)| Predict::<&Array2<f64>, Array1<Pr>>::predict(m, &xq)).collect();
        let report = |rep: &mut Rep, form: &str, row: usize, got: Option<usize>, msg: String| {
            let cj = lvmc_core::json!({"entry": "multi_class_model_repeated_labels", "instance": a.instance, "max_len": a.max_len,
                "only": {"config": ci, "form": form, "row": row}, "member_labels": labels, "member_level_order": perm, "query_row": pool[row], "observed": got});
            rep.push(lvmc_core::Violation::new(format!("multi_class_model_repeated_labels.{}", if form == "batch" || form == "single_row" { "composite.label_is_not_of_a_most_probable_member" } else { "form_differs" }), msg, cj));
        };
        // whole batch, single rows, in-place into a poisoned target
        let batch = lvmc_core::guarded(|| Predict::<&Array2<f64>, Array1<usize>>::predict(&model, &xq));
        rep.evals += 1;
        rep.nontrivial += 1;
        let batch = match batch {
            Ok(b) if b.len() == 6 => b,
            other => {
                report(rep, "batch", 0, None, format!("members {:?} levels {:?}: batch prediction failed / wrong length: {:?}", labels, perm, other.map(|b| b.len())));
                continue;
            }
        };
        for i in 0..6 {
            let pr: Vec<f32> = probs.iter().map(|p| *p[i]).collect();
            let best = pr.iter().cloned().fold(f32::MIN, f32::max);
            let admissible: Vec<usize> = labels.iter().zip(pr.iter()).filter(|(_, p)| **p == best).map(|(l, _)| *l).collect();
            rep.bump("multi_class_rows_checked", 1);
            if !admissible.contains(&batch[i]) {
                report(rep, "batch", i, Some(batch[i]), format!("member labels {:?} with probabilities {:?} on row {}: label {} returned, the most probable member carries {:?}", labels, pr, i, batch[i], admissible));
            }
            rep.evals += 2;
            rep.nontrivial += 2;
            let one = lvmc_core::guarded(|| Predict::<&Array2<f64>, Array1<usize>>::predict(&model, &xq.slice(ndarray::s![i..i + 1, ..]).to_owned()));
            match one {
                Ok(o) if o.len() == 1 && admissible.contains(&o[0]) && o[0] == batch[i] => {}
                other => report(rep, "single_row", i, other.as_ref().ok().and_then(|o| o.get(0).copied()), format!("member labels {:?} with probabilities {:?}: row {} alone gives {:?}, in the batch {}, admissible {:?}", labels, pr, i, other.map(|o| o.to_vec()), batch[i], admissible)),
            }
        }
        let inplace = lvmc_core::guarded(|| {
            let mut y = Array1::from_elem(6, 987_654_321usize);
            model.predict_inplace(&xq, &mut y);
            y
        });
        if inplace.as_ref().ok() != Some(&batch) {
            report(rep, "inplace_poisoned_target", 0, None, format!("member labels {:?} levels {:?}: predict_inplace gives {:?}, predict gives {:?}", labels, perm, inplace.map(|y| y.to_vec()), batch.to_vec()));
        }
        rep.bump("multi_class_repeated_label_configurations", 1);
    }
    Ok(())
}

pub fn registry() -> Vec<Entry> {
    macro_rules! ent {
        ($x:expr; $($f:ident),* $(,)?) => { vec![$(Entry { name: stringify!($f), extreme_ok: $x, run: $f }),*] };
    }
    let mut v = ent![true;
        kmeans, gmm, ols, isotonic, tweedie, elasticnet, multitask_elasticnet,
        pls_regression, pls_canonical, pls_cca,
        logistic_binary, logistic_multinomial,
        svm_c_bool_gaussian, svm_bool_linear_poly, svm_probability, svm_regression_linear, svm_regression_gaussian, svm_one_class,
        decision_tree, gaussian_nb, multinomial_nb, ftrl, pca, fast_ica,
        multi_target_model, multi_class_model, platt_linear_scorer, platt_svm,
        multi_target_model_single_member, multi_class_model_few_members,
        platt_decision_value_ladder, multi_class_model_near_ties,
    ];
    v.extend(ent![false;
        svm_bool_linear_on_hyperplane, svm_one_class_on_boundary, logistic_binary_threshold_on_row, kmeans_equidistant_row,
        decision_tree_row_on_split_threshold, multi_class_model_repeated_labels,
    ]);
    v
}
