//! Large-batch / layout / f32 family of C03: one batch of n in {1025, 4097} rows per predictor,
//! handed over in five memory layouts through the array, view, dataset and in-place forms, compared
//! with the standard-layout answer and, row by row, with the single-row answers. f32 where the
//! predictor is generic.
//! Second family in this file: the TRAINING records handed over in the same layouts (closed-form /
//! deterministic fits only), the fitted model's predictions compared with the standard-layout fit.

use crate::registry::{blobs, e, regression, rng, Lcg};
use crate::sweep::{Cell, NoView, OutT, Rep};
use linfa::dataset::{AsTargets, DatasetBase};
use linfa::prelude::*;
use linfa::traits::{Predict, PredictInplace};
use linfa::{Dataset, Float};
use lvmc_core::{guarded, json, Value, Violation};
use ndarray::{Array1, Array2, ArrayView1, ArrayView2, Axis, ShapeBuilder, Slice};

pub const LLAYOUTS: [&str; 5] = ["standard", "column_major", "transposed_view_of_feature_major", "reversed_rows_of_reversed_copy", "every_second_row_poison_filler"];

/// the same logical matrix in the five layouts (as owned arrays; views are taken from them)
pub fn protos<F: Float>(q: &Array2<F>) -> Vec<Array2<F>> {
    let (n, p) = q.dim();
    let std = Array2::from_shape_fn((n, p), |(i, j)| q[(i, j)]);
    let colmajor = Array2::from_shape_fn((n, p).f(), |(i, j)| q[(i, j)]);
    let feature_major = Array2::from_shape_fn((p, n), |(j, i)| q[(i, j)]);
    let transposed = feature_major.reversed_axes();
    let mut reversed = Array2::from_shape_fn((n, p), |(i, j)| q[(n - 1 - i, j)]);
    reversed.invert_axis(Axis(0));
    let mut big = Array2::from_shape_fn((2 * n, p), |(i, j)| if i % 2 == 0 { q[(i / 2, j)] } else { F::nan() });
    big.slice_axis_inplace(Axis(0), Slice::new(0, None, 2));
    let out = vec![std, colmajor, transposed, reversed, big];
    for a in &out {
        assert_eq!(a.dim(), (n, p));
        assert!(a.iter().zip(q.iter()).all(|(x, y)| x.to_f64().unwrap().to_bits() == y.to_f64().unwrap().to_bits()));
    }
    assert!(out[0].is_standard_layout());
    if n > 1 && p > 1 {
        assert!(!out[1].is_standard_layout() && !out[2].is_standard_layout() && out[3].strides()[0] < 0 && !out[4].is_standard_layout());
    }
    out
}

/// n query rows derived from the training records: row i = training row (i mod m) plus a small
/// deterministic offset (constant LCG), so that all rows are distinct; `counts`: non-negative integers
pub fn queries<F: Float>(train: &Array2<f64>, n: usize, seed: u64, counts: bool) -> Array2<F> {
    let (m, p) = train.dim();
    let mut g = Lcg(seed);
    // rows 2..=16 are the 15 extreme-but-finite catalogue rows (all representable in f32)
    let base0 = train.row(0).to_vec();
    let ext: Vec<Vec<f64>> = (0..15).map(|k| crate::registry::extreme_pattern(k, &base0)).collect();
    Array2::from_shape_fn((n, p), |(i, j)| {
        if (2..17).contains(&i) {
            let v = ext[i - 2][j];
            return F::cast(if counts { v.abs() } else { v });
        }
        let base = train[(i % m, j)];
        let v = if counts { base + ((i / m + j) % 3) as f64 } else { base + 0.35 * (g.next() - 0.5) * (1.0 + (i / m) as f64 * 0.01) };
        F::cast(v)
    })
}

pub struct LSpec<'s, F> {
    pub kind: &'static str,
    pub float: &'static str,
    pub eps: f64,
    /// largest finite value of the arithmetic that produces the float outputs: when the operand
    /// magnitude S of a row reaches it, an intermediate sum may overflow in one summation order and
    /// not in another; such cells are indeterminate (counted), not violations
    pub float_max: f64,
    pub scale: Box<dyn Fn(&[F], usize, f64) -> f64 + 's>,
}

impl<'s, F: Float> LSpec<'s, F> {
    pub fn new(kind: &'static str) -> Self {
        let f32_ = std::mem::size_of::<F>() == 4;
        LSpec { kind, float: if f32_ { "f32" } else { "f64" }, eps: if f32_ { f32::EPSILON as f64 } else { f64::EPSILON }, float_max: if f32_ { f32::MAX as f64 } else { f64::MAX }, scale: Box::new(|_, _, o| o.abs()) }
    }
}

fn row_vec<F: Float>(q: &Array2<F>, i: usize) -> Vec<F> {
    q.row(i).to_vec()
}

struct LRun<'r, 's, F> {
    sp: &'r LSpec<'s, F>,
    q: &'r Array2<F>,
    rep: &'r mut Rep,
}

impl<'r, 's, F: Float> LRun<'r, 's, F> {
    fn cj(&self, row: Option<usize>, layout: &str, form: &str, expected: Value, observed: Value) -> Value {
        let n = self.q.nrows();
        json!({
            "entry": self.sp.kind, "family": "large", "n": n, "float": self.sp.float, "instance": 0, "max_len": 0,
            "only": {"row": row, "layout": layout, "form": form},
            "row_values": row.map(|i| self.q.row(i).iter().map(|v| v.to_f64().unwrap()).collect::<Vec<f64>>()),
            "expected": expected, "observed": observed,
        })
    }

    /// first differing row between `got` and `want` (same shape), or None
    fn first_diff<T: OutT>(&mut self, got: &T, want: &T) -> Option<(usize, usize, Cell, Cell, f64)> {
        let p = self.q.ncols();
        let k = 2.0 * (p as f64 + 2.0);
        for i in 0..want.rows() {
            for j in 0..want.cols() {
                let (w, g) = (want.cell(i, j), got.cell(i, j));
                match (&w, &g) {
                    (Cell::F(a), Cell::F(b)) => {
                        self.rep.float_cells += 1;
                        if a.to_bits() == b.to_bits() || (a.is_nan() && b.is_nan()) {
                            self.rep.float_bit_identical += 1;
                            continue;
                        }
                        let sc = (self.sp.scale)(&row_vec(self.q, i), j, *a);
                        if !(sc < self.sp.float_max) && (!a.is_finite() || !b.is_finite()) {
                            self.rep.indeterminate += 1;
                            self.rep.bump("float_cells_overflow_order_dependent_indeterminate", 1);
                            continue;
                        }
                        let tol = k * self.sp.eps * sc;
                        let dev = (a - b).abs();
                        if dev.is_finite() && dev <= tol {
                            let r = dev / tol;
                            if r > self.rep.max_dev_in_tol_units {
                                self.rep.max_dev_in_tol_units = r;
                            }
                            continue;
                        }
                        return Some((i, j, w, g, tol));
                    }
                    _ => {
                        self.rep.label_cells += 1;
                        if w != g {
                            return Some((i, j, w, g, 0.0));
                        }
                    }
                }
            }
        }
        None
    }

    fn judge<T: OutT>(&mut self, layout: usize, form: &str, out: Result<T, String>, std: &T, base_ok: Option<bool>) -> bool {
        self.rep.evals += 1;
        self.rep.nontrivial += 1;
        self.rep.bump(&format!("large_calls_form_{}", form), 1);
        self.rep.bump(&format!("large_calls_layout_{}", LLAYOUTS[layout]), 1);
        let kind = self.sp.kind;
        let n = self.q.nrows();
        let out = match out {
            Ok(o) => o,
            Err(msg) => {
                let sig = if form == "ref_array" { format!("{}.layout_dependence.panic", kind) } else { format!("{}.{}.panic", kind, form) };
                let cj = self.cj(None, LLAYOUTS[layout], form, json!("a prediction"), json!({"panic": msg}));
                self.rep.push(Violation::new(sig, format!("{} ({}): {} batch of {} rows through form {} panicked: {}", kind, self.sp.float, LLAYOUTS[layout], n, form, msg), cj));
                return false;
            }
        };
        if out.shape_vec() != std.shape_vec() {
            let sig = format!("{}.{}.output_shape", kind, if form == "ref_array" { "predict" } else { form });
            let cj = self.cj(None, LLAYOUTS[layout], form, json!({"shape": std.shape_vec()}), json!({"shape": out.shape_vec()}));
            self.rep.push(Violation::new(sig, format!("{} ({}): {} batch of {} rows through form {}: output shape {:?}, expected {:?}", kind, self.sp.float, LLAYOUTS[layout], n, form, out.shape_vec(), std.shape_vec()), cj));
            return false;
        }
        match self.first_diff(&out, std) {
            None => true,
            Some((i, j, w, g, tol)) => {
                if form != "ref_array" && base_ok == Some(false) {
                    self.rep.suppressed_followups += 1;
                    return false;
                }
                let sig = if form == "ref_array" { format!("{}.layout_dependence", kind) } else { format!("{}.{}.differs_from_ref_array_form", kind, form) };
                let what = format!(
                    "{} ({}): batch of {} rows in layout {} through form {}: output row {} column {} = {:?}, the standard-layout borrowed-array form gives {:?} (float tolerance {:e})",
                    kind, self.sp.float, n, LLAYOUTS[layout], form, i, j, g, w, tol
                );
                let cj = self.cj(Some(i), LLAYOUTS[layout], form, w.json(), g.json());
                self.rep.push(Violation::new(sig, what, cj));
                false
            }
        }
    }

    fn records<FF: Float>(&mut self, layout: usize, form: &str, proto: &Array2<FF>, shape: &[usize], strides: &[isize], same_values: bool, same_ptr: Option<bool>) {
        self.rep.records_checks += 1;
        if !(shape == proto.shape() && strides == proto.strides() && same_values && same_ptr != Some(false)) {
            let cj = self.cj(None, LLAYOUTS[layout], &format!("{}#records", form), json!("input records"), json!({"shape": shape, "strides": strides}));
            self.rep.push(Violation::new(
                format!("{}.{}.records_not_handed_back_unchanged", self.sp.kind, form),
                format!("{} ({}): form {} on the {} batch handed back records with shape {:?} strides {:?} (input {:?} / {:?}), values equal: {}, same buffer: {:?}", self.sp.kind, self.sp.float, form, LLAYOUTS[layout], shape, strides, proto.shape(), proto.strides(), same_values, same_ptr),
                cj,
            ));
        }
    }
}

fn same_bits<F: Float>(a: &ArrayView2<F>, b: &Array2<F>) -> bool {
    a.dim() == b.dim() && a.iter().zip(b.iter()).all(|(x, y)| x.to_f64().unwrap().to_bits() == y.to_f64().unwrap().to_bits())
}

/// `rows_single`: the rows that are also predicted alone (1 x p, standard layout)
pub fn large_sweep<'a, F, T, MO, MV>(sp: &LSpec<F>, mo: &MO, mv: Option<&MV>, pr: &'a [Array2<F>], rows_single: &[usize], rep: &mut Rep)
where
    F: Float,
    T: OutT + AsTargets,
    MO: PredictInplace<Array2<F>, T>,
    MV: PredictInplace<ArrayView2<'a, F>, T>,
{
    let q = &pr[0];
    let (n, p) = q.dim();
    let kind = sp.kind;
    let mut run = LRun { sp, q, rep };
    run.rep.bump("large_batches", 1);
    run.rep.bump(&format!("large_batches_{}_n{}", sp.float, n), 1);

    // ---- the standard-layout answer ----
    let std: T = match guarded(|| Predict::<&Array2<F>, T>::predict(mo, q)) {
        Ok(o) => o,
        Err(msg) => {
            let cj = run.cj(None, "standard", "ref_array", json!("a prediction"), json!({"panic": msg}));
            run.rep.push(Violation::new(format!("{}.large_batch.panic", kind), format!("{} ({}): predicting a standard-layout batch of {} rows panicked: {}", kind, sp.float, n, msg), cj));
            return;
        }
    };
    run.rep.evals += 1;
    run.rep.nontrivial += 1;
    if std.rows() != n {
        let cj = run.cj(None, "standard", "ref_array", json!({"rows": n}), json!({"shape": std.shape_vec()}));
        run.rep.push(Violation::new(format!("{}.predict.output_shape", kind), format!("{} ({}): batch of {} rows gave an output of shape {:?}", kind, sp.float, n, std.shape_vec()), cj));
        return;
    }
    let distinct = (1..n).any(|i| (0..std.cols()).any(|j| std.cell(i, j) != std.cell(0, j)));
    run.rep.bump(if distinct { "large_batches_with_distinct_outputs" } else { "large_batches_with_constant_output" }, 1);

    // ---- row by row against the single-row answers ----
    let k = 2.0 * (p as f64 + 2.0);
    for &i in rows_single {
        run.rep.evals += 1;
        run.rep.nontrivial += 1;
        run.rep.bump("large_single_row_comparisons", 1);
        let x1 = Array2::from_shape_fn((1, p), |(_, j)| q[(i, j)]);
        let one: T = match guarded(|| Predict::<&Array2<F>, T>::predict(mo, &x1)) {
            Ok(o) if o.rows() == 1 => o,
            Ok(o) => {
                let cj = run.cj(Some(i), "standard", "single_row", json!({"rows": 1}), json!({"shape": o.shape_vec()}));
                run.rep.push(Violation::new(format!("{}.predict.output_shape", kind), format!("{} ({}): a single row gave shape {:?}", kind, sp.float, o.shape_vec()), cj));
                continue;
            }
            Err(msg) => {
                let cj = run.cj(Some(i), "standard", "single_row", json!("a prediction"), json!({"panic": msg}));
                run.rep.push(Violation::new(format!("{}.predict.panic", kind), format!("{} ({}): predicting row {} alone panicked: {}", kind, sp.float, i, msg), cj));
                continue;
            }
        };
        for j in 0..std.cols() {
            let (w, g) = (one.cell(0, j), std.cell(i, j));
            let ok = match (&w, &g) {
                (Cell::F(a), Cell::F(b)) => {
                    run.rep.float_cells += 1;
                    if a.to_bits() == b.to_bits() || (a.is_nan() && b.is_nan()) {
                        run.rep.float_bit_identical += 1;
                        true
                    } else {
                        let sc = (sp.scale)(&row_vec(q, i), j, *a);
                        let tol = k * sp.eps * sc;
                        let dev = (a - b).abs();
                        if !(sc < sp.float_max) && (!a.is_finite() || !b.is_finite()) {
                            run.rep.indeterminate += 1;
                            run.rep.bump("float_cells_overflow_order_dependent_indeterminate", 1);
                            true
                        } else if dev.is_finite() && dev <= tol {
                            if dev / tol > run.rep.max_dev_in_tol_units {
                                run.rep.max_dev_in_tol_units = dev / tol;
                            }
                            true
                        } else {
                            false
                        }
                    }
                }
                _ => {
                    run.rep.label_cells += 1;
                    w == g
                }
            };
            if !ok {
                let cj = run.cj(Some(i), "standard", "single_row", w.json(), g.json());
                run.rep.push(Violation::new(
                    format!("{}.large_batch.row_differs_from_single_row", kind),
                    format!("{} ({}): row {} of the standard-layout batch of {} rows: output column {} = {:?}, the same row predicted alone gives {:?}", kind, sp.float, i, n, j, g, w),
                    cj,
                ));
                break;
            }
        }
    }

    // ---- every layout through every form against the standard-layout answer ----
    for layout in 0..5 {
        let proto = &pr[layout];
        let r = guarded(|| Predict::<&Array2<F>, T>::predict(mo, proto));
        let base_ok = Some(run.judge(layout, "ref_array", r, &std, None));

        let x = proto.clone();
        match guarded(|| Predict::<Array2<F>, DatasetBase<Array2<F>, T>>::predict(mo, x)) {
            Ok(ds) => {
                let same = same_bits(&ds.records.view(), proto);
                run.records(layout, "owned_array", proto, ds.records.shape(), ds.records.strides(), same, None);
                run.judge(layout, "owned_array", Ok(ds.targets), &std, base_ok);
            }
            Err(m) => {
                run.judge::<T>(layout, "owned_array", Err(m), &std, base_ok);
            }
        }
        let tags: Array1<usize> = Array1::from_shape_fn(n, |i| i);
        let ds_in = DatasetBase::new(proto.clone(), tags.clone());
        let r = guarded(|| Predict::<&DatasetBase<Array2<F>, Array1<usize>>, T>::predict(mo, &ds_in));
        run.judge(layout, "ref_dataset", r, &std, base_ok);
        match guarded(|| Predict::<DatasetBase<Array2<F>, Array1<usize>>, DatasetBase<Array2<F>, T>>::predict(mo, ds_in)) {
            Ok(ds) => {
                let same = same_bits(&ds.records.view(), proto);
                run.records(layout, "owned_dataset", proto, ds.records.shape(), ds.records.strides(), same, None);
                run.judge(layout, "owned_dataset", Ok(ds.targets), &std, base_ok);
            }
            Err(m) => {
                run.judge::<T>(layout, "owned_dataset", Err(m), &std, base_ok);
            }
        }
        let r = guarded(|| {
            let mut y = mo.default_target(proto);
            mo.predict_inplace(proto, &mut y);
            y
        });
        run.judge(layout, "inplace", r, &std, base_ok);
        // in place into a target that holds the answer of the row-reversed batch
        let r = guarded(|| {
            let other = &pr[0].slice(ndarray::s![..;-1, ..]).to_owned();
            let mut y = mo.default_target(other);
            mo.predict_inplace(other, &mut y);
            mo.predict_inplace(proto, &mut y);
            y
        });
        run.judge(layout, "inplace_reused_target", r, &std, base_ok);
        for (k, form) in ["inplace_poisoned_target_a", "inplace_poisoned_target_b"].iter().enumerate() {
            let r = guarded(|| {
                let mut y = mo.default_target(proto);
                y.poison(k);
                mo.predict_inplace(proto, &mut y);
                y
            });
            run.judge(layout, form, r, &std, base_ok);
        }

        if let Some(mv) = mv {
            let view: ArrayView2<'a, F> = proto.view();
            match guarded(|| Predict::<ArrayView2<'a, F>, DatasetBase<ArrayView2<'a, F>, T>>::predict(mv, view)) {
                Ok(ds) => {
                    let same = same_bits(&ds.records, proto);
                    let ptr = ds.records.as_ptr() == proto.as_ptr();
                    run.records(layout, "view", proto, ds.records.shape(), ds.records.strides(), same, Some(ptr));
                    run.judge(layout, "view", Ok(ds.targets), &std, base_ok);
                }
                Err(m) => {
                    run.judge::<T>(layout, "view", Err(m), &std, base_ok);
                }
            }
            let view: ArrayView2<'a, F> = proto.view();
            let r = guarded(|| Predict::<&ArrayView2<'a, F>, T>::predict(mv, &view));
            run.judge(layout, "ref_view", r, &std, base_ok);
            let dsv = DatasetBase::new(proto.view(), tags.clone());
            let r = guarded(|| Predict::<&DatasetBase<ArrayView2<'a, F>, Array1<usize>>, T>::predict(mv, &dsv));
            run.judge(layout, "ref_dataset_of_view", r, &std, base_ok);
            let r = guarded(|| {
                let v = proto.view();
                let mut y = mv.default_target(&v);
                mv.predict_inplace(&v, &mut y);
                y
            });
            run.judge(layout, "inplace_view", r, &std, base_ok);
        }
    }
}

// =====================================================================================
// registry of the large family
// =====================================================================================
pub struct LArgs {
    pub n: usize,
    pub f32_: bool,
    /// rows compared with their single-row prediction
    pub all_rows_single: bool,
}

impl LArgs {
    fn rows(&self) -> Vec<usize> {
        if self.all_rows_single {
            (0..self.n).collect()
        } else {
            let mut v = vec![0, 1, 1023, 1024, self.n - 1];
            v.retain(|&i| i < self.n);
            v.dedup();
            v
        }
    }
    /// feature count for predictors whose inner product may be processed in blocks
    fn wide_p(&self) -> usize {
        if self.n > 2000 {
            33
        } else {
            17
        }
    }
}

pub struct LEntry {
    pub name: &'static str,
    pub f32_too: bool,
    pub run: fn(&LArgs, &mut Rep) -> Result<(), String>,
}

fn cast<F: Float>(a: &Array2<f64>) -> Array2<F> {
    a.mapv(F::cast)
}
fn v64<F: Float>(a: &Array1<F>) -> Vec<f64> {
    a.iter().map(|v| v.to_f64().unwrap()).collect()
}
fn lin_scale<'s, F: Float>(w: Vec<f64>, b: f64) -> Box<dyn Fn(&[F], usize, f64) -> f64 + 's> {
    Box::new(move |row, _c, o| row.iter().zip(w.iter()).map(|(x, w)| (x.to_f64().unwrap() * w).abs()).sum::<f64>() + b.abs() + o.abs())
}

macro_rules! dispatch {
    ($name:ident, $generic:ident) => {
        fn $name(a: &LArgs, rep: &mut Rep) -> Result<(), String> {
            if a.f32_ {
                $generic::<f32>(a, rep)
            } else {
                $generic::<f64>(a, rep)
            }
        }
    };
}

fn g_kmeans<F: Float>(a: &LArgs, rep: &mut Rep) -> Result<(), String> {
    use linfa_clustering::KMeans;
    let (x, _) = blobs(90, 3, 3, 601);
    let m = KMeans::params_with_rng(3, rng(7)).n_runs(2).max_n_iterations(20).fit(&Dataset::from(cast::<F>(&x))).map_err(e)?;
    let pr = protos(&queries::<F>(&x, a.n, 11, false));
    let sp = LSpec::<F>::new("kmeans");
    large_sweep::<F, Array1<usize>, _, _>(&sp, &m, Some(&m), &pr, &a.rows(), rep);
    Ok(())
}
dispatch!(l_kmeans, g_kmeans);

fn g_gmm<F: Float>(a: &LArgs, rep: &mut Rep) -> Result<(), String> {
    use linfa_clustering::GaussianMixtureModel;
    let (x, _) = blobs(150, 2, 3, 611);
    let m = GaussianMixtureModel::params_with_rng(3, rng(5)).n_runs(2).tolerance(F::cast(1e-4)).fit(&Dataset::from(cast::<F>(&x))).map_err(e)?;
    let pr = protos(&queries::<F>(&x, a.n, 12, false));
    let sp = LSpec::<F>::new("gmm");
    large_sweep::<F, Array1<usize>, _, _>(&sp, &m, Some(&m), &pr, &a.rows(), rep);
    Ok(())
}
dispatch!(l_gmm, g_gmm);

fn g_ols<F: Float>(a: &LArgs, rep: &mut Rep) -> Result<(), String>
where
    Array1<F>: OutT,
{
    use linfa_linear::LinearRegression;
    let p = a.wide_p();
    let (x, y) = regression(120, p, 1, 621);
    let ds = Dataset::new(cast::<F>(&x), y.column(0).mapv(F::cast));
    let m = LinearRegression::new().fit(&ds).map_err(e)?;
    let pr = protos(&queries::<F>(&x, a.n, 13, false));
    let mut sp = LSpec::<F>::new("ols");
    sp.scale = lin_scale(v64(m.params()), m.intercept().to_f64().unwrap());
    large_sweep::<F, Array1<F>, _, _>(&sp, &m, Some(&m), &pr, &a.rows(), rep);
    Ok(())
}
dispatch!(l_ols, g_ols);

fn g_elasticnet<F: Float>(a: &LArgs, rep: &mut Rep) -> Result<(), String>
where
    Array1<F>: OutT,
{
    use linfa_elasticnet::ElasticNet;
    let p = a.wide_p();
    let (x, y) = regression(120, p, 1, 631);
    let ds = Dataset::new(cast::<F>(&x), y.column(0).mapv(F::cast));
    let m = ElasticNet::params().penalty(F::cast(0.1)).l1_ratio(F::cast(0.5)).fit(&ds).map_err(e)?;
    let pr = protos(&queries::<F>(&x, a.n, 14, false));
    let mut sp = LSpec::<F>::new("elasticnet");
    sp.scale = lin_scale(v64(m.hyperplane()), m.intercept().to_f64().unwrap());
    large_sweep::<F, Array1<F>, _, _>(&sp, &m, Some(&m), &pr, &a.rows(), rep);
    Ok(())
}
dispatch!(l_elasticnet, g_elasticnet);

fn l_multitask_elasticnet(a: &LArgs, rep: &mut Rep) -> Result<(), String> {
    use linfa_elasticnet::MultiTaskElasticNet;
    let p = a.wide_p();
    let (x, y) = regression(120, p, 3, 641);
    let m = MultiTaskElasticNet::params().penalty(0.1).l1_ratio(0.5).fit(&Dataset::new(x.clone(), y)).map_err(e)?;
    let pr = protos(&queries::<f64>(&x, a.n, 15, false));
    let mut sp = LSpec::<f64>::new("multitask_elasticnet");
    let (w, b) = (m.hyperplane().clone(), m.intercept().to_vec());
    sp.scale = Box::new(move |row, c, o| row.iter().enumerate().map(|(j, v)| (v * w[(j, c)]).abs()).sum::<f64>() + b[c].abs() + o.abs());
    large_sweep::<f64, Array2<f64>, _, _>(&sp, &m, Some(&m), &pr, &a.rows(), rep);
    Ok(())
}

macro_rules! logit {
    ($name:ident, $t:ty) => {
        fn $name(a: &LArgs, rep: &mut Rep) -> Result<(), String> {
            use linfa_logistic::LogisticRegression;
            let p = a.wide_p();
            let (x, y) = blobs(160, p, 2, 651);
            let ds = Dataset::new(x.mapv(|v| v as $t), y.mapv(|c| c == 1));
            let m = LogisticRegression::default().alpha(0.5).max_iterations(200).fit(&ds).map_err(e)?;
            let pr = protos(&queries::<$t>(&x, a.n, 16, false));
            let sp = LSpec::<$t>::new("logistic_binary");
            large_sweep::<$t, Array1<bool>, _, _>(&sp, &m, Some(&m), &pr, &a.rows(), rep);
            Ok(())
        }
    };
}
logit!(logit64, f64);
logit!(logit32, f32);
fn l_logistic_binary(a: &LArgs, rep: &mut Rep) -> Result<(), String> {
    if a.f32_ {
        logit32(a, rep)
    } else {
        logit64(a, rep)
    }
}

fn l_logistic_multinomial(a: &LArgs, rep: &mut Rep) -> Result<(), String> {
    use linfa_logistic::MultiLogisticRegression;
    let p = a.wide_p();
    let (x, y) = blobs(150, p, 3, 661);
    let m = MultiLogisticRegression::default().alpha(0.5).max_iterations(200).fit(&Dataset::new(x.clone(), y)).map_err(e)?;
    let pr = protos(&queries::<f64>(&x, a.n, 17, false));
    let sp = LSpec::<f64>::new("logistic_multinomial");
    large_sweep::<f64, Array1<usize>, _, _>(&sp, &m, Some(&m), &pr, &a.rows(), rep);
    Ok(())
}

fn g_svm_bool<F: Float>(a: &LArgs, rep: &mut Rep) -> Result<(), String> {
    use linfa_svm::Svm;
    let (x, y) = blobs(80, 2, 2, 671);
    let ds = Dataset::new(cast::<F>(&x), y.mapv(|c| c == 1));
    let m = Svm::<F, bool>::params().gaussian_kernel(F::cast(2.0)).pos_neg_weights(F::cast(1.0), F::cast(2.0)).fit(&ds).map_err(e)?;
    let pr = protos(&queries::<F>(&x, a.n, 18, false));
    let sp = LSpec::<F>::new("svm_c_bool_gaussian");
    large_sweep::<F, Array1<bool>, _, _>(&sp, &m, Some(&m), &pr, &a.rows(), rep);
    Ok(())
}
dispatch!(l_svm_bool, g_svm_bool);

fn l_svm_probability(a: &LArgs, rep: &mut Rep) -> Result<(), String> {
    use linfa_svm::Svm;
    let (x, y) = blobs(80, 2, 2, 681);
    let m = Svm::<f64, Pr>::params().gaussian_kernel(2.0).fit(&Dataset::new(x.clone(), y.mapv(|c| c == 1))).map_err(e)?;
    let pr = protos(&queries::<f64>(&x, a.n, 19, false));
    let mut sp = LSpec::<f64>::new("svm_probability");
    sp.eps = f32::EPSILON as f64;
    sp.scale = Box::new(|_, _, _| 1.0);
    large_sweep::<f64, Array1<Pr>, _, _>(&sp, &m, Some(&m), &pr, &a.rows(), rep);
    Ok(())
}

macro_rules! svr {
    ($name:ident, $t:ty) => {
        fn $name(a: &LArgs, rep: &mut Rep) -> Result<(), String> {
            use linfa_svm::Svm;
            // the f32 solver converges slowly on wide data: 3 features there, 9 in f64
            let p = if std::mem::size_of::<$t>() == 4 { 3 } else { 9 };
            let (x, y) = regression(if p == 3 { 30 } else { 40 }, p, 1, 691);
            let ds = Dataset::new(x.mapv(|v| v as $t), y.column(0).mapv(|v| v as $t));
            let m = Svm::<$t, $t>::params().eps(if std::mem::size_of::<$t>() == 4 { 1e-2 } else { 1e-7 }).c_svr(0.1, Some(0.5)).linear_kernel().fit(&ds).map_err(e)?;
            let pr = protos(&queries::<$t>(&x, a.n, 20, false));
            let mut sp = LSpec::<$t>::new("svm_regression_linear");
            let wmax = (0..p)
                .map(|j| {
                    let mut r = Array1::<$t>::zeros(p);
                    r[j] = 1.0;
                    (m.weighted_sum(&r) as f64).abs()
                })
                .fold(0.0, f64::max);
            let rho = m.rho as f64;
            sp.scale = Box::new(move |row, _c, o| row.iter().map(|v| (*v as f64).abs()).sum::<f64>() * wmax + rho.abs() + o.abs());
            large_sweep::<$t, Array1<$t>, _, _>(&sp, &m, Some(&m), &pr, &a.rows(), rep);
            Ok(())
        }
    };
}
svr!(svr64, f64);
svr!(svr32, f32);
fn l_svm_regression(a: &LArgs, rep: &mut Rep) -> Result<(), String> {
    if a.f32_ {
        svr32(a, rep)
    } else {
        svr64(a, rep)
    }
}

fn g_tree<F: Float>(a: &LArgs, rep: &mut Rep) -> Result<(), String> {
    use linfa_trees::DecisionTree;
    let (x, y) = blobs(150, 3, 3, 701);
    let m = DecisionTree::params().max_depth(Some(5)).fit(&Dataset::new(cast::<F>(&x), y)).map_err(e)?;
    let pr = protos(&queries::<F>(&x, a.n, 21, false));
    let sp = LSpec::<F>::new("decision_tree");
    large_sweep::<F, Array1<usize>, _, _>(&sp, &m, Some(&m), &pr, &a.rows(), rep);
    Ok(())
}
dispatch!(l_tree, g_tree);

fn g_gnb<F: Float>(a: &LArgs, rep: &mut Rep) -> Result<(), String> {
    use linfa_bayes::GaussianNb;
    let (x, y) = blobs(150, 3, 3, 711);
    let m = GaussianNb::params().fit(&Dataset::new(cast::<F>(&x), y)).map_err(e)?;
    let pr = protos(&queries::<F>(&x, a.n, 22, false));
    let sp = LSpec::<F>::new("gaussian_nb");
    large_sweep::<F, Array1<usize>, _, _>(&sp, &m, Some(&m), &pr, &a.rows(), rep);
    Ok(())
}
dispatch!(l_gnb, g_gnb);

fn count_data(seed: u64) -> (Array2<f64>, Array1<usize>) {
    let mut g = Lcg(seed);
    let n = 60;
    let mut x = Array2::zeros((n, 3));
    let mut y = Array1::zeros(n);
    for i in 0..n {
        let c = i % 3;
        y[i] = c;
        for j in 0..3 {
            x[(i, j)] = (g.next() * if j == c { 6.0 } else { 2.5 }).floor();
        }
    }
    (x, y)
}

fn l_mnb(a: &LArgs, rep: &mut Rep) -> Result<(), String> {
    use linfa_bayes::MultinomialNb;
    let (x, y) = count_data(721);
    let m = MultinomialNb::params().fit(&Dataset::new(x.clone(), y)).map_err(e)?;
    let pr = protos(&queries::<f64>(&x, a.n, 23, true));
    let sp = LSpec::<f64>::new("multinomial_nb");
    large_sweep::<f64, Array1<usize>, _, _>(&sp, &m, Some(&m), &pr, &a.rows(), rep);
    Ok(())
}

fn l_ftrl(a: &LArgs, rep: &mut Rep) -> Result<(), String> {
    use linfa_ftrl::Ftrl;
    let p = a.wide_p();
    let (x, y) = blobs(200, p, 2, 731);
    let ds = Dataset::new(x.clone(), y.mapv(|c| c == 1));
    let params = Ftrl::params_with_rng(rng(3)).alpha(0.1).beta(1.0).l1_ratio(0.2).l2_ratio(0.3);
    let mut m = params.fit_with(None, &ds).map_err(e)?;
    m = params.fit_with(Some(m), &ds).map_err(e)?;
    let pr = protos(&queries::<f64>(&x, a.n, 24, false));
    let mut sp = LSpec::<f64>::new("ftrl");
    sp.eps = f32::EPSILON as f64;
    sp.scale = Box::new(|_, _, _| 1.0);
    large_sweep::<f64, Array1<Pr>, _, _>(&sp, &m, Some(&m), &pr, &a.rows(), rep);
    Ok(())
}

fn l_pca(a: &LArgs, rep: &mut Rep) -> Result<(), String> {
    use linfa_reduction::Pca;
    let p = a.wide_p();
    let (x, _) = blobs(120, p, 3, 741);
    let m = Pca::params(3).fit(&Dataset::from(x.clone())).map_err(e)?;
    let pr = protos(&queries::<f64>(&x, a.n, 25, false));
    let mut sp = LSpec::<f64>::new("pca");
    let (comp, mean) = (m.components().clone(), m.mean().to_vec());
    sp.scale = Box::new(move |row, c, o| row.iter().enumerate().map(|(j, v)| ((v.abs() + mean[j].abs()) * comp[(c, j)]).abs()).sum::<f64>() + o.abs());
    large_sweep::<f64, Array2<f64>, _, _>(&sp, &m, Some(&m), &pr, &a.rows(), rep);
    Ok(())
}

fn g_pls<F: Float>(a: &LArgs, rep: &mut Rep) -> Result<(), String>
where
    Array2<F>: OutT,
{
    let (x, y) = regression(60, 4, 2, 751);
    let m = linfa_pls::PlsRegression::<F>::params(2).fit(&Dataset::new(cast::<F>(&x), cast::<F>(&y))).map_err(e)?;
    let pr = protos(&queries::<F>(&x, a.n, 26, false));
    let mut sp = LSpec::<F>::new("pls_regression");
    let n = x.nrows() as f64;
    let mean: Vec<f64> = (0..4).map(|j| x.column(j).sum() / n).collect();
    let std: Vec<f64> = (0..4).map(|j| (x.column(j).iter().map(|v| (v - mean[j]).powi(2)).sum::<f64>() / (n - 1.0)).sqrt()).collect();
    let coef = m.coefficients().mapv(|v| v.to_f64().unwrap());
    sp.scale = Box::new(move |row, c, o| row.iter().enumerate().map(|(j, v)| ((v.to_f64().unwrap().abs() + mean[j].abs()) / std[j] * coef[(j, c)]).abs()).sum::<f64>() + o.abs());
    large_sweep::<F, Array2<F>, _, _>(&sp, &m, Some(&m), &pr, &a.rows(), rep);
    Ok(())
}
dispatch!(l_pls, g_pls);

fn l_tweedie(a: &LArgs, rep: &mut Rep) -> Result<(), String> {
    use linfa_linear::TweedieRegressor;
    let (x, y) = regression(80, 2, 1, 761);
    let ypos = y.column(0).mapv(|v| (v * 0.2).exp());
    let m = TweedieRegressor::params().power(1.0).alpha(0.1).fit(&Dataset::new(x.clone(), ypos)).map_err(e)?;
    let pr = protos(&queries::<f64>(&x, a.n, 27, false));
    let mut sp = LSpec::<f64>::new("tweedie");
    let (w, b) = (m.coef.to_vec(), m.intercept);
    sp.scale = Box::new(move |row, _c, o| (row.iter().zip(w.iter()).map(|(x, w)| (x * w).abs()).sum::<f64>() + b.abs()) * o.abs().max(1.0));
    large_sweep::<f64, Array1<f64>, _, _>(&sp, &m, Some(&m), &pr, &a.rows(), rep);
    Ok(())
}

fn l_isotonic(a: &LArgs, rep: &mut Rep) -> Result<(), String> {
    use linfa_linear::IsotonicRegression;
    let (x, _) = regression(60, 1, 1, 771);
    let mut xs: Vec<f64> = x.iter().cloned().collect();
    xs.sort_by(|a, b| a.partial_cmp(b).unwrap());
    let x = Array2::from_shape_vec((xs.len(), 1), xs).unwrap();
    let mut g = Lcg(977);
    let yv: Array1<f64> = x.column(0).mapv(|v| 0.8 * v + 0.3 * g.normalish());
    let m = IsotonicRegression::new().fit(&Dataset::new(x.clone(), yv)).map_err(e)?;
    let pr = protos(&queries::<f64>(&x, a.n, 28, false));
    let sp = LSpec::<f64>::new("isotonic");
    large_sweep::<f64, Array1<f64>, _, _>(&sp, &m, Some(&m), &pr, &a.rows(), rep);
    Ok(())
}

fn l_multi_target(a: &LArgs, rep: &mut Rep) -> Result<(), String> {
    use linfa::composing::MultiTargetModel;
    use linfa_elasticnet::ElasticNet;
    use linfa_linear::LinearRegression;
    let (x, y) = regression(60, 3, 3, 781);
    let col = |c: usize| Dataset::new(x.clone(), y.column(c).to_owned());
    let ols = LinearRegression::new().fit(&col(0)).map_err(e)?;
    let en = ElasticNet::params().penalty(0.2).l1_ratio(0.5).fit(&col(1)).map_err(e)?;
    let en2 = ElasticNet::params().penalty(0.05).l1_ratio(0.9).fit(&col(2)).map_err(e)?;
    let pr = protos(&queries::<f64>(&x, a.n, 29, false));
    let mo: MultiTargetModel<Array2<f64>, f64> = MultiTargetModel::new(vec![Box::new(ols.clone()), Box::new(en.clone()), Box::new(en2.clone())]);
    let mv: MultiTargetModel<ArrayView2<f64>, f64> = MultiTargetModel::new(vec![Box::new(ols.clone()), Box::new(en.clone()), Box::new(en2.clone())]);
    let mut sp = LSpec::<f64>::new("multi_target_model");
    let wmax = ols.params().iter().chain(en.hyperplane().iter()).chain(en2.hyperplane().iter()).fold(0.0f64, |m, v| m.max(v.abs()));
    let bmax = ols.intercept().abs().max(en.intercept().abs()).max(en2.intercept().abs());
    sp.scale = Box::new(move |row, _c, o| row.iter().map(|v| v.abs()).sum::<f64>() * wmax + bmax + o.abs());
    large_sweep::<f64, Array2<f64>, _, _>(&sp, &mo, Some(&mv), &pr, &a.rows(), rep);
    Ok(())
}

fn l_multi_class(a: &LArgs, rep: &mut Rep) -> Result<(), String> {
    use linfa::composing::MultiClassModel;
    use linfa_svm::Svm;
    let (x, y) = blobs(90, 2, 3, 791);
    let ds = Dataset::new(x.clone(), y.mapv(|c| 10 * (c + 1)));
    let params = Svm::<f64, Pr>::params().gaussian_kernel(3.0);
    let mut members: Vec<(usize, Svm<f64, Pr>)> = Vec::new();
    for (l, d) in ds.one_vs_all().map_err(e)? {
        members.push((l, params.fit(&d).map_err(e)?));
    }
    members.sort_by_key(|m| m.0);
    let pr = protos(&queries::<f64>(&x, a.n, 30, false));
    let mo: MultiClassModel<Array2<f64>, usize> = members.clone().into_iter().collect();
    let mv: MultiClassModel<ArrayView2<f64>, usize> = members.clone().into_iter().collect();
    let sp = LSpec::<f64>::new("multi_class_model");
    large_sweep::<f64, Array1<usize>, _, _>(&sp, &mo, Some(&mv), &pr, &a.rows(), rep);
    Ok(())
}

fn l_platt(a: &LArgs, rep: &mut Rep) -> Result<(), String> {
    use linfa::composing::platt_scaling::Platt;
    use linfa_svm::Svm;
    let (x, y) = blobs(80, 2, 2, 801);
    let reg = Dataset::new(x.clone(), y.mapv(|c| if c == 1 { 1.0 } else { -1.0 }));
    let inner = Svm::<f64, f64>::params().c_svr(1.0, Some(0.1)).gaussian_kernel(2.0).fit(&reg).map_err(e)?;
    let m: Platt<f64, _> = Platt::params().fit_with(inner, &Dataset::new(x.clone(), y.mapv(|c| c == 1))).map_err(e)?;
    let pr = protos(&queries::<f64>(&x, a.n, 31, false));
    let mut sp = LSpec::<f64>::new("platt_svm");
    sp.eps = f32::EPSILON as f64;
    sp.scale = Box::new(|_, _, _| 1.0);
    large_sweep::<f64, Array1<Pr>, _, NoView<Array1<Pr>>>(&sp, &m, None, &pr, &a.rows(), rep);
    Ok(())
}

pub fn large_registry() -> Vec<LEntry> {
    macro_rules! ent {
        ($(($n:expr, $f32:expr, $f:ident)),* $(,)?) => { vec![$(LEntry { name: $n, f32_too: $f32, run: $f }),*] };
    }
    ent![
        ("kmeans", true, l_kmeans),
        ("gmm", false, l_gmm),
        ("ols", true, l_ols),
        ("elasticnet", true, l_elasticnet),
        ("multitask_elasticnet", false, l_multitask_elasticnet),
        ("logistic_binary", true, l_logistic_binary),
        ("logistic_multinomial", false, l_logistic_multinomial),
        ("svm_c_bool_gaussian", true, l_svm_bool),
        ("svm_probability", false, l_svm_probability),
        ("svm_regression_linear", true, l_svm_regression),
        ("decision_tree", true, l_tree),
        ("gaussian_nb", true, l_gnb),
        ("multinomial_nb", false, l_mnb),
        ("ftrl", false, l_ftrl),
        ("pca", false, l_pca),
        ("pls_regression", true, l_pls),
        ("tweedie", false, l_tweedie),
        ("isotonic", false, l_isotonic),
        ("multi_target_model", false, l_multi_target),
        ("multi_class_model", false, l_multi_class),
        ("platt_svm", false, l_platt),
    ]
}

// =====================================================================================
// fit-side layouts: the TRAINING records in the five layouts (owned arrays and views)
// =====================================================================================
pub struct FEntry {
    pub name: &'static str,
    pub run: fn(&mut Rep) -> Result<(), String>,
}

/// Predictions (as rows of f64 / label cells) of the model fitted on each layout of the training
/// records, on a fixed 6-row query batch, compared with the standard-layout owned fit:
/// labels exactly, floats within 1e-9 * S (DESIGN 3.6: floats against a reference computed along a
/// different arithmetic path), bit-identical counted.
fn fit_compare(kind: &'static str, rep: &mut Rep, float: &str, results: Vec<(String, Result<Vec<Vec<Cell>>, String>)>, scale: &dyn Fn(usize, usize, f64) -> f64) {
    let std = match &results[0].1 {
        Ok(r) => r.clone(),
        Err(msg) => {
            rep.push(Violation::new(format!("{}.fit.panic", kind), format!("{} ({}): fitting on standard-layout records failed: {}", kind, float, msg), json!({"entry": kind, "family": "fit_layout", "float": float, "instance": 0, "max_len": 0, "only": {"layout": results[0].0}})));
            return;
        }
    };
    for (lname, r) in results.iter().skip(1) {
        rep.evals += 1;
        rep.nontrivial += 1;
        rep.bump("fit_layout_fits_compared", 1);
        let only = json!({"layout": lname});
        let cj = |expected: Value, observed: Value| json!({"entry": kind, "family": "fit_layout", "float": float, "instance": 0, "max_len": 0, "only": only, "expected": expected, "observed": observed});
        match r {
            Err(msg) => {
                if msg.contains("contiguous") {
                    rep.bump("fit_layout_documented_contiguity_panics", 1);
                    continue;
                }
                rep.push(Violation::new(format!("{}.fit.layout_dependence.panic", kind), format!("{} ({}): fitting on {} training records failed / panicked: {}", kind, float, lname, msg), cj(json!("a model"), json!({"panic": msg}))));
            }
            Ok(rows) => {
                'cmp: for (i, (wr, gr)) in std.iter().zip(rows.iter()).enumerate() {
                    for (j, (w, g)) in wr.iter().zip(gr.iter()).enumerate() {
                        let ok = match (w, g) {
                            (Cell::F(a), Cell::F(b)) => {
                                rep.float_cells += 1;
                                if a.to_bits() == b.to_bits() {
                                    rep.float_bit_identical += 1;
                                    rep.bump("fit_layout_float_cells_bit_identical", 1);
                                    true
                                } else {
                                    rep.bump("fit_layout_float_cells_within_tolerance_not_identical", 1);
                                    (a - b).abs() <= 1e-9 * scale(i, j, *a) * if float == "f32" { 1e5 } else { 1.0 }
                                }
                            }
                            _ => {
                                rep.label_cells += 1;
                                w == g
                            }
                        };
                        if !ok {
                            rep.push(Violation::new(
                                format!("{}.fit.layout_dependence", kind),
                                format!("{} ({}): model fitted on {} training records predicts {:?} for query row {} column {}, the model fitted on the standard-layout records predicts {:?}", kind, float, lname, g, i, j, w),
                                cj(w.json(), g.json()),
                            ));
                            break 'cmp;
                        }
                    }
                }
            }
        }
    }
}

fn cells<T: OutT>(t: &T) -> Vec<Vec<Cell>> {
    (0..t.rows()).map(|i| (0..t.cols()).map(|j| t.cell(i, j)).collect()).collect()
}

/// runs `fit_owned` on the five owned layouts and `fit_view` on views of them
fn fit_layouts<F: Float>(
    x: &Array2<F>,
    fit_owned: &dyn Fn(Array2<F>) -> Result<Vec<Vec<Cell>>, String>,
    fit_view: &dyn Fn(ArrayView2<F>) -> Result<Vec<Vec<Cell>>, String>,
) -> Vec<(String, Result<Vec<Vec<Cell>>, String>)> {
    let pr = protos(x);
    let mut out = Vec::new();
    for (l, p) in pr.iter().enumerate() {
        let r = guarded(|| fit_owned(p.clone())).unwrap_or_else(|m| Err(format!("panic: {}", m)));
        out.push((format!("owned:{}", LLAYOUTS[l]), r));
    }
    for (l, p) in pr.iter().enumerate() {
        let r = guarded(|| fit_view(p.view())).unwrap_or_else(|m| Err(format!("panic: {}", m)));
        out.push((format!("view:{}", LLAYOUTS[l]), r));
    }
    out
}

fn query6(x: &Array2<f64>) -> Array2<f64> {
    let pool = crate::registry::pool_from(x, crate::registry::extreme(x.ncols()).iter().map(|v| v * 0.02).collect());
    Array2::from_shape_fn((6, x.ncols()), |(i, j)| pool[i][j])
}

fn f_ols<F: Float>(rep: &mut Rep) -> Result<(), String>
where
    Array1<F>: OutT,
{
    use linfa_linear::LinearRegression;
    let (x, y) = regression(130, 17, 1, 821);
    let (xf, yf): (Array2<F>, Array1<F>) = (cast(&x), y.column(0).mapv(F::cast));
    let q: Array2<F> = cast(&query6(&x));
    let owned = |r: Array2<F>| -> Result<Vec<Vec<Cell>>, String> { Ok(cells(&LinearRegression::new().fit(&Dataset::new(r, yf.clone())).map_err(e)?.predict(&q))) };
    let view = |r: ArrayView2<F>| -> Result<Vec<Vec<Cell>>, String> { Ok(cells(&LinearRegression::new().fit(&DatasetBase::new(r, yf.view())).map_err(e)?.predict(&q))) };
    let res = fit_layouts(&xf, &owned, &view);
    let f32_ = std::mem::size_of::<F>() == 4;
    let qs = query6(&x);
    let scale = move |i: usize, _j: usize, o: f64| qs.row(i).iter().map(|v| v.abs()).sum::<f64>() + o.abs() + 1.0;
    fit_compare("ols", rep, if f32_ { "f32" } else { "f64" }, res, &scale);
    Ok(())
}
fn f_ols64(rep: &mut Rep) -> Result<(), String> {
    f_ols::<f64>(rep)
}
fn f_ols32(rep: &mut Rep) -> Result<(), String> {
    f_ols::<f32>(rep)
}

fn f_gnb(rep: &mut Rep) -> Result<(), String> {
    use linfa_bayes::GaussianNb;
    let (x, y) = blobs(150, 3, 3, 831);
    let q = query6(&x);
    let owned = |r: Array2<f64>| -> Result<Vec<Vec<Cell>>, String> { Ok(cells(&GaussianNb::params().fit(&Dataset::new(r, y.clone())).map_err(e)?.predict(&q))) };
    let view = |r: ArrayView2<f64>| -> Result<Vec<Vec<Cell>>, String> { Ok(cells(&GaussianNb::params().fit(&DatasetBase::new(r, y.view())).map_err(e)?.predict(&q))) };
    fit_compare("gaussian_nb", rep, "f64", fit_layouts(&x, &owned, &view), &|_, _, _| 1.0);
    Ok(())
}

fn f_mnb(rep: &mut Rep) -> Result<(), String> {
    use linfa_bayes::MultinomialNb;
    let (x, y) = count_data(841);
    let q = Array2::from_shape_fn((6, 3), |(i, j)| x[(i * 7 % 60, j)] + ((i + j) % 2) as f64);
    let owned = |r: Array2<f64>| -> Result<Vec<Vec<Cell>>, String> { Ok(cells(&MultinomialNb::params().fit(&Dataset::new(r, y.clone())).map_err(e)?.predict(&q))) };
    let view = |r: ArrayView2<f64>| -> Result<Vec<Vec<Cell>>, String> { Ok(cells(&MultinomialNb::params().fit(&DatasetBase::new(r, y.view())).map_err(e)?.predict(&q))) };
    fit_compare("multinomial_nb", rep, "f64", fit_layouts(&x, &owned, &view), &|_, _, _| 1.0);
    Ok(())
}

fn f_tree<F: Float>(rep: &mut Rep) -> Result<(), String> {
    use linfa_trees::DecisionTree;
    let (x, y) = blobs(150, 3, 3, 851);
    let xf: Array2<F> = cast(&x);
    let q: Array2<F> = cast(&query6(&x));
    let owned = |r: Array2<F>| -> Result<Vec<Vec<Cell>>, String> { Ok(cells(&DecisionTree::params().max_depth(Some(5)).fit(&Dataset::new(r, y.clone())).map_err(e)?.predict(&q))) };
    let view = |r: ArrayView2<F>| -> Result<Vec<Vec<Cell>>, String> { Ok(cells(&DecisionTree::params().max_depth(Some(5)).fit(&DatasetBase::new(r, y.view())).map_err(e)?.predict(&q))) };
    fit_compare("decision_tree", rep, if std::mem::size_of::<F>() == 4 { "f32" } else { "f64" }, fit_layouts(&xf, &owned, &view), &|_, _, _| 1.0);
    Ok(())
}
fn f_tree64(rep: &mut Rep) -> Result<(), String> {
    f_tree::<f64>(rep)
}
fn f_tree32(rep: &mut Rep) -> Result<(), String> {
    f_tree::<f32>(rep)
}

fn f_kmeans(rep: &mut Rep) -> Result<(), String> {
    use linfa_clustering::{KMeans, KMeansInit};
    let (x, _) = blobs(1025, 3, 3, 861);
    let q = query6(&x);
    let init = Array2::from_shape_fn((3, 3), |(i, j)| x[(i, j)]);
    let owned = |r: Array2<f64>| -> Result<Vec<Vec<Cell>>, String> {
        let m = KMeans::params_with_rng(3, rng(7)).init_method(KMeansInit::Precomputed(init.clone())).n_runs(1).max_n_iterations(8).fit(&Dataset::from(r)).map_err(e)?;
        let mut c = cells(&m.predict(&q));
        c.extend(m.centroids().rows().into_iter().map(|r| r.iter().map(|v| Cell::F(*v)).collect::<Vec<_>>()));
        Ok(c)
    };
    let view = |r: ArrayView2<f64>| -> Result<Vec<Vec<Cell>>, String> {
        let m = KMeans::params_with_rng(3, rng(7)).init_method(KMeansInit::Precomputed(init.clone())).n_runs(1).max_n_iterations(8).fit(&DatasetBase::from(r)).map_err(e)?;
        let mut c = cells(&m.predict(&q));
        c.extend(m.centroids().rows().into_iter().map(|r| r.iter().map(|v| Cell::F(*v)).collect::<Vec<_>>()));
        Ok(c)
    };
    fit_compare("kmeans", rep, "f64", fit_layouts(&x, &owned, &view), &|_, _, o| o.abs() + 10.0);
    Ok(())
}

fn f_pls(rep: &mut Rep) -> Result<(), String> {
    let (x, y) = regression(60, 4, 2, 871);
    let q = query6(&x);
    let owned = |r: Array2<f64>| -> Result<Vec<Vec<Cell>>, String> { Ok(cells(&linfa_pls::PlsRegression::<f64>::params(2).fit(&Dataset::new(r, y.clone())).map_err(e)?.predict(&q))) };
    let view = |r: ArrayView2<f64>| -> Result<Vec<Vec<Cell>>, String> { Ok(cells(&linfa_pls::PlsRegression::<f64>::params(2).fit(&DatasetBase::new(r.view(), y.view())).map_err(e)?.predict(&q))) };
    let qs = q.clone();
    fit_compare("pls_regression", rep, "f64", fit_layouts(&x, &owned, &view), &move |i, _, o| qs.row(i).iter().map(|v| v.abs()).sum::<f64>() * 5.0 + o.abs() + 1.0);
    Ok(())
}

fn f_pca(rep: &mut Rep) -> Result<(), String> {
    use linfa_reduction::Pca;
    let (x, _) = blobs(120, 9, 3, 881);
    let q = query6(&x);
    // the sign of a principal axis is not defined: compare absolute values of the projections
    let abs = |t: Array2<f64>| -> Vec<Vec<Cell>> { cells(&t.mapv(f64::abs)) };
    let owned = |r: Array2<f64>| -> Result<Vec<Vec<Cell>>, String> { Ok(abs(Pca::params(3).fit(&Dataset::from(r)).map_err(e)?.predict(&q))) };
    let view = |r: ArrayView2<f64>| -> Result<Vec<Vec<Cell>>, String> { Ok(abs(Pca::params(3).fit(&DatasetBase::from(r)).map_err(e)?.predict(&q))) };
    let qs = q.clone();
    fit_compare("pca", rep, "f64", fit_layouts(&x, &owned, &view), &move |i, _, o| qs.row(i).iter().map(|v| v.abs()).sum::<f64>() + o.abs() + 10.0);
    Ok(())
}

#[allow(dead_code)]
fn unused(_: ArrayView1<f64>) {}

pub fn fit_registry() -> Vec<FEntry> {
    vec![
        FEntry { name: "ols", run: f_ols64 },
        FEntry { name: "ols_f32", run: f_ols32 },
        FEntry { name: "gaussian_nb", run: f_gnb },
        FEntry { name: "multinomial_nb", run: f_mnb },
        FEntry { name: "decision_tree", run: f_tree64 },
        FEntry { name: "decision_tree_f32", run: f_tree32 },
        FEntry { name: "kmeans", run: f_kmeans },
        FEntry { name: "pls_regression", run: f_pls },
        FEntry { name: "pca", run: f_pca },
    ]
}
