//! C14 — decision trees are well-formed, honour their limits and predict leaf majorities.
//!
//! Exhaustive sweep (DESIGN.md §4 C14): every dataset of the enumerated families (all value
//! sequences over a tiny alphabet x all labelings up to renaming) x label type x float type x
//! sample weights x the full hyper-parameter grid. The fitted tree is walked through its public
//! API; every training row is routed top-down with the documented rule (`feature <= split value`
//! goes left) by the harness, which yields the sample set of every node, and everything the
//! property states is recomputed from those sets in f64 (no linfa code in the oracle).
//!
//! Two pieces of machinery keep `run_case` a pure, replayable function of the case:
//! * Hash-map iteration order (leaf-majority ties, impurity summation order inside linfa-trees) is a
//!   controlled input: the binary overrides libc's `getrandom` (std reads the SipHash keys of
//!   `RandomState` through it) and every case runs on a fresh thread whose keys derive from the
//!   case's `hash_seed`. The oracle accepts any weighted mode / any summation order anyway.
//! * The subject runs in worker processes (this binary with `--c14-worker`, one per harness
//!   thread, fed one case per line): `TreeNode::fit` can recurse without end, and the stack overflow
//!   that follows aborts the process - `catch_unwind` cannot contain it. A worker that dies names
//!   the configuration it was running (SIGABRT handler); that is a violation, and the case is run
//!   again without that configuration.
//!
//! Development aids (environment): C14_FAMILY=<substring> restricts the sweep (marked
//! non-exhaustive), C14_TRACE=1 prints every fit, C14_UNGUARDED=1 skips the bounded pre-fit before
//! unbounded fits (to watch the real stack overflow from a replay file).

use std::cell::Cell;
use std::collections::VecDeque;
use std::hash::BuildHasher;
use std::sync::Mutex;

use linfa::traits::{Fit, Predict};
use linfa::{Dataset, Float, Label};
use linfa_trees::{DecisionTree, SplitQuality, TreeNode};
use lvmc_core::enumerate as en;
use lvmc_core::{guarded, json, par_sweep, Ctx, Level, Value, Violation};
use ndarray::{Array1, Array2};
use serde::{Deserialize, Serialize};

// ------------------------------------------------------------------------------------------
// controlled hash seeds
// ------------------------------------------------------------------------------------------

thread_local!(static HASH_SEED: Cell<u64> = const { Cell::new(0) });

/// Overrides libc `getrandom` for this binary: a fixed byte stream derived from the calling
/// thread's `HASH_SEED`. std asks once per thread (lazily, at the first `RandomState::new()`).
///
/// # Safety
/// `buf` must be valid for `len` bytes (the libc contract).
#[no_mangle]
pub unsafe extern "C" fn getrandom(buf: *mut u8, len: usize, _flags: u32) -> isize {
    let mut s = HASH_SEED.with(|s| s.get()).wrapping_mul(0x2545_F491_4F6C_DD1D).wrapping_add(0x0123_4567);
    for i in 0..len {
        s = s.wrapping_add(0x9E37_79B9_7F4A_7C15);
        let mut z = s;
        z = (z ^ (z >> 30)).wrapping_mul(0xBF58_476D_1CE4_E5B9);
        z = (z ^ (z >> 27)).wrapping_mul(0x94D0_49BB_1331_11EB);
        z ^= z >> 31;
        *buf.add(i) = z as u8;
    }
    len as isize
}

fn on_fresh_thread<T: Send>(seed: u64, f: impl FnOnce() -> T + Send) -> T {
    std::thread::scope(|s| {
        let h = std::thread::Builder::new()
            .stack_size(1 << 20)
            .spawn_scoped(s, move || {
                HASH_SEED.with(|c| c.set(seed));
                f()
            })
            .expect("spawn");
        match h.join() {
            Ok(v) => v,
            Err(e) => std::panic::resume_unwind(e),
        }
    })
}

/// The seam must really control `RandomState`: same seed => same keys, other seed => other keys.
fn hash_control_works() -> bool {
    let probe = |seed| on_fresh_thread(seed, || std::collections::hash_map::RandomState::new().hash_one(0xC14u32));
    let (a, b, c) = (probe(5), probe(5), probe(6));
    a == b && a != c
}

// ------------------------------------------------------------------------------------------
// cases
// ------------------------------------------------------------------------------------------

#[derive(Clone, Debug, Serialize, Deserialize, PartialEq)]
struct Config {
    criterion: String, // "gini" | "entropy"
    max_depth: Option<usize>,
    min_weight_split: f32,
    min_weight_leaf: f32,
    min_impurity_decrease: f64,
}

#[derive(Clone, Debug, Serialize, Deserialize)]
struct Case {
    family: String,
    float: String,      // "f32" | "f64"
    label_type: String, // "usize" | "bool" | "string"
    /// n rows x d features (literal values; rounded to the float type before use)
    x: Vec<Vec<f64>>,
    /// the same values as IEEE-754 bit patterns: serde_json's default float parsing is only
    /// "best effort" for 17-digit decimals, and one ulp matters in the adjacency families; when
    /// present these are authoritative
    #[serde(default)]
    x_bits: Vec<Vec<u64>>,
    /// class index of every row (usize: the index itself, bool: index == 1, string: "a".."f")
    y: Vec<usize>,
    weights: Option<Vec<f32>>,
    hash_seed: u64,
    /// also fit every configuration on a column-major copy and on a transposed view of the records
    #[serde(default)]
    layouts: bool,
    /// also build every configuration through all 120 orders of the five setters, plain and with
    /// decoy writes first
    #[serde(default)]
    builder_orders: bool,
    /// every configuration is fitted, in this order, on one fresh thread
    configs: Vec<Config>,
}

impl Case {
    fn exact(mut self) -> Case {
        if !self.x_bits.is_empty() {
            self.x = self.x_bits.iter().map(|r| r.iter().map(|&b| f64::from_bits(b)).collect()).collect();
        } else {
            self.x_bits = self.x.iter().map(|r| r.iter().map(|v| v.to_bits()).collect()).collect();
        }
        self
    }
}

/// A violation before the (bulky) case is attached; crosses the child-process boundary.
#[derive(Clone, Debug, Serialize, Deserialize)]
struct RawViol {
    sig: String,
    what: String,
    at: Value,
}

enum Event {
    Start(usize),
    Done(Vec<RawViol>, Stats),
}

/// In-memory form of a case (the grid is shared); expanded to a self-contained `Case` when run.
#[derive(Clone, Debug)]
struct Lite {
    family: &'static str,
    float: &'static str,
    label_type: &'static str,
    alphabet: std::sync::Arc<Vec<Vec<f64>>>,
    xi: Vec<u8>, // row i = alphabet[xi[i]]
    y: Vec<u8>,
    weights: u8, // 0 none, 1 alternating 1,2,1,2.., 2 all 0.5, 3 cycling 501,499,499,501, 4..7 with exact zeros
    grid: u8,    // 0 full, 1 small, 2 / 3 weak-split (f64 / f32)
    hash_seed: u64,
    layouts: bool,
    builder_orders: bool,
}

fn grid(kind: u8, weights: u8) -> Vec<Config> {
    let crits = ["gini", "entropy"];
    let (depths, mws, mids): (Vec<Option<usize>>, Vec<f32>, Vec<f64>) = if kind == 0 {
        (vec![None, Some(0), Some(1), Some(2)], vec![1.0, 2.0, 2.5, 3.0, 3.5], vec![1e-5, 0.1, 0.3])
    } else if kind == 4 {
        // grid for the 1025 / 4097 row datasets: limits of the order of the node sizes
        (vec![None, Some(1), Some(2)], vec![2.0, 600.5, 1100.0], vec![1e-5, 0.1])
    } else if kind >= 2 {
        // weak-split grid: min_impurity_decrease far below the default 1e-5 (f32 parameters must be
        // >= f32::EPSILON, hence 2e-7 there), so that splits with a decrease of ~2e-6 are accepted
        (vec![None, Some(1), Some(2)], vec![1.0, 2.0, 2.5], vec![if kind == 2 { 1e-9 } else { 2e-7 }, 1e-5, 0.1])
    } else {
        (vec![None, Some(1), Some(2)], vec![1.0, 2.0, 2.5], vec![1e-5, 0.1])
    };
    // with all weights 0.5 a leaf weight of 2 needs 4 rows per side: use {0.5, 1} there
    // with weights around 500 per row: 1 = always met, 600 = two rows per side, 1001 = three
    let mwl: Vec<f32> = if kind == 4 {
        vec![1.0, 300.0, 1500.0]
    } else if weights == 2 {
        vec![0.5, 1.0]
    } else if weights == 3 {
        vec![1.0, 600.0, 1001.0]
    } else {
        vec![1.0, 2.0]
    };
    let mut out = Vec::new();
    for c in crits {
        for &dp in &depths {
            for &s in &mws {
                for &l in &mwl {
                    for &m in &mids {
                        out.push(Config { criterion: c.into(), max_depth: dp, min_weight_split: s, min_weight_leaf: l, min_impurity_decrease: m });
                    }
                }
            }
        }
    }
    out
}

fn expand(l: &Lite, with_configs: bool) -> Case {
    let n = l.xi.len();
    let weights = match l.weights {
        0 => None,
        1 => Some((0..n).map(|i| 1.0 + (i % 2) as f32).collect()),
        2 => Some(vec![0.5; n]),
        // nearly balanced heavy weights: nodes like 501:499 against 499:501 (Gini decrease ~2e-6)
        3 => Some((0..n).map(|i| [501.0f32, 499.0, 499.0, 501.0][i % 4]).collect()),
        // exact zeros: a zero-weight sample is still a row (routing, min_weight_split's row count) but
        // adds nothing to any class weight
        4 => Some((0..n).map(|i| if i == 0 { 0.0 } else { 1.0 }).collect()), // one zero
        5 => Some((0..n).map(|i| if l.y[i] == 0 { 0.0 } else { 1.0 }).collect()), // the whole class of row 0 at zero
        6 => Some((0..n).map(|i| if i == n / 2 { 1.0 } else { 0.0 }).collect()), // all but one sample at zero
        _ => Some((0..n).map(|i| (i % 2) as f32).collect()), // alternating 0 / 1
    };
    Case {
        family: l.family.into(),
        float: l.float.into(),
        label_type: l.label_type.into(),
        x_bits: Vec::new(),
        x: l.xi.iter().map(|&i| l.alphabet[i as usize].clone()).collect(),
        y: l.y.iter().map(|&k| k as usize).collect(),
        weights,
        hash_seed: l.hash_seed,
        layouts: l.layouts,
        builder_orders: l.builder_orders,
        configs: if with_configs { grid(l.grid, l.weights) } else { Vec::new() },
    }
    .exact()
}

/// Restricted growth strings of length n with at most `max_classes` classes: every labeling of n
/// rows up to renaming of the classes (labels only enter the subject through == and hashing).
fn rgs(n: usize, max_classes: usize) -> Vec<Vec<usize>> {
    fn rec(n: usize, mc: usize, cur: &mut Vec<usize>, used: usize, out: &mut Vec<Vec<usize>>) {
        if cur.len() == n {
            out.push(cur.clone());
            return;
        }
        for k in 0..(used + 1).min(mc) {
            cur.push(k);
            rec(n, mc, cur, used.max(k + 1), out);
            cur.pop();
        }
    }
    let mut out = Vec::new();
    rec(n, max_classes, &mut Vec::new(), 0, &mut out);
    out
}

// ------------------------------------------------------------------------------------------
// statistics
// ------------------------------------------------------------------------------------------

#[derive(Default, Clone, Debug, Serialize, Deserialize)]
struct Stats {
    evals: u64,
    nontrivial: u64,
    indeterminate: u64,
    split_nodes: u64,
    leaves: u64,
    trees_depth_ge2: u64,
    leaves_with_tied_modes: u64,
    rows_exactly_on_a_threshold: u64,
    thresholds_equal_to_a_training_value: u64,
    split_nodes_weight_below_min_weight_split_but_count_ok: u64,
    trees_without_split_importance_undefined: u64,
    max_decrease_err: f64,
    #[serde(default)]
    max_decrease_err_units: f64,
    #[serde(default)]
    split_nodes_with_decrease_below_1e_5: u64,
    #[serde(default)]
    trees_with_split_and_total_decrease_below_1e_5: u64,
    distinct_class_counts: [u64; 7],
    violating_evals: u64,
    #[serde(default)]
    layout_comparisons: u64,
    #[serde(default)]
    predict_layout_comparisons: u64,
    #[serde(default)]
    builder_orders_checked: u64,
    #[serde(default)]
    predict_forms_compared: u64,
    #[serde(default)]
    fit_forms_compared: u64,
    #[serde(default)]
    large_fits: u64,
    violations_not_stored: u64,
    child_processes: u64,
    child_aborts: u64,
}

impl Stats {
    fn merge(&mut self, o: &Stats) {
        self.evals += o.evals;
        self.nontrivial += o.nontrivial;
        self.indeterminate += o.indeterminate;
        self.split_nodes += o.split_nodes;
        self.leaves += o.leaves;
        self.trees_depth_ge2 += o.trees_depth_ge2;
        self.leaves_with_tied_modes += o.leaves_with_tied_modes;
        self.rows_exactly_on_a_threshold += o.rows_exactly_on_a_threshold;
        self.thresholds_equal_to_a_training_value += o.thresholds_equal_to_a_training_value;
        self.split_nodes_weight_below_min_weight_split_but_count_ok += o.split_nodes_weight_below_min_weight_split_but_count_ok;
        self.trees_without_split_importance_undefined += o.trees_without_split_importance_undefined;
        self.max_decrease_err = self.max_decrease_err.max(o.max_decrease_err);
        self.max_decrease_err_units = self.max_decrease_err_units.max(o.max_decrease_err_units);
        self.split_nodes_with_decrease_below_1e_5 += o.split_nodes_with_decrease_below_1e_5;
        self.trees_with_split_and_total_decrease_below_1e_5 += o.trees_with_split_and_total_decrease_below_1e_5;
        for i in 0..7 {
            self.distinct_class_counts[i] += o.distinct_class_counts[i];
        }
        self.violating_evals += o.violating_evals;
        self.layout_comparisons += o.layout_comparisons;
        self.predict_layout_comparisons += o.predict_layout_comparisons;
        self.builder_orders_checked += o.builder_orders_checked;
        self.predict_forms_compared += o.predict_forms_compared;
        self.fit_forms_compared += o.fit_forms_compared;
        self.large_fits += o.large_fits;
        self.violations_not_stored += o.violations_not_stored;
        self.child_processes += o.child_processes;
        self.child_aborts += o.child_aborts;
    }
}

// ------------------------------------------------------------------------------------------
// oracle
// ------------------------------------------------------------------------------------------

/// |reported impurity decrease - decrease recomputed in f64|: the subject computes impurities in
/// f32 whatever the feature type (sums of <= 6 squared fractions / p*log2 p terms).
/// The tolerance scales with the magnitude the f32 arithmetic works at: TOL_UNITS ulps (f32 epsilon)
/// of max(parent impurity, 0.5). For a Gini node near 0.5 that is ~5e-7, so a genuine decrease of
/// 2e-6 (class weights 501:499 against 499:501) is still resolved; the largest error measured over
/// the whole thorough sweep is reported in the evidence (in the same units).
const TOL_UNITS: f64 = 8.0;
const EPS32: f64 = 1.1920929e-7;

fn tol_dec(parent_impurity: f64) -> f64 {
    TOL_UNITS * EPS32 * parent_impurity.max(0.5)
}

fn impurity(crit: &str, freq: &[f64]) -> f64 {
    let tot: f64 = freq.iter().sum();
    if tot <= 0.0 {
        return 0.0;
    }
    if crit == "gini" {
        1.0 - freq.iter().map(|f| (f / tot) * (f / tot)).sum::<f64>()
    } else {
        -freq.iter().filter(|&&f| f > 0.0).map(|f| (f / tot) * (f / tot).log2()).sum::<f64>()
    }
}

fn to64<F: Float>(v: F) -> f64 {
    v.to_f64().unwrap()
}

struct Data<'a, L> {
    f32_subject: bool,
    xs: Vec<Vec<f64>>, // as seen by the subject
    y: &'a [usize],
    w: Vec<f64>,
    names: &'a [L],
    n_classes: usize,
}

impl<'a, L> Data<'a, L> {
    fn freq(&self, rows: &[usize]) -> Vec<f64> {
        let mut f = vec![0.0; self.n_classes];
        for &r in rows {
            f[self.y[r]] += self.w[r];
        }
        f
    }
    /// Closed form of the known rounding shape: `thr` is the midpoint - computed in the subject's
    /// float type - of two consecutive distinct training values a < b of the feature AND coincides
    /// with one of them. Some(true): thr == b (the larger one), Some(false): thr == a.
    fn rounded_midpoint_on_value(&self, feat: usize, thr: f64) -> Option<bool> {
        let mut v: Vec<f64> = self.xs.iter().map(|r| r[feat]).collect();
        v.sort_by(|a, b| a.partial_cmp(b).unwrap());
        v.dedup();
        for w in v.windows(2) {
            let mid = if self.f32_subject { ((w[0] as f32 + w[1] as f32) / 2.0f32) as f64 } else { (w[0] + w[1]) / 2.0 };
            if mid == thr && thr == w[1] {
                return Some(true);
            }
            if mid == thr && thr == w[0] {
                return Some(false);
            }
        }
        None
    }
    fn weight(&self, rows: &[usize]) -> f64 {
        rows.iter().map(|&r| self.w[r]).sum()
    }
    /// split decrease of partition (l, r) of `rows`
    fn decrease(&self, crit: &str, rows: &[usize], l: &[usize], r: &[usize]) -> f64 {
        let (wl, wr) = (self.weight(l), self.weight(r));
        let w = wl + wr;
        impurity(crit, &self.freq(rows)) - wl / w * impurity(crit, &self.freq(l)) - wr / w * impurity(crit, &self.freq(r))
    }
}

/// Descends like a prediction would; `strict`: go left iff x < threshold, else iff x <= threshold.
/// Returns the reached leaf and whether some node on the way had x == threshold.
fn descend<'t, F: Float, L: Label + std::fmt::Debug>(root: &'t TreeNode<F, L>, x: &[f64], strict: bool) -> Option<(&'t TreeNode<F, L>, Vec<(usize, f64)>)> {
    let mut node = root;
    let mut touched: Vec<(usize, f64)> = Vec::new();
    loop {
        if node.is_leaf() {
            return Some((node, touched));
        }
        let (f, thr, _) = node.split();
        let t = to64(thr);
        let v = *x.get(f)?;
        if v == t {
            touched.push((f, t));
        }
        let left = if strict { v < t } else { v <= t };
        let ch = node.children();
        node = (if left { ch[0] } else { ch[1] }).as_ref()?.as_ref();
    }
}

/// Detects a tree deeper than n - 1 and describes the first node whose split does not separate
/// the rows reaching it. Returns (depth, description, threshold-coincides-with-largest-value).
fn runaway_chain<F: Float, L: Label + std::fmt::Debug>(tree: &DecisionTree<F, L>, data: &Data<L>, n: usize) -> Option<(usize, String, bool)> {
    let deepest = tree.iter_nodes().map(|nd| nd.depth()).max().unwrap_or(0);
    if deepest + 1 <= n {
        return None;
    }
    let d = data.xs[0].len();
    let mut queue: VecDeque<(&TreeNode<F, L>, Vec<usize>, String)> = VecDeque::new();
    queue.push_back((tree.root_node(), (0..n).collect(), "root".into()));
    while let Some((node, rows, path)) = queue.pop_front() {
        let ch = node.children();
        let (lc, rc) = (ch[0].as_ref(), ch[1].as_ref());
        if lc.is_none() && rc.is_none() {
            continue;
        }
        let (feat, thr, _) = node.split();
        let thr = to64(thr);
        if feat >= d {
            continue;
        }
        let l: Vec<usize> = rows.iter().cloned().filter(|&r| data.xs[r][feat] <= thr).collect();
        let r: Vec<usize> = rows.iter().cloned().filter(|&r| data.xs[r][feat] > thr).collect();
        if l.is_empty() || r.is_empty() {
            let narrow = r.is_empty() && data.rounded_midpoint_on_value(feat, thr) == Some(true) && l.iter().any(|&i| data.xs[i][feat] == thr) && l.iter().any(|&i| data.xs[i][feat] < thr);
            let vals: Vec<f64> = rows.iter().map(|&i| data.xs[i][feat]).collect();
            return Some((
                deepest,
                format!(
                    "node {} splits rows {:?} (feature {} values {:?}) at threshold {:e}{}, which sends {} rows left and {} right, so the child is fitted on the same rows again",
                    path,
                    rows,
                    feat,
                    vals,
                    thr,
                    if narrow { " = the midpoint of two adjacent floats rounded onto the larger one" } else { "" },
                    l.len(),
                    r.len()
                ),
                narrow,
            ));
        }
        if let Some(c) = lc {
            queue.push_back((c.as_ref(), l, format!("{}.L", path)));
        }
        if let Some(c) = rc {
            queue.push_back((c.as_ref(), r, format!("{}.R", path)));
        }
    }
    Some((deepest, "no single non-separating split found".into(), false))
}

struct Item<'t, F, L> {
    node: &'t TreeNode<F, L>,
    rows: Option<Vec<usize>>,
    depth: usize,
    path: String,
}

#[allow(clippy::too_many_arguments)]
/// Fits one configuration on one memory layout of the records and verifies the tree. Returns a
/// canonical description of the fitted tree (nodes in level order with exact bit patterns, and
/// the predictions of the training rows) for the comparison between layouts.
fn check_one<F: Float, L: Label + Default + std::fmt::Debug, D: ndarray::Data<Elem = F>, S: ndarray::Data<Elem = L>>(
    case: &Case,
    ci: usize,
    cfg: &Config,
    layout: &str,
    ds: &linfa::DatasetBase<ndarray::ArrayBase<D, ndarray::Ix2>, ndarray::ArrayBase<S, ndarray::Ix1>>,
    recs: &ndarray::ArrayBase<D, ndarray::Ix2>,
    fnames: Option<&[String]>,
    alt: &[(&'static str, ndarray::ArrayView2<F>)],
    data: &Data<L>,
    viols: &mut Vec<RawViol>,
    st: &mut Stats,
) -> Option<String> {
    let n = data.xs.len();
    let d = data.xs[0].len();
    let mut seen_sigs: Vec<String> = Vec::new();
    let mut report = |sig: &str, what: String, at: Value| {
        if seen_sigs.iter().any(|s| s == sig) {
            return;
        }
        seen_sigs.push(sig.to_string());
        let mut a = json!({"config_index": ci, "config": cfg, "layout": layout});
        if let (Some(ao), Some(extra)) = (a.as_object_mut(), at.as_object()) {
            for (k, x) in extra {
                ao.insert(k.clone(), x.clone());
            }
        }
        viols.push(RawViol { sig: sig.to_string(), what: format!("[config #{} {:?}; records {}] {}", ci, cfg, layout, what), at: a });
    };

    st.evals += 1;
    let quality = if cfg.criterion == "gini" { SplitQuality::Gini } else { SplitQuality::Entropy };
    let min_dec_f: F = F::cast(cfg.min_impurity_decrease);
    let params = DecisionTree::<F, L>::params()
        .split_quality(quality)
        .max_depth(cfg.max_depth)
        .min_weight_split(cfg.min_weight_split)
        .min_weight_leaf(cfg.min_weight_leaf)
        .min_impurity_decrease(min_dec_f);
    // A tree over n rows whose splits all separate their rows has depth <= n - 1. The recursion of
    // TreeNode::fit is only bounded by max_depth, so before fitting with max_depth = None the same
    // configuration is fitted with max_depth = Some(n + 1): if that tree is deeper than n - 1 some
    // split does not separate its rows and the unbounded fit would recurse until the stack overflows
    // (process abort, not catchable) - reported here instead of being run. C14_UNGUARDED=1 skips the
    // guard (to demonstrate the abort from a replay file).
    if cfg.max_depth.is_none() && std::env::var("C14_UNGUARDED").is_err() {
        let bounded = params.clone().max_depth(Some(n + 1));
        if let Ok(Ok(t)) = guarded(|| bounded.fit(ds)) {
            if let Some((depth, what, narrow)) = runaway_chain(&t, data, n) {
                let sig = if narrow { "fit.unbounded_recursion.threshold_on_upper_data_value" } else { "fit.unbounded_recursion" };
                report(
                    sig,
                    format!(
                        "with max_depth = Some({}) the tree over {} rows reaches depth {} > n - 1: {}; with max_depth = None this recursion never ends (stack overflow aborts the process; the unbounded fit was therefore not run)",
                        n + 1,
                        n,
                        depth,
                        what
                    ),
                    json!({"guard_max_depth": n + 1}),
                );
                return None;
            }
        }
    }
    let tree = match guarded(|| params.fit(ds)) {
        Ok(Ok(t)) => t,
        Ok(Err(e)) => {
            report("fit.unexpected_error", format!("fit on a valid dataset with valid parameters returned Err({})", e), json!({}));
            return None;
        }
        Err(p) => {
            report("fit.panic", format!("fit on a valid dataset with valid parameters panicked: {}", p), json!({}));
            return None;
        }
    };

    // ---------------- walk ----------------
    let min_dec = to64(min_dec_f);
    let mws = cfg.min_weight_split as f64;
    let mwl = cfg.min_weight_leaf as f64;
    let root = tree.root_node();
    let mut queue: VecDeque<Item<F, L>> = VecDeque::new();
    queue.push_back(Item { node: root, rows: Some((0..n).collect()), depth: 0, path: "root".into() });
    let mut order: Vec<*const TreeNode<F, L>> = Vec::new();
    let mut expected: Vec<Option<L>> = vec![None; n];
    let mut n_leaves = 0usize;
    let mut deepest = 0usize;
    let mut split_feats: Vec<usize> = Vec::new();
    let mut dec_sum: Vec<f64> = vec![0.0; d];
    let mut dec_cnt: Vec<usize> = vec![0; d];
    let mut n_split = 0u64;

    while let Some(it) = queue.pop_front() {
        let node = it.node;
        order.push(node as *const _);
        deepest = deepest.max(it.depth);
        if node.depth() != it.depth {
            report("tree.depth_field_wrong", format!("node {} sits at depth {} but reports depth() = {}", it.path, it.depth, node.depth()), json!({"node": it.path}));
        }
        if let Some(md) = cfg.max_depth {
            if it.depth > md {
                report("tree.deeper_than_max_depth", format!("node {} at depth {} > max_depth {}", it.path, it.depth, md), json!({"node": it.path}));
            }
        }
        let ch = node.children();
        let (lc, rc) = (ch[0].as_ref().map(|b| b.as_ref()), ch[1].as_ref().map(|b| b.as_ref()));
        let (feat, thr_f, dec_f) = node.split();
        let thr = to64(thr_f);

        if node.is_leaf() {
            n_leaves += 1;
            // (descendants of an already reported malformed node carry no rows and are not reported again)
            if (lc.is_some() || rc.is_some()) && it.rows.is_some() {
                // closed form of the known shape: the threshold coincides with the largest value of the
                // rows of this node, so the documented rule sends every row left and the right side is empty
                let narrow = match (&it.rows, lc, rc) {
                    (Some(rows), Some(_), None) if feat < d && !rows.is_empty() => {
                        data.rounded_midpoint_on_value(feat, thr) == Some(true)
                            && rows.iter().all(|&r| data.xs[r][feat] <= thr)
                            && rows.iter().any(|&r| data.xs[r][feat] == thr)
                            && rows.iter().any(|&r| data.xs[r][feat] < thr)
                    }
                    _ => false,
                };
                let sig = if narrow { "tree.leaf_with_one_child.threshold_on_upper_data_value" } else { "tree.leaf_with_child" };
                report(
                    sig,
                    format!(
                        "node {} is a leaf (is_leaf() = true) but children() = [{}, {}]; split() = (feature {}, threshold {:e}); rows reaching it {:?}",
                        it.path,
                        if lc.is_some() { "Some" } else { "None" },
                        if rc.is_some() { "Some" } else { "None" },
                        feat,
                        thr,
                        it.rows
                    ),
                    json!({"node": it.path}),
                );
            }
            match node.prediction() {
                None => report("leaf.no_prediction", format!("leaf {} has prediction() = None", it.path), json!({"node": it.path})),
                Some(p) => {
                    if let Some(rows) = &it.rows {
                        if rows.is_empty() {
                            report("leaf.reached_by_no_training_row", format!("leaf {} is reached by no training row", it.path), json!({"node": it.path}));
                        } else {
                            let fr = data.freq(rows);
                            let mx = fr.iter().cloned().fold(f64::MIN, f64::max);
                            // (only classes that occur in the node: with zero weights a class can be present at weight 0,
                            // and in a node whose rows all weigh 0 any class present is a weighted mode)
                            let modes: Vec<usize> = (0..fr.len()).filter(|&k| fr[k] == mx && rows.iter().any(|&r| data.y[r] == k)).collect();
                            if modes.len() > 1 {
                                st.leaves_with_tied_modes += 1;
                            }
                            match data.names.iter().position(|nm| *nm == p) {
                                None => report("leaf.predicts_unseen_label", format!("leaf {} predicts {:?}, which is not a training label", it.path, p), json!({"node": it.path})),
                                Some(k) => {
                                    if !modes.contains(&k) {
                                        report(
                                            "leaf.prediction_not_a_weighted_mode",
                                            format!("leaf {} (rows {:?}, class weights {:?}) predicts class #{} = {:?}; the weighted modes are {:?}", it.path, rows, fr, k, p, modes),
                                            json!({"node": it.path}),
                                        );
                                    }
                                }
                            }
                            for &r in rows {
                                expected[r] = Some(p.clone());
                            }
                        }
                    }
                }
            }
            for (c, tag) in [(lc, "L"), (rc, "R")] {
                if let Some(c) = c {
                    queue.push_back(Item { node: c, rows: None, depth: it.depth + 1, path: format!("{}.{}", it.path, tag) });
                }
            }
            continue;
        }

        // ---------------- split node ----------------
        n_split += 1;
        if node.prediction().is_some() {
            report("split.has_prediction", format!("split node {} has prediction() = Some", it.path), json!({"node": it.path}));
        }
        if feat >= d {
            report("split.feature_out_of_range", format!("split node {} uses feature {} of {}", it.path, feat, d), json!({"node": it.path}));
        } else {
            split_feats.push(feat);
            // feature-name plumbing: the name given to the dataset (or the documented default)
            let want_name = match fnames {
                Some(f) => f[feat].clone(),
                None => format!("feature-{}", feat),
            };
            if node.feature_name() != Some(&want_name) {
                report("tree.feature_name_wrong", format!("split node {} splits feature {} but feature_name() = {:?}, expected {:?}", it.path, feat, node.feature_name(), want_name), json!({"node": it.path}));
            }
            dec_sum[feat] += to64(dec_f);
            dec_cnt[feat] += 1;
        }
        let (lc, rc) = match (lc, rc) {
            (Some(l), Some(r)) => (l, r),
            (l, r) => {
                report("split.missing_child", format!("split node {} (is_leaf() = false) has children() = [{}, {}]", it.path, l.is_some(), r.is_some()), json!({"node": it.path}));
                for (c, tag) in [(l, "L"), (r, "R")] {
                    if let Some(c) = c {
                        queue.push_back(Item { node: c, rows: None, depth: it.depth + 1, path: format!("{}.{}", it.path, tag) });
                    }
                }
                continue;
            }
        };
        let mut child_rows: (Option<Vec<usize>>, Option<Vec<usize>>) = (None, None);
        if let (Some(rows), true) = (&it.rows, feat < d) {
            let at = json!({"node": it.path, "feature": feat, "threshold": thr});
            // reached by >= min_weight_split training samples (the statement counts samples, like the code)
            if (rows.len() as f64) < mws {
                report("split.below_min_weight_split", format!("split node {} is reached by {} training rows {:?} < min_weight_split {}", it.path, rows.len(), rows, mws), at.clone());
            } else if data.weight(rows) < mws {
                st.split_nodes_weight_below_min_weight_split_but_count_ok += 1;
            }
            // documented routing: feature <= split value goes left
            let l: Vec<usize> = rows.iter().cloned().filter(|&r| data.xs[r][feat] <= thr).collect();
            let r: Vec<usize> = rows.iter().cloned().filter(|&r| data.xs[r][feat] > thr).collect();
            // the partition a strict comparison would give (only used to characterise a failure)
            let ls: Vec<usize> = rows.iter().cloned().filter(|&r| data.xs[r][feat] < thr).collect();
            let rs: Vec<usize> = rows.iter().cloned().filter(|&r| data.xs[r][feat] >= thr).collect();
            if ls.len() != l.len() {
                st.thresholds_equal_to_a_training_value += 1;
            }
            // known shape only: the threshold is a rounded midpoint that landed on the larger value
            let on_value = ls.len() != l.len() && data.rounded_midpoint_on_value(feat, thr) == Some(true);
            let (wl, wr) = (data.weight(&l), data.weight(&r));
            let mut sides_ok = true;
            if l.is_empty() || r.is_empty() || wl < mwl || wr < mwl {
                sides_ok = false;
                let strict_ok = on_value && !ls.is_empty() && !rs.is_empty() && data.weight(&ls) >= mwl && data.weight(&rs) >= mwl;
                let sig = if strict_ok { "split.threshold_on_data_value.min_weight_leaf_met_only_by_strict_partition" } else { "split.side_below_min_weight_leaf" };
                report(
                    sig,
                    format!(
                        "split node {} (feature {} <= {:e}) sends rows {:?} (weight {}) left and {:?} (weight {}) right; min_weight_leaf = {}{}",
                        it.path,
                        feat,
                        thr,
                        l,
                        wl,
                        r,
                        wr,
                        mwl,
                        if strict_ok { "; the threshold equals a training value and only the partition by `<` meets the limit" } else { "" }
                    ),
                    at.clone(),
                );
            }
            let reported = to64(dec_f);
            if !(reported >= min_dec) {
                report(
                    "split.reported_decrease_below_min_impurity_decrease",
                    format!("split node {} reports impurity decrease {:e} < min_impurity_decrease {:e}", it.path, reported, min_dec),
                    at.clone(),
                );
            }
            if !l.is_empty() && !r.is_empty() {
                let actual = data.decrease(&cfg.criterion, rows, &l, &r);
                let err = (reported - actual).abs();
                let parent_imp = impurity(&cfg.criterion, &data.freq(rows));
                let tol = tol_dec(parent_imp);
                if !(err <= tol) {
                    let strict_match = on_value && !ls.is_empty() && !rs.is_empty() && (reported - data.decrease(&cfg.criterion, rows, &ls, &rs)).abs() <= tol;
                    let sig = if strict_match { "split.threshold_on_data_value.decrease_is_that_of_strict_partition" } else { "split.impurity_decrease_misreported" };
                    report(
                        sig,
                        format!(
                            "split node {} (feature {} <= {:e}; left rows {:?}, right rows {:?}) reports {} decrease {:e}, recomputed from the definition {:e}{}",
                            it.path,
                            feat,
                            thr,
                            l,
                            r,
                            cfg.criterion,
                            reported,
                            actual,
                            if strict_match { "; the reported value is the decrease of the partition by `<` (threshold equals a training value)" } else { "" }
                        ),
                        at.clone(),
                    );
                } else {
                    st.max_decrease_err = st.max_decrease_err.max(err);
                    st.max_decrease_err_units = st.max_decrease_err_units.max(err / (EPS32 * parent_imp.max(0.5)));
                    if actual < 1e-5 {
                        st.split_nodes_with_decrease_below_1e_5 += 1;
                    }
                    if (actual - min_dec).abs() <= tol {
                        st.indeterminate += 1;
                    } else if actual < min_dec {
                        report(
                            "split.actual_decrease_below_min_impurity_decrease",
                            format!("split node {}: actual {} decrease {:e} < min_impurity_decrease {:e}", it.path, cfg.criterion, actual, min_dec),
                            at.clone(),
                        );
                    }
                }
            }
            let _ = sides_ok;
            child_rows = (Some(l), Some(r));
        }
        queue.push_back(Item { node: lc, rows: child_rows.0, depth: it.depth + 1, path: format!("{}.L", it.path) });
        queue.push_back(Item { node: rc, rows: child_rows.1, depth: it.depth + 1, path: format!("{}.R", it.path) });
    }
    st.split_nodes += n_split;
    st.leaves += n_leaves as u64;
    let has_split = !root.is_leaf();
    if has_split {
        st.nontrivial += 1;
    }
    if deepest >= 2 {
        st.trees_depth_ge2 += 1;
    }

    // ---------------- API agreement ----------------
    let it_order: Vec<*const TreeNode<F, L>> = tree.iter_nodes().map(|nd| nd as *const _).collect();
    if it_order != order {
        report("api.iter_nodes_disagrees_with_walk", format!("iter_nodes() yields {} nodes, the level-order walk over children() {} (or a different order)", it_order.len(), order.len()), json!({}));
    }
    if tree.max_depth() != deepest {
        report("api.max_depth_wrong", format!("max_depth() = {} but the deepest node is at depth {}", tree.max_depth(), deepest), json!({}));
    }
    if tree.num_leaves() != n_leaves {
        report("api.num_leaves_wrong", format!("num_leaves() = {} but the walk finds {} leaves", tree.num_leaves(), n_leaves), json!({}));
    }
    let mut fs = tree.features();
    fs.sort();
    let mut want_fs = split_feats.clone();
    want_fs.sort();
    want_fs.dedup();
    if fs != want_fs {
        report("api.features_wrong", format!("features() = {:?} but the split nodes use {:?}", fs, want_fs), json!({}));
    }
    let mid = tree.mean_impurity_decrease();
    let want_mid: Vec<f64> = (0..d).map(|j| if dec_cnt[j] == 0 { 0.0 } else { dec_sum[j] / dec_cnt[j] as f64 }).collect();
    if mid.len() != d || mid.iter().zip(&want_mid).any(|(a, b)| !((to64(*a) - b).abs() <= 1e-6 * b.abs() + 1e-12)) {
        report(
            "importance.mean_impurity_decrease_mismatch",
            format!("mean_impurity_decrease() = {:?}, the per-feature mean of the split nodes' reported decreases is {:?}", mid.iter().map(|v| to64(*v)).collect::<Vec<_>>(), want_mid),
            json!({}),
        );
    }

    // ---------------- feature importance ----------------
    if has_split && want_mid.iter().sum::<f64>() < 1e-5 {
        st.trees_with_split_and_total_decrease_below_1e_5 += 1;
    }
    if has_split {
        let imp: Vec<f64> = tree.feature_importance().iter().map(|v| to64(*v)).collect();
        let tol = if case.float == "f32" { 1e-5 } else { 1e-9 };
        if imp.len() != d {
            report("importance.wrong_length", format!("feature_importance() has {} entries for {} features", imp.len(), d), json!({}));
        } else if imp.iter().any(|v| !v.is_finite() || *v < 0.0) {
            report("importance.negative_or_not_finite", format!("feature_importance() = {:?}", imp), json!({}));
        } else if (imp.iter().sum::<f64>() - 1.0).abs() > tol {
            report("importance.does_not_sum_to_one", format!("feature_importance() = {:?} sums to {}", imp, imp.iter().sum::<f64>()), json!({}));
        }
    } else {
        st.trees_without_split_importance_undefined += 1;
    }

    // ---------------- prediction of the training rows ----------------
    let pred = match guarded(|| tree.predict(recs)) {
        Ok(p) => p,
        Err(p) => {
            report("predict.panic", format!("predict on the training records panicked: {}", p), json!({}));
            return None;
        }
    };
    if pred.len() != n {
        report("predict.wrong_length", format!("predict returned {} labels for {} rows", pred.len(), n), json!({}));
        return None;
    }
    // every calling form of predict must give the labels of predict(&records)
    if case.layouts {
        use linfa::traits::PredictInplace;
        let mut forms: Vec<(&str, Result<Vec<L>, String>)> = vec![
            ("predict(&dataset)", guarded(|| {
                let p: Array1<L> = tree.predict(ds);
                p.to_vec()
            })),
            ("predict(dataset.view()) (dataset view passed by value)", guarded(|| {
                let out: linfa::DatasetBase<ndarray::ArrayView2<F>, Array1<L>> = tree.predict(ds.view());
                out.targets().to_vec()
            })),
        ];
        // all forms on the tree fitted from standard arrays; on the other layouts only the two forms
        // above, which read the dataset (whose targets / weights are in other layouts there)
        if layout == "standard layout" {
            forms.extend(vec![
            ("predict(owned records)", guarded(|| {
                let out: linfa::DatasetBase<Array2<F>, Array1<L>> = tree.predict(recs.to_owned());
                out.targets().to_vec()
            })),
            ("predict(owned dataset without targets)", guarded(|| {
                let out: linfa::DatasetBase<Array2<F>, Array1<L>> = tree.predict(linfa::DatasetBase::from(recs.to_owned()));
                out.targets().to_vec()
            })),
            ("predict_inplace(&records, &mut targets)", guarded(|| {
                let mut y: Array1<L> = Array1::default(n);
                tree.predict_inplace(recs, &mut y);
                y.to_vec()
            })),
            ]);
        }
        for (form, got) in forms {
            st.predict_forms_compared += 1;
            match got {
                Ok(v) => {
                    if v.len() != n || v.iter().zip(pred.iter()).any(|(a, b)| a != b) {
                        report("predict.calling_form_dependence", format!("{} returns {:?} but predict(&records) returns {:?}", form, v.iter().take(12).collect::<Vec<_>>(), pred.iter().take(12).collect::<Vec<_>>()), json!({"form": form}));
                    }
                }
                Err(e) => report("predict.calling_form_panic", format!("{} panicked: {}", form, e), json!({"form": form})),
            }
        }
    }
    // the same logical rows handed to predict in other memory layouts must get the same labels
    // (for the tree fitted from standard arrays; the trees of the other layouts must equal it)
    for (name, view) in alt.iter().filter(|_| layout == "standard layout") {
        st.predict_layout_comparisons += 1;
        match guarded(|| tree.predict(view)) {
            Ok(p2) => {
                if p2.len() != n || p2.iter().zip(pred.iter()).any(|(a, b)| a != b) {
                    let first = (0..n.min(p2.len())).find(|&i| p2[i] != pred[i]);
                    report(
                        "predict.layout_dependence",
                        format!("predict on the training rows given as a {} returns other labels than on the records the tree was fitted from (first differing row {:?}: {:?} vs {:?}; {} vs {} labels)", name, first, first.map(|i| &p2[i]), first.map(|i| &pred[i]), p2.len(), n),
                        json!({"predict_layout": name}),
                    );
                }
            }
            Err(p) => report("predict.layout_panic", format!("predict on the training rows given as a {} panicked: {}", name, p), json!({"predict_layout": name})),
        }
    }
    for i in 0..n {
        let obs = &pred[i];
        if !data.names.iter().enumerate().any(|(k, nm)| nm == obs && data.y.contains(&k)) {
            report("predict.unseen_label", format!("row {} is predicted as {:?}, a label that does not occur in training", i, obs), json!({"row": i}));
            continue;
        }
        if let Some((_, touched)) = descend(root, &data.xs[i], false) {
            if !touched.is_empty() {
                st.rows_exactly_on_a_threshold += 1;
            }
        }
        let Some(exp) = &expected[i] else { continue };
        if obs != exp {
            let strict = descend(root, &data.xs[i], true);
            // narrow signature: the row sits exactly on thresholds that are rounded midpoints coinciding
            // with a training value, and the observed label is that of the leaf reached with `<`
            let lax_touched = descend(root, &data.xs[i], false).map(|x| x.1).unwrap_or_default();
            let narrow = match strict {
                Some((leaf, _)) => !lax_touched.is_empty() && lax_touched.iter().all(|&(f, t)| data.rounded_midpoint_on_value(f, t).is_some()) && leaf.prediction().as_ref() == Some(obs),
                None => false,
            };
            let sig = if narrow { "predict.training_row_equal_to_threshold_sent_right" } else { "predict.training_row_wrong_leaf" };
            report(
                sig,
                format!(
                    "training row {} (x = {:?}, label class #{}) is routed by the documented rule `feature <= split value` (the rule fit uses) to a leaf predicting {:?}, but predict returns {:?}{}",
                    i,
                    data.xs[i],
                    data.y[i],
                    exp,
                    obs,
                    if narrow { " = the leaf reached when a value equal to the threshold goes right (`<` instead of `<=`); the threshold is a midpoint of adjacent floats that rounded onto a training value" } else { "" }
                ),
                json!({"row": i}),
            );
        }
    }
    if !case.layouts {
        return None;
    }
    Some(summarize(&tree, &pred))
}

/// Canonical description of a fitted tree: nodes in level order with bit-exact numbers + the
/// predictions of the training rows (long prediction vectors are folded into a checksum-like form).
fn summarize<F: Float, L: Label + std::fmt::Debug>(tree: &DecisionTree<F, L>, pred: &Array1<L>) -> String {
    let mut summary = String::new();
    for nd in tree.iter_nodes() {
        let (f, t, dcr) = nd.split();
        summary.push_str(&format!("[d{} leaf={} f{} thr={:016x} dec={:016x} pred={:?}]", nd.depth(), nd.is_leaf(), f, to64(t).to_bits(), to64(dcr).to_bits(), nd.prediction()));
    }
    summary.push_str(&format!(" predictions={:?}", pred.iter().collect::<Vec<_>>()));
    summary
}

const SETTERS: [&str; 5] = ["split_quality", "max_depth", "min_weight_split", "min_weight_leaf", "min_impurity_decrease"];

/// Builds the parameters of `cfg` calling the five setters in `order`; with `decoy` every setter is
/// first called (in the same order) with a value that must not survive.
fn build_params<F: Float, L: Label>(cfg: &Config, order: &[usize], decoy: bool) -> linfa_trees::DecisionTreeParams<F, L> {
    let quality = if cfg.criterion == "gini" { SplitQuality::Gini } else { SplitQuality::Entropy };
    let other_quality = if cfg.criterion == "gini" { SplitQuality::Entropy } else { SplitQuality::Gini };
    let mut p = DecisionTree::<F, L>::params();
    let passes: &[bool] = if decoy { &[true, false] } else { &[false] };
    for &is_decoy in passes {
        for &k in order {
            p = match (k, is_decoy) {
                (0, false) => p.split_quality(quality),
                (0, true) => p.split_quality(other_quality),
                (1, false) => p.max_depth(cfg.max_depth),
                (1, true) => p.max_depth(if cfg.max_depth == Some(7) { None } else { Some(7) }),
                (2, false) => p.min_weight_split(cfg.min_weight_split),
                (2, true) => p.min_weight_split(77.0),
                (3, false) => p.min_weight_leaf(cfg.min_weight_leaf),
                (3, true) => p.min_weight_leaf(55.0),
                (4, false) => p.min_impurity_decrease(F::cast(cfg.min_impurity_decrease)),
                _ => p.min_impurity_decrease(F::cast(0.77)),
            };
        }
    }
    p
}

/// Builder history: every order of the five setters (and every order with decoy writes first) must
/// publish the values that were set and fit the same tree as the canonical order.
fn check_builder_orders<F: Float, L: Label + Default + std::fmt::Debug>(ci: usize, cfg: &Config, ds: &Dataset<F, L, ndarray::Ix1>, recs: &Array2<F>, viols: &mut Vec<RawViol>, st: &mut Stats) {
    use linfa::ParamGuard;
    let quality = if cfg.criterion == "gini" { SplitQuality::Gini } else { SplitQuality::Entropy };
    let fit_summary = |p: &linfa_trees::DecisionTreeParams<F, L>| -> Result<(String, bool), String> {
        match guarded(|| p.fit(ds)) {
            Ok(Ok(t)) => match guarded(|| t.predict(recs)) {
                Ok(pred) => Ok((summarize(&t, &pred), !t.root_node().is_leaf())),
                Err(e) => Err(format!("predict panicked: {}", e)),
            },
            Ok(Err(e)) => Err(format!("fit returned Err({})", e)),
            Err(e) => Err(format!("fit panicked: {}", e)),
        }
    };
    let canonical_order = [0usize, 1, 2, 3, 4];
    let canonical = fit_summary(&build_params::<F, L>(cfg, &canonical_order, false));
    let mut reported = false;
    for perm in en::permutations(5) {
        for decoy in [false, true] {
            st.evals += 1;
            st.builder_orders_checked += 1;
            let p = build_params::<F, L>(cfg, &perm, decoy);
            let names: Vec<&str> = perm.iter().map(|&k| SETTERS[k]).collect();
            let mut problem: Option<String> = None;
            match p.check_ref() {
                Ok(v) => {
                    let got = (v.split_quality(), v.max_depth(), v.min_weight_split(), v.min_weight_leaf(), to64(v.min_impurity_decrease()));
                    let want = (quality, cfg.max_depth, cfg.min_weight_split, cfg.min_weight_leaf, to64(F::cast(cfg.min_impurity_decrease)));
                    if got != want {
                        problem = Some(format!("the checked parameters publish (split_quality, max_depth, min_weight_split, min_weight_leaf, min_impurity_decrease) = {:?} but {:?} was set", got, want));
                    }
                }
                Err(e) => problem = Some(format!("check_ref() rejects the parameters: {}", e)),
            }
            if problem.is_none() {
                let got = fit_summary(&p);
                if let Ok((_, true)) = &got {
                    st.nontrivial += 1;
                }
                if got.as_ref().map(|x| &x.0).map_err(|e| e.clone()) != canonical.as_ref().map(|x| &x.0).map_err(|e| e.clone()) {
                    problem = Some(format!("the fitted tree differs from the tree of the canonical setter order: canonical {:?} | this order {:?}", canonical.as_ref().map(|x| &x.0), got.as_ref().map(|x| &x.0)));
                }
            }
            if let (Some(pb), false) = (problem, reported) {
                reported = true;
                viols.push(RawViol {
                    sig: "tree.params.builder_order_dependence".into(),
                    what: format!("[config #{} {:?}] setters called in the order {:?}{}: {}", ci, cfg, names, if decoy { " (each first with a decoy value, in the same order)" } else { "" }, pb),
                    at: json!({"config_index": ci, "config": cfg, "setter_order": names, "decoy_writes_first": decoy}),
                });
            }
        }
    }
}

/// `with_labels` needs Copy labels; String labels skip that form.
trait CaseLabel: Label + Default + std::fmt::Debug {
    fn with_labels_fit<F: Float>(p: &linfa_trees::DecisionTreeParams<F, Self>, recs: &Array2<F>, targets: &Array1<Self>, weights: &Option<Vec<f32>>) -> Option<Result<String, String>>;
}
impl CaseLabel for String {
    fn with_labels_fit<F: Float>(_: &linfa_trees::DecisionTreeParams<F, Self>, _: &Array2<F>, _: &Array1<Self>, _: &Option<Vec<f32>>) -> Option<Result<String, String>> {
        None
    }
}
macro_rules! copy_case_label {
    ($t:ty) => {
        impl CaseLabel for $t {
            fn with_labels_fit<F: Float>(p: &linfa_trees::DecisionTreeParams<F, Self>, recs: &Array2<F>, targets: &Array1<Self>, weights: &Option<Vec<f32>>) -> Option<Result<String, String>> {
                use linfa::dataset::Labels;
                let mut ds = Dataset::new(recs.clone(), targets.clone());
                if let Some(wv) = weights {
                    ds = ds.with_weights(Array1::from(wv.clone()));
                }
                Some(
                    guarded(|| {
                        // keep every label that occurs: the same samples in the same order, targets now counted
                        let keep: Vec<$t> = ds.labels();
                        let ds2 = ds.with_labels(&keep);
                        fit_to_summary(p, &ds2, recs)
                    })
                    .unwrap_or_else(|e| Err(format!("panicked: {}", e))),
                )
            }
        }
    };
}
copy_case_label!(usize);
copy_case_label!(bool);

/// fit (unchecked builder) + predict(&records) + canonical description
fn fit_to_summary<F: Float, L: Label + Default + std::fmt::Debug, D: ndarray::Data<Elem = F>, T>(p: &linfa_trees::DecisionTreeParams<F, L>, ds: &linfa::DatasetBase<ndarray::ArrayBase<D, ndarray::Ix2>, T>, recs: &Array2<F>) -> Result<String, String>
where
    T: linfa::dataset::AsSingleTargets<Elem = L> + linfa::dataset::Labels<Elem = L>,
{
    match p.fit(ds) {
        Ok(t) => {
            let pred: Array1<L> = t.predict(recs);
            Ok(summarize(&t, &pred))
        }
        Err(e) => Err(format!("fit returned Err({})", e)),
    }
}

/// Other calling forms of fit, and the dataset helpers of the core crate that data are commonly piped
/// through before fitting, must give the tree of `params.fit(&dataset)` on plain arrays.
#[allow(clippy::too_many_arguments)]
fn check_fit_forms<F: Float, L: CaseLabel>(case: &Case, ci: usize, cfg: &Config, recs: &Array2<F>, targets: &Array1<L>, names: &[L], fnames: &[String], std_summary: &str, viols: &mut Vec<RawViol>, st: &mut Stats) {
    use linfa::ParamGuard;
    let n = recs.nrows();
    let p = build_params::<F, L>(cfg, &[0, 1, 2, 3, 4], false);
    let w = || case.weights.as_ref().map(|wv| Array1::from(wv.clone()));
    let plain = || {
        let mut ds = Dataset::new(recs.clone(), targets.clone());
        if let Some(wv) = w() {
            ds = ds.with_weights(wv);
        }
        ds
    };
    let g = |f: &dyn Fn() -> Result<String, String>| -> Result<String, String> { guarded(f).unwrap_or_else(|e| Err(format!("panicked: {}", e))) };
    let mut forms: Vec<(&str, Result<String, String>)> = Vec::new();
    forms.push(("params.check_ref().unwrap().fit(&dataset)", g(&|| {
        let ds = plain();
        let t = p.check_ref().map_err(|e| e.to_string())?.fit(&ds).map_err(|e| e.to_string())?;
        let pred: Array1<L> = t.predict(recs);
        Ok(summarize(&t, &pred))
    })));
    forms.push(("params.check().unwrap().fit(&dataset)", g(&|| {
        let ds = plain();
        let t = p.clone().check().map_err(|e| e.to_string())?.fit(&ds).map_err(|e| e.to_string())?;
        let pred: Array1<L> = t.predict(recs);
        Ok(summarize(&t, &pred))
    })));
    forms.push(("params.fit(&dataset.view())", g(&|| {
        let ds = plain().with_feature_names(fnames.to_vec());
        let v = ds.view();
        let t = p.fit(&v).map_err(|e| e.to_string())?;
        // feature names must travel through the view
        if let Some(nm) = t.root_node().feature_name() {
            let (f, _, _) = t.root_node().split();
            if *nm != fnames[f] {
                return Err(format!("the root splits feature {} but is named {:?} instead of {:?} (names set on the dataset the view was taken from)", f, nm, fnames[f]));
            }
        }
        let pred: Array1<L> = t.predict(recs);
        Ok(summarize(&t, &pred))
    })));
    forms.push(("DatasetBase::new(records, class-index view with stride 2).map_targets(index -> label) then fit", g(&|| {
        let kbig: Array1<usize> = Array1::from_iter((0..2 * n).map(|i| if i % 2 == 0 { case.y[i / 2] } else { (case.y[i / 2] + 1) % names.len() }));
        let mut ds = linfa::DatasetBase::new(recs.clone(), kbig.slice(ndarray::s![..;2])).map_targets(|k| names[*k].clone());
        if let Some(wv) = w() {
            ds = ds.with_weights(wv);
        }
        fit_to_summary(&p, &ds, recs)
    })));
    forms.push(("DatasetBase::new(records, reversed class-index view of a reversed copy).map_targets(index -> label) then fit", g(&|| {
        let krev: Array1<usize> = Array1::from_iter((0..n).map(|i| case.y[n - 1 - i]));
        let mut ds = linfa::DatasetBase::new(recs.clone(), krev.slice(ndarray::s![..;-1])).map_targets(|k| names[*k].clone());
        if let Some(wv) = w() {
            ds = ds.with_weights(wv);
        }
        fit_to_summary(&p, &ds, recs)
    })));
    forms.push(("Dataset::new(records, column-major n x 1 targets).into_single_target() then fit", g(&|| {
        let t2: Array2<L> = Array2::from_shape_vec(ndarray::ShapeBuilder::f((n, 1)), targets.to_vec()).map_err(|e| e.to_string())?;
        let mut ds = Dataset::new(recs.clone(), t2).into_single_target();
        if let Some(wv) = w() {
            ds = ds.with_weights(wv);
        }
        fit_to_summary(&p, &ds, recs)
    })));
    forms.push(("Dataset::new(records, every-second-column view of an n x 2 matrix as n x 1 targets).into_single_target() then fit", g(&|| {
        let t2: Array2<L> = Array2::from_shape_fn((n, 2), |(i, j)| if j == 0 { targets[i].clone() } else { names[(case.y[i] + 1) % names.len()].clone() });
        let col = t2.slice(ndarray::s![.., ..;2]).to_owned();
        let mut ds = Dataset::new(recs.clone(), col).into_single_target();
        if let Some(wv) = w() {
            ds = ds.with_weights(wv);
        }
        fit_to_summary(&p, &ds, recs)
    })));
    if let Some(r) = L::with_labels_fit(&p, recs, targets, &case.weights) {
        forms.push(("dataset.with_labels(all labels present) then fit", r));
    }
    for (form, got) in forms {
        st.fit_forms_compared += 1;
        let same = matches!(&got, Ok(x) if x == std_summary);
        if !same && !viols.iter().any(|v| v.sig == "fit.calling_form_dependence") {
            let cut = |t: &str| -> String { t.chars().take(1000).collect() };
            viols.push(RawViol {
                sig: "fit.calling_form_dependence".into(),
                what: format!("[config #{} {:?}] {} gives {} but params.fit(&dataset) on plain arrays gives {}", ci, cfg, form, match &got { Ok(x) => cut(x), Err(e) => format!("an error: {}", cut(e)) }, cut(std_summary)),
                at: json!({"config_index": ci, "config": cfg, "form": form}),
            });
        }
    }
}

fn run_typed<F: Float, L: CaseLabel>(case: &Case, names: &[L], skip: &[usize], sink: &mut dyn FnMut(Event)) {
    let n = case.x.len();
    let d = case.x[0].len();
    let recs: Array2<F> = Array2::from_shape_fn((n, d), |(i, j)| F::cast(case.x[i][j]));
    let xs: Vec<Vec<f64>> = (0..n).map(|i| (0..d).map(|j| to64(recs[(i, j)])).collect()).collect();
    let targets: Array1<L> = Array1::from_iter(case.y.iter().map(|&k| names[k].clone()));
    let w: Vec<f64> = match &case.weights {
        Some(w) => w.iter().map(|&v| v as f64).collect(),
        None => vec![1.0; n],
    };
    let mut ds = Dataset::new(recs.clone(), targets.clone());
    if let Some(wv) = &case.weights {
        ds = ds.with_weights(Array1::from(wv.clone()));
    }
    let n_classes = case.y.iter().max().map(|m| m + 1).unwrap_or(0);
    let mut distinct = case.y.clone();
    distinct.sort();
    distinct.dedup();
    let data = Data { f32_subject: case.float == "f32", xs, y: &case.y, w, names, n_classes };
    let trace = std::env::var("C14_TRACE").is_ok();
    // other memory layouts of the same logical records, targets and weights (built once per case)
    let poison = F::cast(-12345.678);
    let cm: Array2<F> = {
        let mut a = Array2::zeros(ndarray::ShapeBuilder::f((n, d)));
        a.assign(&recs);
        a
    };
    let fm: Array2<F> = Array2::from_shape_fn((d, n), |(j, i)| recs[(i, j)]);
    let rev: Array2<F> = Array2::from_shape_fn((n, d), |(i, j)| recs[(n - 1 - i, j)]);
    let big: Array2<F> = Array2::from_shape_fn((2 * n, d), |(i, j)| if i % 2 == 0 { recs[(i / 2, j)] } else { poison });
    let frev: Array2<F> = Array2::from_shape_fn((n, d), |(i, j)| recs[(i, d - 1 - j)]);
    // targets: reversed view of a reversed copy, every-second view of a longer array with wrong labels between
    let t_rev: Array1<L> = Array1::from_iter((0..n).map(|i| targets[n - 1 - i].clone()));
    let t_big: Array1<L> = Array1::from_iter((0..2 * n).map(|i| if i % 2 == 0 { targets[i / 2].clone() } else { names[(case.y[i / 2] + 1) % names.len()].clone() }));
    // weights: owned arrays with stride -1 / 2
    let w_layout = |kind: u8| -> Option<Array1<f32>> {
        case.weights.as_ref().map(|wv| match kind {
            0 => Array1::from(wv.clone()),
            1 => Array1::from(wv.iter().rev().cloned().collect::<Vec<f32>>()).slice_move(ndarray::s![..;-1]),
            _ => Array1::from((0..2 * n).map(|i| if i % 2 == 0 { wv[i / 2] } else { 1.0e6 }).collect::<Vec<f32>>()).slice_move(ndarray::s![..;2]),
        })
    };
    fn mkds<R: linfa::dataset::Records, T>(r: R, t: T, w: Option<Array1<f32>>, names: Option<&Vec<String>>) -> linfa::DatasetBase<R, T> {
        let mut ds = linfa::DatasetBase::new(r, t);
        if let Some(w) = w {
            ds = ds.with_weights(w);
        }
        if let Some(nm) = names {
            ds = ds.with_feature_names(nm.clone());
        }
        ds
    }
    let fnames: Vec<String> = (0..d).map(|j| format!("col-{}", (b'a' + (j % 26) as u8) as char)).collect();
    type DsView<'a, F, L> = linfa::DatasetBase<ndarray::ArrayView2<'a, F>, ndarray::ArrayView1<'a, L>>;
    type DsOwned<'a, F, L> = linfa::DatasetBase<Array2<F>, ndarray::ArrayView1<'a, L>>;
    let mut lay_views: Vec<(&'static str, DsView<F, L>, bool)> = Vec::new();
    let mut lay_owned: Vec<(&'static str, DsOwned<F, L>, bool)> = Vec::new();
    let mut alt: Vec<(&'static str, ndarray::ArrayView2<F>)> = Vec::new();
    if case.layouts {
        let tv = fm.t();
        let rv = rev.slice(ndarray::s![..;-1, ..]);
        let ev = big.slice(ndarray::s![..;2, ..]);
        let fv = frev.slice(ndarray::s![.., ..;-1]);
        let t_std = targets.view();
        let t_rv = t_rev.slice(ndarray::s![..;-1]);
        let t_ev = t_big.slice(ndarray::s![..;2]);
        assert!(tv == recs && rv == recs && ev == recs && cm == recs && fv == recs && t_rv == targets && t_ev == targets, "harness bug: layouts are not the same logical data");
        if let Some(wv) = &case.weights {
            assert!(w_layout(1).unwrap().to_vec() == *wv && w_layout(2).unwrap().to_vec() == *wv, "harness bug: weight layouts differ logically");
        }
        lay_owned.push(("column-major owned records, reversed target view, strided weights, named features", mkds(cm.clone(), t_rv.clone(), w_layout(2), Some(&fnames)), true));
        lay_owned.push(("standard owned records, strided target view, reversed weights", mkds(recs.clone(), t_ev.clone(), w_layout(1), None), false));
        lay_views.push(("transposed view of feature-major records, strided target view, reversed weights", mkds(tv.clone(), t_ev.clone(), w_layout(1), None), false));
        lay_views.push(("reversed-row view of reversed records, standard target view, named features", mkds(rv.clone(), t_std.clone(), w_layout(0), Some(&fnames)), true));
        lay_views.push(("every-second-row view of larger records (poison filler rows), reversed target view, reversed weights", mkds(ev.clone(), t_rv.clone(), w_layout(1), None), false));
        lay_views.push(("reversed-feature-axis view of column-reversed records, strided target view, strided weights, named features", mkds(fv.clone(), t_ev.clone(), w_layout(2), Some(&fnames)), true));
        alt = vec![
            ("standard-layout array", recs.view()),
            ("column-major array", cm.view()),
            ("transposed view of a feature-major array", tv),
            ("reversed-row view of a reversed copy", rv),
            ("every-second-row view of a larger array (filler rows hold poison values)", ev),
            ("reversed-feature-axis view of a column-reversed copy", fv),
        ];
    }
    for (ci, cfg) in case.configs.iter().enumerate() {
        if skip.contains(&ci) {
            continue;
        }
        sink(Event::Start(ci));
        let mut st = Stats::default();
        let mut viols: Vec<RawViol> = Vec::new();
        if trace {
            eprintln!("TRACE {} {} {} x={:?} y={:?} w={:?} cfg#{} {:?}", case.family, case.float, case.label_type, case.x, case.y, case.weights, ci, cfg);
        }
        st.distinct_class_counts[distinct.len().min(6)] += 1;
        let standard = check_one(case, ci, cfg, "standard layout", &ds, &recs, None, &alt, &data, &mut viols, &mut st);
        if n > 1000 {
            st.large_fits += 1 + if case.layouts { 6 } else { 0 };
        }
        if case.builder_orders {
            check_builder_orders::<F, L>(ci, cfg, &ds, &recs, &mut viols, &mut st);
        }
        if case.layouts {
            // the same logical data in six other memory layouts of records / targets / weights: every
            // oracle again on each, and the fitted tree must be the very same tree
            let mut others: Vec<(&'static str, Option<String>)> = Vec::new();
            for (name, dsx, named) in &lay_owned {
                others.push((*name, check_one(case, ci, cfg, name, dsx, dsx.records(), if *named { Some(&fnames[..]) } else { None }, &alt, &data, &mut viols, &mut st)));
            }
            for (name, dsx, named) in &lay_views {
                others.push((*name, check_one(case, ci, cfg, name, dsx, dsx.records(), if *named { Some(&fnames[..]) } else { None }, &alt, &data, &mut viols, &mut st)));
            }
            for (name, other) in others {
                st.layout_comparisons += 1;
                if let (Some(a), Some(b)) = (&standard, &other) {
                    if a != b && !viols.iter().any(|v| v.sig == "fit.layout_dependence") {
                        let cut = |t: &String| -> String { t.chars().take(1200).collect() };
                        viols.push(RawViol {
                            sig: "fit.layout_dependence".into(),
                            what: format!("[config #{} {:?}] the same data fitted from [{}] give a different tree than from standard-layout arrays: standard {} | other {}", ci, cfg, name, cut(a), cut(b)),
                            at: json!({"config_index": ci, "config": cfg, "layout": name}),
                        });
                    }
                }
            }
            // calling forms of fit and the dataset helpers the data may be piped through
            // (the form is independent of the limits: run on the configurations with max_depth = None)
            if let (Some(std_summary), None) = (&standard, cfg.max_depth) {
                check_fit_forms::<F, L>(case, ci, cfg, &recs, &targets, names, &fnames, std_summary, &mut viols, &mut st);
            }
        }
        if !viols.is_empty() {
            st.violating_evals += 1;
        }
        sink(Event::Done(viols, st));
    }
}

/// Runs the configurations of the case (except those in `skip`) on the calling thread.
fn run_configs(case: &Case, skip: &[usize], sink: &mut dyn FnMut(Event)) {
    if case.x.is_empty() || case.x[0].is_empty() || case.x.iter().any(|r| r.len() != case.x[0].len()) || case.y.len() != case.x.len() {
        println!("MACHINERY-ERROR malformed case");
        std::process::exit(2);
    }
    let strings: Vec<String> = ["a", "b", "c", "d", "e", "f", "g", "h"].iter().map(|s| s.to_string()).collect();
    let usizes: Vec<usize> = (0..8).collect();
    let bools = [false, true];
    match (case.float.as_str(), case.label_type.as_str()) {
        ("f64", "usize") => run_typed::<f64, usize>(case, &usizes, skip, sink),
        ("f32", "usize") => run_typed::<f32, usize>(case, &usizes, skip, sink),
        ("f64", "string") => run_typed::<f64, String>(case, &strings, skip, sink),
        ("f32", "string") => run_typed::<f32, String>(case, &strings, skip, sink),
        ("f64", "bool") => run_typed::<f64, bool>(case, &bools, skip, sink),
        ("f32", "bool") => run_typed::<f32, bool>(case, &bools, skip, sink),
        _ => {
            println!("MACHINERY-ERROR bad case types");
            std::process::exit(2);
        }
    }
}

/// Hash keys of the fresh thread that runs a case, given how many configurations are skipped.
fn thread_seed(case: &Case, skipped: usize) -> u64 {
    case.hash_seed.wrapping_add((skipped as u64) << 32)
}

/// At most two violations per signature and case are turned into (bulky, replayable) artefacts; the
/// others - the same failure under further configurations of the same dataset - are only counted.
fn attach(case: &Case, raw: Vec<RawViol>, out: &mut Vec<Violation>, st: &mut Stats) {
    if raw.is_empty() {
        return;
    }
    let base = serde_json::to_value(case).unwrap();
    let mut per_sig: std::collections::BTreeMap<String, u32> = Default::default();
    for r in raw {
        let k = per_sig.entry(r.sig.clone()).or_default();
        *k += 1;
        if *k > 2 {
            st.violations_not_stored += 1;
            continue;
        }
        let mut v = base.clone();
        v.as_object_mut().unwrap().insert("at".into(), r.at);
        out.push(Violation::new(r.sig, r.what, v));
    }
}

/// Is there a pair of consecutive distinct values a < b of some feature whose midpoint, computed in
/// the subject's float type, rounds onto b? (closed-form precondition of the known non-termination)
fn has_midpoint_rounding_up(case: &Case) -> bool {
    let d = case.x[0].len();
    for j in 0..d {
        let mut v: Vec<f64> = case.x.iter().map(|r| if case.float == "f32" { r[j] as f32 as f64 } else { r[j] }).collect();
        v.sort_by(|a, b| a.partial_cmp(b).unwrap());
        v.dedup();
        for w in v.windows(2) {
            let mid = if case.float == "f32" { ((w[0] as f32 + w[1] as f32) / 2.0f32) as f64 } else { (w[0] + w[1]) / 2.0 };
            if mid == w[1] {
                return true;
            }
        }
    }
    false
}

// ------------------------------------------------------------------------------------------
// worker processes: the subject runs in child processes, because TreeNode::fit can recurse without
// end and a stack overflow aborts the whole process (not catchable by catch_unwind)
// ------------------------------------------------------------------------------------------

static CURRENT_CONFIG: std::sync::atomic::AtomicUsize = std::sync::atomic::AtomicUsize::new(usize::MAX);

extern "C" {
    fn signal(signum: i32, handler: extern "C" fn(i32)) -> usize;
    fn write(fd: i32, buf: *const u8, count: usize) -> isize;
}

/// SIGABRT handler of a worker (std's stack-overflow handler ends in abort()): tells the parent,
/// with async-signal-safe means only, which configuration was running. abort() then kills the process.
extern "C" fn on_abort(_sig: i32) {
    let mut ci = CURRENT_CONFIG.load(std::sync::atomic::Ordering::Relaxed);
    let mut digits = [0u8; 24];
    let mut nd = 0;
    if ci == usize::MAX {
        return;
    }
    loop {
        digits[nd] = b'0' + (ci % 10) as u8;
        nd += 1;
        ci /= 10;
        if ci == 0 {
            break;
        }
    }
    let mut buf = [0u8; 32];
    buf[0] = b'\n';
    buf[1] = b'A';
    buf[2] = b' ';
    let mut k = 3;
    while nd > 0 {
        nd -= 1;
        buf[k] = digits[nd];
        k += 1;
    }
    buf[k] = b'\n';
    unsafe {
        write(1, buf.as_ptr(), k + 1);
    }
}

/// Worker side: one request per line {"case", "grid"?, "skip"}; answer "R {json}" per case.
fn worker_main() -> ! {
    use std::io::{BufRead, Write};
    std::panic::set_hook(Box::new(|_| {}));
    // an aborting worker must not leave core files behind
    #[repr(C)]
    struct RLimit {
        cur: u64,
        max: u64,
    }
    extern "C" {
        fn setrlimit(resource: i32, rlim: *const RLimit) -> i32;
    }
    unsafe {
        setrlimit(4 /* RLIMIT_CORE */, &RLimit { cur: 0, max: 0 });
        signal(6 /* SIGABRT */, on_abort);
    }
    if !hash_control_works() {
        println!("MACHINERY-ERROR the in-binary getrandom override does not control RandomState keys");
        std::process::exit(2);
    }
    let stdin = std::io::stdin();
    let mut line = String::new();
    loop {
        line.clear();
        match stdin.lock().read_line(&mut line) {
            Ok(0) | Err(_) => std::process::exit(0),
            Ok(_) => {}
        }
        let req: Value = serde_json::from_str(&line).expect("worker request");
        let mut case: Case = serde_json::from_value::<Case>(req["case"].clone()).expect("worker case").exact();
        if let Some(g) = req.get("grid").and_then(|g| g.as_array()) {
            case.configs = grid(g[0].as_u64().unwrap() as u8, g[1].as_u64().unwrap() as u8);
        }
        let skip: Vec<usize> = req["skip"].as_array().map(|a| a.iter().filter_map(|x| x.as_u64().map(|v| v as usize)).collect()).unwrap_or_default();
        let (st, raw) = on_fresh_thread(thread_seed(&case, skip.len()), || {
            let mut st = Stats::default();
            let mut raw: Vec<RawViol> = Vec::new();
            let mut sink = |e: Event| match e {
                Event::Start(ci) => CURRENT_CONFIG.store(ci, std::sync::atomic::Ordering::Relaxed),
                Event::Done(v, s) => {
                    raw.extend(v);
                    st.merge(&s);
                }
            };
            run_configs(&case, &skip, &mut sink);
            (st, raw)
        });
        CURRENT_CONFIG.store(usize::MAX, std::sync::atomic::Ordering::Relaxed);
        let out = std::io::stdout();
        let mut o = out.lock();
        writeln!(o, "R {}", json!({"st": st, "v": raw})).expect("worker stdout");
        o.flush().expect("worker flush");
    }
}

struct Worker {
    child: std::process::Child,
    stdin: std::process::ChildStdin,
    stdout: std::io::BufReader<std::process::ChildStdout>,
}

thread_local!(static WORKER: std::cell::RefCell<Option<Worker>> = const { std::cell::RefCell::new(None) });

fn spawn_worker() -> Worker {
    use std::process::{Command, Stdio};
    let exe = std::env::current_exe().expect("current_exe");
    let mut child = Command::new(&exe)
        .arg("--c14-worker")
        .stdin(Stdio::piped())
        .stdout(Stdio::piped())
        .stderr(if std::env::var("C14_TRACE").is_ok() { Stdio::inherit() } else { Stdio::null() })
        .spawn()
        .expect("spawn worker");
    let stdin = child.stdin.take().unwrap();
    let stdout = std::io::BufReader::new(child.stdout.take().unwrap());
    Worker { child, stdin, stdout }
}

enum WorkerAnswer {
    Done(Stats, Vec<RawViol>),
    /// the worker died; the configuration its SIGABRT handler named, and the signal that killed it
    Died(Option<usize>, Option<i32>, String),
}

fn ask_worker(req: &str, st: &mut Stats) -> WorkerAnswer {
    use std::io::{BufRead, Write};
    use std::os::unix::process::ExitStatusExt;
    WORKER.with(|cell| {
        let mut slot = cell.borrow_mut();
        if slot.is_none() {
            *slot = Some(spawn_worker());
            st.child_processes += 1;
        }
        let w = slot.as_mut().unwrap();
        let sent = w.stdin.write_all(req.as_bytes()).and_then(|_| w.stdin.write_all(b"\n")).and_then(|_| w.stdin.flush());
        let mut marker: Option<usize> = None;
        let mut tail = String::new();
        if sent.is_ok() {
            let mut line = String::new();
            loop {
                line.clear();
                match w.stdout.read_line(&mut line) {
                    Ok(0) | Err(_) => break,
                    Ok(_) => {}
                }
                if let Some(js) = line.strip_prefix("R ") {
                    if let Ok(v) = serde_json::from_str::<Value>(js) {
                        let s: Stats = serde_json::from_value(v["st"].clone()).unwrap_or_default();
                        let r: Vec<RawViol> = serde_json::from_value(v["v"].clone()).unwrap_or_default();
                        return WorkerAnswer::Done(s, r);
                    }
                } else if let Some(k) = line.strip_prefix("A ") {
                    marker = k.trim().parse().ok();
                }
                if !line.trim().is_empty() {
                    tail = line.trim().chars().take(200).collect();
                }
            }
        }
        // the worker is gone
        let mut w = slot.take().unwrap();
        drop(w.stdin);
        let status = w.child.wait().ok();
        WorkerAnswer::Died(marker, status.and_then(|s| s.signal()), tail)
    })
}

/// Runs one case in this thread's worker process. `grid`: the case's configurations are that shared
/// grid (sent by reference); otherwise `case.configs` is sent literally. When the worker is killed
/// by a signal, the configuration it was running is reported and the case is run again without it.
fn run_in_worker(case: &Case, grid_ref: Option<(u8, u8)>, st: &mut Stats) -> Vec<RawViol> {
    let mut skip: Vec<usize> = Vec::new();
    let mut aborted: Vec<RawViol> = Vec::new();
    loop {
        let req = json!({"case": case, "grid": grid_ref.map(|g| vec![g.0, g.1]), "skip": skip}).to_string();
        match ask_worker(&req, st) {
            WorkerAnswer::Done(s, mut raw) => {
                st.merge(&s);
                raw.extend(aborted);
                return raw;
            }
            WorkerAnswer::Died(Some(k), Some(sig), _) if !skip.contains(&k) => {
                let configs = match grid_ref {
                    Some(g) if case.configs.is_empty() => grid(g.0, g.1),
                    _ => case.configs.clone(),
                };
                if k >= configs.len() {
                    println!("MACHINERY-ERROR C14 worker named configuration {} of {}", k, configs.len());
                    std::process::exit(2);
                }
                let cfg = &configs[k];
                let narrow = cfg.max_depth.is_none() && has_midpoint_rounding_up(case);
                st.evals += 1;
                st.nontrivial += 1;
                st.violating_evals += 1;
                st.child_aborts += 1;
                aborted.push(RawViol {
                    sig: if narrow { "fit.unbounded_recursion.threshold_on_upper_data_value".into() } else { "fit.process_abort".into() },
                    what: format!(
                        "[config #{} {:?}] the process running fit + verification was killed by signal {} (a stack overflow of the recursive TreeNode::fit aborts the process){}",
                        k,
                        cfg,
                        sig,
                        if narrow { "; the data contain two adjacent floats whose midpoint rounds onto the larger one, so a split sends all its rows left and is fitted again on the same rows without end (max_depth = None)" } else { "" }
                    ),
                    at: json!({"config_index": k, "config": cfg, "detected_by": "worker process killed by signal"}),
                });
                skip.push(k);
            }
            WorkerAnswer::Died(marker, sig, tail) => {
                println!("MACHINERY-ERROR C14 worker process died without naming a new configuration (marker {:?}, signal {:?}, last output {:?})", marker, sig, tail);
                std::process::exit(2);
            }
        }
    }
}

/// Pure function of the case: all configurations, in order, on one fresh thread (of a worker
/// process) whose hash keys derive from `case.hash_seed`.
fn run_case(case: &Case, viols: &mut Vec<Violation>) -> Stats {
    let mut st = Stats::default();
    let raw = run_in_worker(case, None, &mut st);
    attach(case, raw, viols, &mut st);
    st
}

/// Sweep form of `run_case`: the grid travels by reference and is only spelled out for artefacts.
fn run_lite(l: &Lite, viols: &mut Vec<Violation>) -> (Case, Stats) {
    let mut case = expand(l, false);
    let mut st = Stats::default();
    let raw = run_in_worker(&case, Some((l.grid, l.weights)), &mut st);
    if !raw.is_empty() {
        case.configs = grid(l.grid, l.weights);
        attach(&case, raw, viols, &mut st);
    }
    (case, st)
}

fn replay_value(v: &Value) -> Vec<Violation> {
    let c: Case = match serde_json::from_value::<Case>(v.clone()) {
        Ok(c) => c.exact(),
        Err(e) => {
            println!("MACHINERY-ERROR replay case does not parse: {}", e);
            std::process::exit(2);
        }
    };
    let mut out = Vec::new();
    run_case(&c, &mut out);
    // the whole case is re-run (the hash keys of a fit depend on the fits before it on the thread);
    // keep the violations of the recorded configuration
    if let Some(ci) = v.get("at").and_then(|a| a.get("config_index")).cloned() {
        out.retain(|x| x.case.get("at").and_then(|a| a.get("config_index")) == Some(&ci));
    }
    out
}

// ------------------------------------------------------------------------------------------
// enumeration
// ------------------------------------------------------------------------------------------

struct Variant {
    float: &'static str,
    label: &'static str,
    weights: u8,
    grid: u8,
    hash_seed: u64,
    layouts: bool,
}

/// all value sequences of length n over an alphabet of `a` points x all labelings up to renaming
fn datasets(a: usize, n: usize, max_classes: usize) -> Vec<(Vec<u8>, Vec<u8>)> {
    let mut out = Vec::new();
    let labelings: Vec<Vec<u8>> = rgs(n, max_classes).into_iter().map(|y| y.into_iter().map(|k| k as u8).collect()).collect();
    for seq in en::sequences(n, a) {
        let xi: Vec<u8> = seq.iter().map(|&i| i as u8).collect();
        for y in &labelings {
            out.push((xi.clone(), y.clone()));
        }
    }
    out
}

fn push_family(out: &mut Vec<Lite>, family: &'static str, alphabet: &[Vec<f64>], sets: &[(Vec<u8>, Vec<u8>)], variants: &[Variant]) {
    let alphabet = std::sync::Arc::new(alphabet.to_vec());
    for (xi, y) in sets {
        let classes = y.iter().max().map(|m| m + 1).unwrap_or(0);
        for v in variants {
            if v.label == "bool" && classes > 2 {
                continue;
            }
            out.push(Lite { family, float: v.float, label_type: v.label, alphabet: alphabet.clone(), xi: xi.clone(), y: y.clone(), weights: v.weights, grid: v.grid, hash_seed: v.hash_seed, layouts: v.layouts, builder_orders: family == "builder_orders" });
        }
    }
}

fn enumerate_cases(ctx: &Ctx) -> Vec<Lite> {
    let mut out: Vec<Lite> = Vec::new();
    let v = |float, label, weights, grid, hash_seed| Variant { float, label, weights, grid, hash_seed, layouts: false };
    // the same, fitted from three memory layouts of the records
    let vl = |float, label, weights, grid, hash_seed| Variant { float, label, weights, grid, hash_seed, layouts: true };
    let pts = |dim: usize, side: usize| -> Vec<Vec<f64>> { en::lattice_points(dim, side).iter().map(|p| p.iter().map(|&c| c as f64).collect()).collect() };

    // A: one feature over {0,1,2}
    let alpha_a = pts(1, 3);
    let n_a = ctx.pick(5, 6);
    for n in 1..=n_a {
        let sets = datasets(3, n, 6);
        // quick: the largest n runs unweighted on the full grid and weighted on the small grid
        // quick: the largest n runs on the small grid only
        let mut vars = vec![v("f64", "usize", 0, if n == n_a && ctx.quick() { 1 } else { 0 }, 0)];
        if n < n_a {
            vars.push(v("f64", "usize", 1, 0, 0));
            vars.push(v("f64", "usize", 2, 0, 0));
        } else if ctx.thorough() {
            vars.push(v("f64", "usize", 1, 1, 0));
            vars.push(v("f64", "usize", 2, 1, 0));
        }
        if n < n_a {
            vars.push(v("f64", "string", 0, 0, 0));
            vars.push(v("f32", "usize", 0, 0, 0));
        }
        if n <= ctx.pick(4, 5) {
            // exact zero weights: one zero, a whole class at zero, all but one at zero, alternating 0 / 1
            for wk in 4..=7 {
                vars.push(v(if wk % 2 == 0 { "f64" } else { "f32" }, if wk < 6 { "usize" } else { "string" }, wk, 1, 0));
            }
        }
        if n <= ctx.pick(3, 4) {
            // one-feature (and, for n = 1, one-row) data through every layout and calling form
            vars.push(vl("f64", "string", 1, 1, 0));
            vars.push(vl("f32", "bool", 0, 1, 0));
            vars.push(vl("f64", "usize", 2, 1, 0));
        }
        if n <= 4 {
            vars.push(v("f64", "bool", 1, 0, 0));
            vars.push(v("f32", "string", 2, 0, 0));
        }
        if n <= ctx.pick(4, 5) {
            // nearly balanced heavy weights x tiny min_impurity_decrease (weak splits)
            vars.push(v("f64", "usize", 3, 2, 0));
            if n <= 4 {
                vars.push(v("f32", "string", 3, 3, 0));
            }
        }
        if ctx.thorough() && n <= 4 {
            // further hash-seed streams for the tie-heavy small datasets
            vars.push(v("f64", "usize", 0, 0, 1));
            vars.push(v("f64", "string", 1, 0, 2));
        }
        push_family(&mut out, "1f_lattice3", &alpha_a, &sets, &vars);
    }
    if ctx.quick() {
        // quick only (thorough has all labelings of 6 rows above): 6 rows with 5 or 6 distinct classes
        let sets: Vec<_> = datasets(3, 6, 6).into_iter().filter(|(_, y)| y.iter().max().map_or(0, |m| *m as usize + 1) >= 5).step_by(3).collect();
        push_family(&mut out, "1f_lattice3_n6_5to6_classes", &alpha_a, &sets, &[v("f64", "usize", 0, 1, 0)]);
    }
    // A4: one feature over {0,1,2,3} (room for three nested splits)
    let alpha_a4 = pts(1, 4);
    for n in 1..=ctx.pick(4, 5) {
        let sets = datasets(4, n, 6);
        let mut vars = vec![v("f64", "usize", 0, 0, 0)];
        if ctx.thorough() && n <= 4 {
            vars.push(v("f32", "string", 1, 0, 0));
        }
        push_family(&mut out, "1f_lattice4", &alpha_a4, &sets, &vars);
    }
    // B: two features over {0,1}^2
    let alpha_b = pts(2, 2);
    for n in 1..=ctx.pick(4, 5) {
        let sets = datasets(4, n, 6);
        // layouts: full grid up to n = 3 (quick) / 4 (thorough), small grid for the largest n
        let lay_full = n <= ctx.pick(2, 4);
        let mut vars = if lay_full || n <= 3 || ctx.thorough() { vec![vl("f64", "usize", 0, if lay_full { 0 } else { 1 }, 0)] } else { Vec::new() };
        if !lay_full {
            vars.push(v("f64", "usize", 0, 0, 0));
        }
        vars.push(v("f64", "usize", 1, if n <= 4 { 0 } else { 1 }, 0));
        if n <= 4 && (n <= 3 || ctx.thorough()) {
            vars.push(v("f32", "string", 2, 0, 0));
        }
        if n <= 4 {
            vars.push(v("f64", "usize", 3, 2, 0));
        }
        if n <= 3 {
            vars.push(vl("f32", "string", 1, 1, 0));
            vars.push(vl("f64", "usize", 5, 1, 0));
            vars.push(v("f64", "bool", 7, 1, 0));
        }
        push_family(&mut out, "2f_lattice2x2", &alpha_b, &sets, &vars);
    }
    // D: two features over {0,1,2}^2 (rows of other subtrees lie between the rows of a node)
    let alpha_d = pts(2, 3);
    for n in 1..=ctx.pick(3, 4) {
        let sets = datasets(9, n, 6);
        let mut vars = if n <= 3 { vec![v("f64", "usize", 0, 0, 0)] } else { vec![vl("f64", "usize", 0, 1, 0)] };
        if n <= ctx.pick(2, 3) {
            vars.push(vl("f64", "usize", 1, 1, 0));
        }
        if n <= 3 {
            vars.push(v("f32", "bool", 0, 0, 0));
        }
        if n <= 2 || (n == 3 && ctx.thorough()) {
            vars.push(v("f64", "usize", 1, 0, 0));
        }
        push_family(&mut out, "2f_lattice3x3", &alpha_d, &sets, &vars);
    }
    // F: three features over {0,1}^3, always fitted from the three memory layouts
    let alpha_f = pts(3, 2);
    for n in 1..=ctx.pick(3, 4) {
        let sets = datasets(8, n, 6);
        let mut vars = vec![vl("f64", "usize", 0, 1, 0)];
        if n <= ctx.pick(2, 3) {
            vars.push(vl("f32", "bool", 1, 1, 0));
        }
        push_family(&mut out, "3f_lattice2x2x2", &alpha_f, &sets, &vars);
    }
    // W: wide records: an informative feature at column j of d in {4,5,6,7,9}, a decoy feature (the
    // informative values in reverse row order) next to it, constants elsewhere; all layouts and forms
    for dd in [4usize, 5, 6, 7, 9] {
        let base: Vec<(Vec<u8>, Vec<u8>)> = datasets(3, 4, 4).into_iter().filter(|(xi, y)| xi.iter().any(|&a| a != xi[0]) && y.iter().any(|&k| k != y[0])).step_by(ctx.pick(40, 8)).collect();
        for j in 0..dd {
            let alpha: Vec<Vec<f64>> = (0..9).map(|k| (0..dd).map(|c| if c == j { (k / 3) as f64 } else if c == (j + 1) % dd { (k % 3) as f64 } else { 7.0 }).collect()).collect();
            let sets: Vec<(Vec<u8>, Vec<u8>)> = base.iter().map(|(xi, y)| ((0..xi.len()).map(|i| xi[i] * 3 + xi[xi.len() - 1 - i]).collect(), y.clone())).collect();
            let var = if (dd + j) % 2 == 0 { vl("f64", "usize", 1, 1, 0) } else { vl("f32", "string", 0, 1, 0) };
            push_family(&mut out, "wide_4_to_9_features", &alpha, &sets, &[var]);
        }
    }
    // G: size thresholds: 2-feature base datasets of n0 rows cycled to 1025 / 4097 rows
    for n0 in 2..=ctx.pick(2, 3) {
        let bases = datasets(4, n0, 6);
        for big_n in [1025usize, 4097] {
            let sets: Vec<(Vec<u8>, Vec<u8>)> = bases.iter().map(|(xi, y)| ((0..big_n).map(|i| xi[i % n0]).collect(), (0..big_n).map(|i| y[i % n0]).collect())).collect();
            let mut vars = vec![v("f64", "usize", 0, 4, 0)];
            if ctx.thorough() {
                vars.push(v("f32", "string", 1, 4, 0));
            }
            if n0 == 2 && (big_n == 1025 || ctx.thorough()) {
                vars.push(vl("f32", "usize", 1, 4, 0));
            }
            push_family(&mut out, "large_replicated_2f", &alpha_b, &sets, &vars);
        }
    }
    // H: builder history: a spread of small datasets, every configuration of the small grid built
    // through all 120 setter orders, plain and with decoy writes first
    {
        let all: Vec<(Vec<u8>, Vec<u8>)> = datasets(3, 4, 6).into_iter().filter(|(xi, y)| xi.iter().any(|&a| a != xi[0]) && y.iter().any(|&k| k != y[0])).collect();
        let stride = ctx.pick(30, 6);
        let sets: Vec<(Vec<u8>, Vec<u8>)> = all.into_iter().step_by(stride).collect();
        push_family(&mut out, "builder_orders", &alpha_a, &sets, &[v("f64", "usize", 1, 1, 0)]);
        if ctx.thorough() {
            push_family(&mut out, "builder_orders", &alpha_a, &sets, &[v("f32", "string", 0, 1, 1)]);
        }
    }
    // C: adjacency family: four consecutive floats whose spacing is above the subject's 1e-5
    // "equal values" margin, so that the midpoint of two neighbours rounds onto one of them
    let adj: [(&'static str, &'static str, f64, f64); 4] = [
        ("adjacent_f32_at_2p24", "f32", 16777216.0, 2.0),
        ("adjacent_f32_at_256", "f32", 256.0, 2f64.powi(-15)),
        ("adjacent_f64_at_2p53", "f64", 9007199254740992.0, 2.0),
        ("adjacent_f64_at_2p40", "f64", 1099511627776.0, 2f64.powi(-12)),
    ];
    for (fam, fl, base, ulp) in adj {
        let alpha: Vec<Vec<f64>> = (0..4).map(|k| vec![base + k as f64 * ulp]).collect();
        for n in 2..=ctx.pick(3, 4) {
            let sets = datasets(4, n, 3);
            let mut vars = vec![v(fl, "usize", 0, 1, 0)];
            if n <= 3 {
                vars.push(v(fl, "string", 1, 1, 0));
            }
            push_family(&mut out, fam, &alpha, &sets, &vars);
        }
    }
    // E: values closer than / about the 1e-5 margin
    let alpha_e: Vec<Vec<f64>> = vec![vec![0.0], vec![8e-6], vec![1.6e-5], vec![2.6e-5], vec![1.0]];
    for n in 2..=ctx.pick(4, 5) {
        let sets = datasets(5, n, 3);
        let mut vars = vec![v("f64", "usize", 0, 1, 0)];
        if n <= 3 || (ctx.thorough() && n <= 4) {
            vars.push(v("f32", "usize", 1, 1, 0));
        }
        push_family(&mut out, "near_equal_1e-5", &alpha_e, &sets, &vars);
    }
    out
}

fn main() {
    if std::env::args().any(|a| a == "--c14-worker") {
        worker_main();
    }
    let ctx = Ctx::new("C14", Level::Exploration);
    if !hash_control_works() {
        println!("MACHINERY-ERROR the in-binary getrandom override does not control RandomState keys; runs would not be replayable");
        std::process::exit(2);
    }
    ctx.maybe_replay(&replay_value);
    ctx.set_rule(
        "case = (dataset, float type, label type, sample weights, hash seed) fitted under every configuration of a grid; \
         datasets: ALL value sequences of n rows over the family's alphabet x ALL labelings up to renaming of the classes (restricted growth strings, <= 6 classes; \
         includes duplicates with conflicting labels, constant features, single-class sets): 1 feature over {0,1,2} (n <= 5 quick / 6 thorough; quick: n = 5 on the small grid, plus every third n = 6 dataset with >= 5 classes on the small grid), 1 feature over {0,1,2,3} (n <= 4 / 5), \
         2 features over {0,1}^2 (n <= 4 / 5), 2 features over {0,1,2}^2 (n <= 3 / 4), 3 features over {0,1}^3 (n <= 3 / 4, small grid); wide records: 4, 5, 6, 7 and 9 features with the informative feature at every column position, a decoy feature next to it and constants elsewhere (every 40th / 8th informative 4-row dataset, small grid, all layouts and forms); \
         memory layouts: the one-feature datasets of <= 3 / 4 rows (one-feature and one-row shapes) and the multi-feature families are additionally fitted (all of 3f; 2x2: unweighted, full grid for n <= 3 / 4, small grid for the largest n, + a f32 small-grid variant; 3x3: a weighted small-grid variant; large-n: a f32 variant) from six other layouts: column-major owned records, standard owned records, a transposed view of feature-major records, a reversed-row view of a reversed copy, an every-second-row view of a larger array whose filler rows hold poison values, a reversed-feature-axis view of a column-reversed copy - each combined with targets as reversed / every-second-element views (wrong labels in between) and sample weights as owned arrays with stride -1 / 2, three of them with feature names set (split nodes must report the given name, else the default feature-<idx>) - every oracle again on each layout, the tree (nodes with bit-exact thresholds / decreases, predictions of the training rows) must equal the standard-layout tree (fit.layout_dependence), and every fitted tree must predict the same labels for the training rows handed over in each of the five layouts (predict.layout_dependence); on the same cases every calling form of predict (&dataset, dataset view by value, owned records, owned dataset, predict_inplace) must return the labels of predict(&records) (predict.calling_form_dependence), and fit through check_ref / check / a dataset view / map_targets on a strided class-index view / into_single_target from column-major and strided n x 1 targets / with_labels (Copy labels) must give the tree of params.fit(&dataset) (fit.calling_form_dependence; on the configurations with max_depth = None); \
         size thresholds: every 2-feature dataset of 2 (quick) / 2..3 (thorough) rows over {0,1}^2 cycled to 1025 and 4097 rows, large-n grid = 2 x {None,1,2} x min_weight_split {2,600.5,1100} x min_weight_leaf {1,300,1500} x {1e-5,0.1} (108); \
         builder history: every 30th (quick) / 6th (thorough) informative 4-row dataset over {0,1,2}, small grid, each configuration built through all 120 orders of the five setters, plain and with decoy writes first: checked parameters must publish the values set and the fitted tree must equal the canonical-order tree (tree.params.builder_order_dependence; each order = one evaluation), adjacency families = 4 consecutive floats at 2^24 and 256 (f32), 2^53 and 2^40 (f64) (n <= 3 / 4, <= 3 classes; fit can overflow the stack there), \
         near-equal family {0, 8e-6, 1.6e-5, 2.6e-5, 1} (n <= 4 / 5); label types usize / bool / String; weights none / 1,2,1,2.. / all 0.5 / with exact zeros (one zero, the whole class of row 0 at zero, all but one sample at zero, alternating 0 / 1; small grid; 1 feature n <= 4 / 5 and {0,1}^2 n <= 3, one variant through all layouts) / cycling 501,499,499,501 (nearly balanced nodes, run on the weak-split grid = 2 x {None,1,2} x {1,2,2.5} x min_weight_leaf {1,600,1001} x min_impurity_decrease {1e-9 (f64) or 2e-7 (f32), 1e-5, 0.1} (162) on 1 feature over {0,1,2} with n <= 4 / 5 and {0,1}^2 with n <= 4); \
         full grid = {gini, entropy} x max_depth {None,0,1,2} x min_weight_split {1,2,2.5,3,3.5} (non-integer values: a node reached by floor(v) rows must not be split) x min_weight_leaf {1,2} ({0.5,1} with weights 0.5) x min_impurity_decrease {1e-5,0.1,0.3} (240), \
         small grid (adjacency / near-equal) = 2 x {None,1,2} x {1,2,2.5} x {1,2} x {1e-5,0.1} (72). \
         evaluation = one fit + full verification of the tree; non-trivial = the fitted tree has at least one split node. Distinct by construction of the enumerators.",
    );
    ctx.assume("oracle routes training rows with the documented rule `feature <= split value` -> left (rustdoc of DecisionTree, and the rule TreeNode::fit applies to build its masks)");
    ctx.assume("reported impurity decrease vs decrease recomputed in f64 from the definition: tolerance = 8 f32 ulps (8 x 1.19e-7) of max(parent impurity, 0.5), i.e. ~4.8e-7 for a Gini node near 0.5 (the subject computes impurities in f32; absorbs summation order; the largest error seen is in the evidence); actual decreases within that tolerance of min_impurity_decrease are counted indeterminate");
    ctx.assume("all sample weights are dyadic (1, 2, 0.5) or small integers (499, 501) so class weights are exact in f32 and f64: a leaf must predict ANY label that occurs in the leaf and whose weight equals the maximum exactly (ties accepted; in a node whose rows all weigh 0 any class present); a zero-weight sample is a row like any other for routing and for the row count compared with min_weight_split");
    ctx.assume("min_weight_split is checked against the NUMBER of rows reaching the node (as the property states and the code does); nodes whose total WEIGHT is below it are only counted (parameter doc speaks of weight)");
    ctx.assume("feature importances: >= 0, finite, sum to 1 within 1e-9 (f64) / 1e-5 (f32), only demanded when the tree has a split; mean_impurity_decrease vs own mean of reported decreases within relative 1e-6");
    ctx.assume("hash-map order is a controlled input: in-binary getrandom override + one fresh thread per case keyed by the case's hash_seed (self-tested at start-up); VERIF_SEED plays no role");
    ctx.assume("the subject runs in worker processes (one per harness thread): TreeNode::fit can recurse without end and the resulting stack overflow aborts the process; a worker killed by a signal = violation of the configuration it was running (named by its SIGABRT handler), the case is then re-run without that configuration; before an unbounded fit the same configuration is fitted with max_depth = n + 1 and a tree deeper than n - 1 is reported instead of running the unbounded fit");
    ctx.assume("empty datasets, non-finite values, negative weights and min_weight_leaf <= 0 are outside the enumerated domain");

    let mut cases = enumerate_cases(&ctx);
    // development aid: restrict the sweep to the families whose name contains C14_FAMILY (the run is then marked non-exhaustive)
    if let Ok(f) = std::env::var("C14_FAMILY") {
        cases.retain(|c| c.family.contains(&f));
        ctx.capped(&format!("restricted to families matching {:?} by C14_FAMILY", f));
    }
    ctx.extra("cases_enumerated", json!(cases.len()));
    let mut per_family: std::collections::BTreeMap<&str, u64> = Default::default();
    for c in &cases {
        *per_family.entry(c.family).or_default() += 1;
    }
    ctx.extra("cases_per_family", json!(per_family));

    let totals = Mutex::new(Stats::default());
    let done = std::sync::atomic::AtomicU64::new(0);
    let fam_nontrivial: Mutex<std::collections::BTreeMap<&str, u64>> = Mutex::new(Default::default());
    par_sweep(&ctx, "tree sweep", &cases, |l| {
        let mut v = Vec::new();
        let (case, st) = run_lite(l, &mut v);
        ctx.evals(st.evals, st.nontrivial);
        for _ in 0..st.indeterminate {
            ctx.indeterminate();
        }
        ctx.violations(v);
        totals.lock().unwrap().merge(&st);
        *fam_nontrivial.lock().unwrap().entry(l.family).or_default() += st.nontrivial;
        done.fetch_add(1, std::sync::atomic::Ordering::Relaxed);
        ctx.sample(|| json!({"family": case.family, "float": case.float, "label_type": case.label_type, "x": case.x, "y": case.y, "weights": case.weights, "hash_seed": case.hash_seed, "layouts": if case.layouts { "standard + column-major + transposed view" } else { "standard" }, "grid": match l.grid { 0 => "full (240 configurations)", 1 => "small (72 configurations)", 4 => "large-n (108 configurations: min_weight_split {2,600.5,1100}, min_weight_leaf {1,300,1500})", _ => "weak-split (162 configurations, min_impurity_decrease down to 1e-9 / 2e-7)" }}));
    });
    let t = totals.lock().unwrap().clone();
    let done = done.load(std::sync::atomic::Ordering::Relaxed);
    ctx.extra("cases_completed", json!(done));
    if done != cases.len() as u64 {
        ctx.capped(&format!("only {} of {} cases were run", done, cases.len()));
    }
    ctx.extra("nontrivial_fits_per_family", json!(*fam_nontrivial.lock().unwrap()));
    ctx.extra("split_nodes_verified", json!(t.split_nodes));
    ctx.extra("leaves_verified", json!(t.leaves));
    ctx.extra("trees_with_depth_ge_2", json!(t.trees_depth_ge2));
    ctx.extra("leaves_with_tied_weighted_modes", json!(t.leaves_with_tied_modes));
    ctx.extra("training_rows_exactly_on_a_threshold", json!(t.rows_exactly_on_a_threshold));
    ctx.extra("split_nodes_whose_threshold_equals_a_training_value", json!(t.thresholds_equal_to_a_training_value));
    ctx.extra("split_nodes_with_weight_below_min_weight_split_but_row_count_ok", json!(t.split_nodes_weight_below_min_weight_split_but_count_ok));
    ctx.extra("trees_without_split_importance_not_demanded", json!(t.trees_without_split_importance_undefined));
    ctx.extra("max_abs_error_of_reported_impurity_decrease", json!(t.max_decrease_err));
    ctx.extra("max_error_of_reported_impurity_decrease_in_f32_ulps_of_parent_impurity", json!(t.max_decrease_err_units));
    ctx.extra("split_nodes_with_actual_decrease_below_1e-5", json!(t.split_nodes_with_decrease_below_1e_5));
    ctx.extra("trees_with_a_split_whose_mean_decreases_sum_below_1e-5", json!(t.trees_with_split_and_total_decrease_below_1e_5));
    ctx.extra("evaluations_with_a_violation", json!(t.violating_evals));
    ctx.extra("trees_compared_with_the_standard_layout_tree", json!(t.layout_comparisons));
    ctx.extra("predict_calls_on_other_layouts_compared", json!(t.predict_layout_comparisons));
    ctx.extra("setter_orders_built_checked_and_fitted", json!(t.builder_orders_checked));
    ctx.extra("predict_calling_forms_compared", json!(t.predict_forms_compared));
    ctx.extra("fit_calling_forms_and_dataset_helper_pipelines_compared", json!(t.fit_forms_compared));
    ctx.extra("fits_on_1025_or_4097_rows", json!(t.large_fits));
    ctx.extra("violations_counted_but_not_stored_beyond_2_per_signature_and_case", json!(t.violations_not_stored));
    ctx.extra("worker_processes_started", json!(t.child_processes));
    ctx.extra("worker_processes_killed_by_stack_overflow", json!(t.child_aborts));
    ctx.extra("fits_by_number_of_distinct_classes", json!({"1": t.distinct_class_counts[1], "2": t.distinct_class_counts[2], "3": t.distinct_class_counts[3], "4": t.distinct_class_counts[4], "5": t.distinct_class_counts[5], "6": t.distinct_class_counts[6]}));
    ctx.finish(&replay_value);
}
