//! C18 — PCA returns the leading orthonormal principal axes with their true variances.
//!
//! Bounded exhaustive sweep (DESIGN.md §4 C18): every matrix of a finite catalogue (rank-1 integer
//! lattices, exactly isotropic cross-polytopes, axis scales 1:10:100, rotated, low-rank + constant
//! jitter, offset 1e3, per-column scales 1e-3 / 1e3) x every embedding size 1..p x whitening off/on,
//! plus the error sizes 0 and p+1 and empty data, is fitted with the REAL `Pca` and compared with a
//! plain-f64 cyclic Jacobi eigen-decomposition of the sample covariance (divisor n-1).

use linfa::traits::{Fit, Predict, Transformer};
use linfa::DatasetBase;
use linfa_reduction::Pca;
use lvmc_core::enumerate as en;
use lvmc_core::refmath::{self as rm, Mat};
use lvmc_core::{guarded, json, par_sweep, Ctx, Level, Value, Violation};
use ndarray::{Array2, ShapeBuilder};
use serde::{Deserialize, Serialize};
use std::sync::atomic::{AtomicU64, Ordering};

/// Accuracy demanded from everything that goes through the iterative solver (LOBPCG).
const TOL: f64 = 1e-6;
/// Accuracy demanded where the harness only recomputes a formula from the model's own numbers.
const TOL_INTERNAL: f64 = 1e-9;
/// Relative spectral gap (difference of neighbouring eigenvalues / lambda_1) from which on two
/// eigenvalues count as separated (axes compared one by one); closer ones form a degenerate block
/// (projectors compared).
const GAP: f64 = 1e-3;
/// linfa-linalg `TruncatedSvd`: precision 1e-5, squared = absolute residual tolerance of the
/// eigenproblem of the centred Gram matrix X^T X.
const SOLVER_RES_TOL: f64 = 1e-10;
/// linfa-linalg drops eigenvalues <= f64::EPSILON * 1e6 * lambda_max as "null space".
const SOLVER_CUTOFF: f64 = 2.220446049250313e-16 * 1.0e6;
/// Domain predicate: the k-th eigenvalue must be at least 100 x that cut-off relative to the first.
const DOMAIN_RATIO: f64 = 100.0 * SOLVER_CUTOFF;

#[derive(Clone, Debug, Serialize, Deserialize)]
struct Case {
    /// "fit" | "err_k0" | "err_kp1" | "err_empty" | "history"
    kind: String,
    family: String,
    variant: usize,
    n: usize,
    p: usize,
    /// the record matrix, row major, literal numbers (for reading)
    x: Vec<Vec<f64>>,
    /// the same numbers as IEEE-754 bit patterns: what a replay actually uses (serde_json's default
    /// float parser may be 1 ulp off, and unconverged solver output is sensitive to that)
    #[serde(default)]
    x_bits: Vec<Vec<u64>>,
    /// second matrix of the same shape (kind "history" only): the "other batch"
    #[serde(default)]
    y: Vec<Vec<f64>>,
    #[serde(default)]
    y_bits: Vec<Vec<u64>>,
    k: usize,
    whiten: bool,
    /// memory layout of the records handed to fit / predict / transform:
    /// "standard" | "col_major_owned" | "transposed_view" | "reversed_rows_view" | "reversed_features_view"
    #[serde(default = "standard_layout")]
    layout: String,
}

fn standard_layout() -> String {
    "standard".into()
}

const LAYOUTS: [&str; 5] = ["standard", "col_major_owned", "transposed_view", "reversed_rows_view", "reversed_features_view"];

#[derive(Default, Clone, Debug)]
struct Stats {
    nontrivial: bool,
    out_of_domain: bool,
    error_case: bool,
    solver_violation: bool,
    single_axes_checked: u64,
    degenerate_blocks_checked: u64,
    straddling_blocks_skipped: u64,
    widened: u64,
    needed_widening: u64,
    full_rank_identity_checked: u64,
    projection_checked: u64,
    layout_compared: u64,
    single_row_checked: u64,
    history_case: bool,
    history_steps: u64,
    max_orth: f64,
    max_align: f64,
    max_align_widened_tol: f64,
    max_var_rel: f64,
    max_whiten: f64,
    max_recon_rel: f64,
    min_rel_gap_checked: f64,
}

fn to_arr(x: &Mat, p: usize) -> Array2<f64> {
    Array2::from_shape_fn((x.len(), p), |(i, j)| x[i][j])
}

fn x_of(case: &Case, i: usize, j: usize) -> f64 {
    case.x[i][j]
}

fn to_mat(a: &Array2<f64>) -> Mat {
    a.outer_iter().map(|r| r.to_vec()).collect()
}

fn norm(v: &[f64]) -> f64 {
    rm::dot(v, v).sqrt()
}

/// Orthogonal projector (p x p) onto the span of the given rows (modified Gram-Schmidt, twice).
fn projector(rows: &[Vec<f64>], p: usize) -> Mat {
    let mut q: Vec<Vec<f64>> = Vec::new();
    for r in rows {
        let mut v = r.clone();
        for _ in 0..2 {
            for b in &q {
                let d = rm::dot(&v, b);
                for j in 0..p {
                    v[j] -= d * b[j];
                }
            }
        }
        let nv = norm(&v);
        if nv > 0.0 {
            for x in v.iter_mut() {
                *x /= nv;
            }
            q.push(v);
        }
    }
    let mut pr = rm::zeros(p, p);
    for b in &q {
        for i in 0..p {
            for j in 0..p {
                pr[i][j] += b[i] * b[j];
            }
        }
    }
    pr
}

fn frob_diff(a: &Mat, b: &Mat) -> f64 {
    let mut s = 0.0;
    for (ra, rb) in a.iter().zip(b) {
        for (x, y) in ra.iter().zip(rb) {
            s += (x - y) * (x - y);
        }
    }
    s.sqrt()
}

fn fmt_vec(v: &[f64]) -> String {
    let parts: Vec<String> = v.iter().map(|x| format!("{:.9e}", x)).collect();
    format!("[{}]", parts.join(", "))
}

/// What a fit returned, kept for the layout comparison and for the classification.
struct Fitted {
    /// `&records - &mean`, the expression of PcaParams::fit, evaluated on the records in their layout
    centred: Array2<f64>,
    sigma: Vec<f64>,
    mean: Vec<f64>,
    comp: Mat,
}

fn run_case(case: &Case, viols: &mut Vec<Violation>) -> Stats {
    if case.kind == "history" {
        return run_history(case, viols);
    }
    let mut sv: Vec<Violation> = Vec::new();
    let mut fitted: Option<Fitted> = None;
    let p = case.p;
    let n = case.x.len();
    let mut st = match case.layout.as_str() {
        "col_major_owned" => {
            // owned array in Fortran order
            let mut a = Array2::<f64>::zeros((n, p).f());
            for i in 0..n {
                for j in 0..p {
                    a[(i, j)] = case.x[i][j];
                }
            }
            run_case_inner(case, a, viols, &mut sv, &mut fitted)
        }
        "transposed_view" => {
            // feature-major (p x n) buffer, viewed as n x p
            let fm = Array2::from_shape_fn((p, n), |(j, i)| case.x[i][j]);
            run_case_inner(case, fm.t(), viols, &mut sv, &mut fitted)
        }
        "reversed_rows_view" => {
            // copy with the rows in reverse order, viewed through a negative row stride
            let rev = Array2::from_shape_fn((n, p), |(i, j)| case.x[n - 1 - i][j]);
            run_case_inner(case, rev.slice(ndarray::s![..;-1, ..]), viols, &mut sv, &mut fitted)
        }
        "reversed_features_view" => {
            // copy with the features in reverse order, viewed through a negative column stride
            // (`records.slice(s![.., ..;-1])`: contiguous in memory order, but not in logical order)
            let rev = Array2::from_shape_fn((n, p), |(i, j)| case.x[i][p - 1 - j]);
            run_case_inner(case, rev.slice(ndarray::s![.., ..;-1]), viols, &mut sv, &mut fitted)
        }
        _ => run_case_inner(case, to_arr(&case.x, p), viols, &mut sv, &mut fitted),
    };
    st.solver_violation = !sv.is_empty();
    // ---- the memory layout is not part of the input: same logical matrix, same seed -> same model
    if case.kind != "err_empty" && case.kind != "err_k0" && case.kind != "err_kp1" && case.layout != "standard" && sv.is_empty() {
        if let Some(f) = &fitted {
            let mut std_case = case.clone();
            std_case.layout = "standard".into();
            let (mut v2, mut sv2, mut f2) = (Vec::new(), Vec::new(), None);
            run_case_inner(&std_case, to_arr(&case.x, p), &mut v2, &mut sv2, &mut f2);
            if let (Some(g), true) = (f2, sv2.is_empty()) {
                if let Some(w) = compare_fits(case, f, &g) {
                    viols.push(Violation::new("pca.fit.depends_on_memory_layout", w, serde_json::to_value(case).unwrap()));
                }
                st.layout_compared = 1;
            }
        }
    }
    if !sv.is_empty() {
        // Classification only (the verdict is already decided): did the LOBPCG call of PcaParams::fit end
        // with an error that TruncatedSvd::decompose swallows (it then hands back an unconverged iterate)?
        let cause = fitted.and_then(|f| guarded(|| solver_ending(&f.centred, case.k, &f.sigma)).ok().flatten());
        match cause {
            Some((sig, c)) => {
                let sigs: Vec<String> = sv.iter().map(|v| v.sig.clone()).collect();
                viols.push(Violation::new(sig, format!("{} [failed assertions: {}] -- cause: {}", sv[0].what, sigs.join(", "), c), serde_json::to_value(case).unwrap()));
            }
            None => viols.extend(sv),
        }
    }
    st
}

/// Model fitted on a non-standard layout vs. model fitted on the standard layout of the same matrix
/// (both without any solver-family violation): mean, singular values and - when the spectrum has a
/// gap at the cut - the component subspace must agree.
fn compare_fits(case: &Case, a: &Fitted, b: &Fitted) -> Option<String> {
    let p = case.p;
    if a.sigma.len() != b.sigma.len() {
        return Some(format!("{} components with layout {}, {} with the standard layout", a.sigma.len(), case.layout, b.sigma.len()));
    }
    for j in 0..p {
        let m = case.x.iter().fold(0.0f64, |s, r| s.max(r[j].abs()));
        if !((a.mean[j] - b.mean[j]).abs() <= 1e-12 * m) {
            return Some(format!("mean()[{}] = {:e} with layout {}, {:e} with the standard layout", j, a.mean[j], case.layout, b.mean[j]));
        }
    }
    // both fits passed the variance oracle (|sigma_i^2/(n-1) - lambda_i| <= 1e-6 lambda_1), so their
    // variances may differ by at most twice that
    let s1 = b.sigma[0];
    for i in 0..a.sigma.len() {
        if !((a.sigma[i] * a.sigma[i] - b.sigma[i] * b.sigma[i]).abs() <= 2.0 * TOL * s1 * s1) {
            return Some(format!("singular value {} = {:e} with layout {}, {:e} with the standard layout", i, a.sigma[i], case.layout, b.sigma[i]));
        }
    }
    // subspace: only meaningful when the cut is not inside a block of (nearly) equal singular values;
    // both fits passed the alignment oracle, so the gap test of that oracle applies: use sigma^2
    let kk = a.sigma.len();
    let cov = rm::covariance(&case.x, 1.0);
    let (lam, _) = rm::jacobi_eig(&cov);
    let gapped = kk == p || (lam[kk - 1] - lam[kk]) / lam[0] >= GAP;
    if gapped {
        let e = frob_diff(&projector(&a.comp, p), &projector(&b.comp, p)) / std::f64::consts::SQRT_2;
        if !(e <= 2.0 * TOL) {
            return Some(format!("component subspace with layout {} differs from the standard-layout one: projector distance {:e}", case.layout, e));
        }
    }
    None
}

/// Re-runs exactly the solver call of `PcaParams::fit` (centred matrix `x - &mean`, SmallRng seed 42,
/// f32 start block, tolerance (1e-5f32)^2, 2 n iterations, Order::Largest) through the public
/// `linfa_linalg::lobpcg::lobpcg`, which — unlike `TruncatedSvd::decompose` — reports how it ended.
/// Returns (signature, description) when its best iterate reproduces the model's singular values bit
/// for bit AND it either ended with an error (which `decompose` maps to Ok) or returned Ok although a
/// residual norm is still above the tolerance (iteration cap min(10 dim, 2 n) reached).
fn solver_ending(xc: &Array2<f64>, k: usize, sigma_model: &[f64]) -> Option<(&'static str, String)> {
    use linfa_linalg::lobpcg::{lobpcg, Lobpcg};
    use linfa_linalg::Order;
    use rand::{rngs::SmallRng, Rng, SeedableRng};
    let (n, m) = (xc.nrows(), xc.ncols());
    let mut rng = SmallRng::seed_from_u64(42);
    let x0: Array2<f32> = Array2::from_shape_fn((n.min(m), k), |_| rng.gen::<f32>());
    let x0 = x0.mapv(|v| v as f64);
    let prec = 1e-5f32 * 1e-5f32;
    let res = if n > m {
        lobpcg(|y| xc.t().dot(&xc.dot(&y)), x0, |_| {}, None, prec, 2 * n, Order::Largest)
    } else {
        lobpcg(|y| xc.dot(&xc.t().dot(&y)), x0, |_| {}, None, prec, 2 * n, Order::Largest)
    };
    let same_sigma = |best: &Lobpcg<f64>| {
        let mut ev: Vec<f64> = best.eigvals.to_vec();
        ev.sort_by(|a, b| b.partial_cmp(a).unwrap());
        let cutoff = f64::EPSILON * 1e6 * ev[0];
        let sig: Vec<f64> = ev.iter().filter(|v| **v > cutoff).map(|v| v.sqrt().max(1e-8)).collect();
        sig == sigma_model
    };
    match res {
        Err((e, Some(best))) if same_sigma(&best) => Some((
            "pca.fit.unconverged_axes_after_swallowed_lobpcg_error",
            format!(
                "lobpcg() on the centred {}x{} matrix with block size {} ended with Err({:?}) (Cholesky of a rank-deficient residual block); TruncatedSvd::decompose maps that to Ok(best iterate so far), residual norms of that iterate: {:?} (tolerance 1e-10); its singular values are bit-identical to the model's",
                n, m, k, e, best.rnorm
            ),
        )),
        Ok(best) if same_sigma(&best) && best.rnorm.iter().any(|r| !(*r <= prec as f64)) => Some((
            "pca.fit.inaccurate_after_lobpcg_iteration_cap",
            format!(
                "lobpcg() on the centred {}x{} matrix with block size {} used up its iteration cap min(10 x {}, 2 x {}) and returned Ok with residual norms {:?} (tolerance 1e-10); nothing tells PcaParams::fit that the tolerance was not reached; singular values bit-identical to the model's",
                n, m, k, n.min(m), n, best.rnorm
            ),
        )),
        Ok(best) if same_sigma(&best) && best.eigvecs.columns().into_iter().any(|c| !((c.dot(&c).sqrt() - 1.0).abs() <= TOL)) => Some((
            "pca.fit.collapsed_axis_after_lobpcg_false_convergence",
            format!(
                "lobpcg() on the centred {}x{} matrix with block size {} returned Ok with all residual norms {:?} below the ABSOLUTE tolerance 1e-10, but its eigenvector block is not normalised: column norms {:?} (a collapsed column has a tiny residual whatever its direction); singular values bit-identical to the model's",
                n,
                m,
                k,
                best.rnorm,
                best.eigvecs.columns().into_iter().map(|c| c.dot(&c).sqrt()).collect::<Vec<f64>>()
            ),
        )),
        _ => None,
    }
}

fn run_case_inner<D>(case: &Case, xa: ndarray::ArrayBase<D, ndarray::Ix2>, viols: &mut Vec<Violation>, sv: &mut Vec<Violation>, fitted: &mut Option<Fitted>) -> Stats
where
    D: ndarray::Data<Elem = f64> + ndarray::RawDataClone,
{
    let mut st = Stats::default();
    st.min_rel_gap_checked = f64::INFINITY;
    // `sv` collects the violations of the statements that depend on the iterative solver having
    // converged (leading eigenspace, true variances); they are classified by the caller
    let cj = || serde_json::to_value(case).unwrap();
    let (n, p, k) = (case.n, case.p, case.k);
    let ds = DatasetBase::from(xa.clone());
    let fit = guarded(|| Pca::params(k).whiten(case.whiten).fit(&ds));

    // ------------------------------------------------------------------ error menu
    if case.kind != "fit" {
        st.error_case = true;
        let (accepted, panicked) = match case.kind.as_str() {
            "err_empty" => ("pca.fit.empty_data_accepted", "pca.fit.empty_data_panic"),
            _ => ("pca.fit.bad_embedding_size_accepted", "pca.fit.bad_embedding_size_panic"),
        };
        match fit {
            Ok(Err(_)) => {}
            Ok(Ok(m)) => viols.push(Violation::new(
                accepted,
                format!(
                    "fit of a {}x{} matrix with embedding size {} ({}) returned a model with {} components instead of an error",
                    n,
                    p,
                    k,
                    case.kind,
                    m.components().nrows()
                ),
                cj(),
            )),
            Err(msg) => viols.push(Violation::new(
                panicked,
                format!("fit of a {}x{} matrix with embedding size {} ({}) panicked instead of returning an error: {}", n, p, k, case.kind, msg),
                cj(),
            )),
        }
        return st;
    }

    // ------------------------------------------------------------------ oracle
    let x = &case.x;
    let mu = rm::col_means(x);
    let cov = rm::covariance(x, 1.0);
    let (lam, vecs) = rm::jacobi_eig(&cov);
    let l1 = lam[0];
    // trusted-base self check of the Jacobi decomposition (machinery, not a verdict)
    for (l, v) in lam.iter().zip(&vecs) {
        let cv = rm::matvec(&cov, v);
        let res: f64 = (0..p).map(|j| (cv[j] - l * v[j]).powi(2)).sum::<f64>().sqrt();
        if !(res <= 1e-12 * l1) || (norm(v) - 1.0).abs() > 1e-12 {
            println!("MACHINERY-ERROR own Jacobi decomposition inaccurate (residual {:e}, lambda_1 {:e})", res, l1);
            std::process::exit(2);
        }
    }
    if !(lam[k - 1] / l1 >= DOMAIN_RATIO) {
        // numerically rank deficient for the solver (documented cut-off): only "does not panic"
        st.out_of_domain = true;
        if let Err(msg) = fit {
            let sig = if msg == "NaN values in array" { "pca.fit.panic_nan_eigenvalues_inside_lobpcg" } else { "pca.fit.panic" };
            viols.push(Violation::new(sig, format!("fit of a (numerically rank deficient, out-of-domain) {}x{} matrix with embedding size {} panicked: {}", n, p, k, msg), cj()));
        }
        return st;
    }
    st.nontrivial = true;

    let model = match fit {
        Ok(Ok(m)) => m,
        Ok(Err(e)) => {
            viols.push(Violation::new("pca.fit.unexpected_error", format!("fit of a valid {}x{} matrix with embedding size {} returned Err({})", n, p, k, e), cj()));
            return st;
        }
        Err(msg) => {
            // linfa-linalg's sort_eig: `partial_cmp(..).expect("NaN values in array")` inside lobpcg's Rayleigh-Ritz step
            let sig = if msg == "NaN values in array" { "pca.fit.panic_nan_eigenvalues_inside_lobpcg" } else { "pca.fit.panic" };
            viols.push(Violation::new(sig, format!("fit of a valid {}x{} matrix with embedding size {} panicked: {}", n, p, k, msg), cj()));
            return st;
        }
    };

    // ------------------------------------------------------------------ shapes
    let comp = to_mat(model.components());
    let sigma = model.singular_values().to_vec();
    let mean = model.mean().to_vec();
    let kk = comp.len();
    if kk != k || model.components().ncols() != p || sigma.len() != kk || mean.len() != p {
        // fewer components than asked for, on data whose k-th eigenvalue is far above the null-space
        // cut-off, means that the solver's eigenvalue estimates are off: solver family (classified)
        let solver_dependent = kk < k && kk >= 1 && model.components().ncols() == p && sigma.len() == kk && mean.len() == p;
        if solver_dependent {
            *fitted = Some(Fitted { centred: &xa - model.mean(), sigma: sigma.clone(), mean: mean.clone(), comp: comp.clone() });
        }
        let sink: &mut Vec<Violation> = if solver_dependent { &mut *sv } else { &mut *viols };
        sink.push(Violation::new(
            "pca.fit.wrong_shape",
            format!(
                "embedding size {} on {}x{} data (lambda_k/lambda_1 = {:e}): components {}x{}, {} singular values, mean of length {}",
                k,
                n,
                p,
                lam[k - 1] / l1,
                kk,
                model.components().ncols(),
                sigma.len(),
                mean.len()
            ),
            cj(),
        ));
        return st;
    }
    *fitted = Some(Fitted { centred: &xa - model.mean(), sigma: sigma.clone(), mean: mean.clone(), comp: comp.clone() });
    let nm1 = n as f64 - 1.0;
    let xmax = x.iter().flatten().fold(0.0f64, |s, v| s.max(v.abs()));
    let sx = x.iter().flat_map(|r| r.iter().zip(&mu).map(|(a, m)| (a - m).abs())).fold(0.0f64, f64::max);

    // ------------------------------------------------------------------ mean
    for j in 0..p {
        let colmax = x.iter().fold(0.0f64, |s, r| s.max(r[j].abs()));
        if !((mean[j] - mu[j]).abs() <= 1e-12 * colmax) {
            viols.push(Violation::new("pca.mean.wrong_value", format!("mean()[{}] = {:e}, column mean = {:e}", j, mean[j], mu[j]), cj()));
            break;
        }
    }

    // ------------------------------------------------------------------ singular values
    if sigma.iter().any(|s| !s.is_finite() || *s <= 0.0) || sigma.windows(2).any(|w| w[0] < w[1]) {
        viols.push(Violation::new("pca.singular_values.not_positive_non_increasing", format!("singular values {}", fmt_vec(&sigma)), cj()));
    }
    for i in 0..kk {
        let ev = sigma[i] * sigma[i] / nm1;
        let rel = (ev - lam[i]).abs() / l1;
        st.max_var_rel = st.max_var_rel.max(rel);
        if !(rel <= TOL) {
            sv.push(Violation::new(
                "pca.singular_values.wrong_value",
                format!("singular value {}: sigma^2/(n-1) = {:e}, eigenvalue {} of the sample covariance = {:e} (lambda_1 = {:e})", i, ev, i, lam[i], l1),
                cj(),
            ));
            break;
        }
    }

    // ------------------------------------------------------------------ components: orthonormal directions
    let rown: Vec<f64> = comp.iter().map(|r| norm(r)).collect();
    if rown.iter().any(|v| !v.is_finite() || *v <= 0.0) {
        viols.push(Violation::new("pca.components.degenerate_row", format!("row norms of components(): {}", fmt_vec(&rown)), cj()));
        return st;
    }
    let dirs: Vec<Vec<f64>> = comp.iter().zip(&rown).map(|(r, nr)| r.iter().map(|v| v / nr).collect()).collect();
    let mut orth_bad: Option<String> = None;
    for i in 0..kk {
        let want = if case.whiten { nm1.sqrt() / sigma[i] } else { 1.0 };
        let e = (rown[i] / want - 1.0).abs();
        st.max_orth = st.max_orth.max(e);
        if !(e <= TOL) && orth_bad.is_none() {
            orth_bad = Some(format!("row {} of components() has norm {:e}, expected {:e}{}", i, rown[i], want, if case.whiten { " (= sqrt(n-1)/sigma, whitening)" } else { "" }));
        }
        for j in i + 1..kk {
            let d = rm::dot(&dirs[i], &dirs[j]).abs();
            st.max_orth = st.max_orth.max(d);
            if !(d <= TOL) && orth_bad.is_none() {
                orth_bad = Some(format!("directions {} and {} of components() have cosine {:e}", i, j, d));
            }
        }
    }
    let orth_failed = orth_bad.is_some();
    if let Some(w) = orth_bad {
        sv.push(Violation::new(if case.whiten { "pca.components.whitened_rows_wrong_scale_or_not_orthogonal" } else { "pca.components.not_orthonormal" }, w, cj()));
    }

    // ------------------------------------------------------------------ alignment with the eigenvectors (per spectral block)
    let mut a = 0;
    while a < kk {
        let mut b = a + 1;
        while b < p && (lam[b - 1] - lam[b]) / l1 < GAP {
            b += 1;
        }
        if b > kk {
            // the block of (nearly) equal eigenvalues straddles the cut k: any basis of a k-dimensional
            // part of it is a valid answer; only the variance statements below apply
            st.straddling_blocks_skipped += 1;
            break;
        }
        let mut gap_abs = f64::INFINITY;
        if a > 0 {
            gap_abs = gap_abs.min(lam[a - 1] - lam[a]);
        }
        if b < p {
            gap_abs = gap_abs.min(lam[b - 1] - lam[b]);
        }
        let tol_solver = 10.0 * SOLVER_RES_TOL / (gap_abs * nm1);
        let tol = TOL.max(tol_solver);
        if tol > TOL {
            st.widened += 1;
            st.max_align_widened_tol = st.max_align_widened_tol.max(tol);
        }
        if gap_abs.is_finite() {
            st.min_rel_gap_checked = st.min_rel_gap_checked.min(gap_abs / l1);
        }
        let pd = projector(&dirs[a..b], p);
        let pv = projector(&vecs[a..b], p);
        let err = frob_diff(&pd, &pv) / std::f64::consts::SQRT_2;
        st.max_align = st.max_align.max(err);
        if b - a == 1 {
            st.single_axes_checked += 1;
        } else {
            st.degenerate_blocks_checked += 1;
        }
        if err > TOL && err <= tol {
            st.needed_widening += 1;
        }
        if !(err <= tol) {
            let (sig, what) = if b - a == 1 {
                (
                    "pca.components.not_aligned_with_eigenvector",
                    format!(
                        "component {} = {} is not (+/-) eigenvector {} = {} of the sample covariance: sin(angle) = {:e} > {:e} (eigenvalues {}, relative gap {:e})",
                        a,
                        fmt_vec(&dirs[a]),
                        a,
                        fmt_vec(&vecs[a]),
                        err,
                        tol,
                        fmt_vec(&lam),
                        gap_abs / l1
                    ),
                )
            } else {
                (
                    "pca.components.degenerate_block_wrong_subspace",
                    format!("components {}..{} do not span the eigenspace of the (nearly) equal eigenvalues {}: projector distance {:e} > {:e}", a, b, fmt_vec(&lam[a..b]), err, tol),
                )
            };
            sv.push(Violation::new(sig, what, cj()));
            break;
        }
        a = b;
    }

    // ------------------------------------------------------------------ retained variance (Ky Fan): no k-dimensional projection keeps more
    {
        let mut kept = 0.0;
        for d in &dirs {
            let cd = rm::matvec(&cov, d);
            kept += rm::dot(d, &cd);
        }
        let best: f64 = lam[..kk].iter().sum();
        let rel = (kept - best) / l1;
        if rel < -TOL {
            sv.push(Violation::new(
                "pca.components.retained_variance_not_maximal",
                format!("variance kept by the {} component directions = {:e}, sum of the {} largest eigenvalues = {:e}", kk, kept, kk, best),
                cj(),
            ));
        } else if rel > TOL {
            sv.push(Violation::new(
                "pca.components.retained_variance_above_optimum",
                format!("variance along the {} component directions = {:e} exceeds the sum of the {} largest eigenvalues = {:e} (directions not orthonormal)", kk, kept, kk, best),
                cj(),
            ));
        }
    }

    // ------------------------------------------------------------------ predict / transform
    let z = match guarded(|| model.predict(&ds)) {
        Ok(z) => z,
        Err(msg) => {
            viols.push(Violation::new("pca.predict.panic", format!("predict on the training data panicked: {}", msg), cj()));
            return st;
        }
    };
    if z.shape() != [n, kk] {
        viols.push(Violation::new("pca.predict.wrong_shape", format!("predict returned shape {:?}, expected [{}, {}]", z.shape(), n, kk), cj()));
        return st;
    }
    match guarded(|| (model.predict(&xa), model.transform(ds.clone()).records)) {
        Ok((z_arr, z_tr)) => {
            if z_arr != z || z_tr != z {
                viols.push(Violation::new("pca.transform.differs_from_predict", "predict(&dataset), predict(&array) and transform(dataset).records differ".to_string(), cj()));
            }
        }
        Err(msg) => viols.push(Violation::new("pca.transform.panic", format!("predict(&array) / transform(dataset) panicked: {}", msg), cj())),
    }
    // in-place API with a re-used buffer: the result must not depend on what the buffer held before
    {
        use linfa::traits::PredictInplace;
        match guarded(|| {
            let mut buf = model.default_target(&xa);
            model.predict_inplace(&xa, &mut buf);
            model.predict_inplace(&xa, &mut buf);
            buf
        }) {
            Ok(buf) => {
                if buf != z {
                    viols.push(Violation::new(
                        "pca.predict_inplace.depends_on_previous_buffer_content",
                        "predict_inplace called twice into the same target buffer differs from predict".to_string(),
                        cj(),
                    ));
                }
            }
            Err(msg) => viols.push(Violation::new("pca.predict_inplace.panic", format!("predict_inplace into a re-used buffer panicked: {}", msg), cj())),
        }
    }
    // per-sample function: row i of the projection of the whole matrix == projection of row i alone
    {
        let mut idx: Vec<usize> = vec![0, 1, n / 2, 1023, 1024, n.saturating_sub(2), n - 1];
        idx.retain(|i| *i < n);
        idx.sort();
        idx.dedup();
        for &i in &idx {
            let one = Array2::from_shape_fn((1, p), |(_, j)| x_of(case, i, j));
            match guarded(|| model.predict(&one)) {
                Ok(zi) => {
                    st.single_row_checked += 1;
                    let bad = (0..kk).any(|c| {
                        let (a, b) = (z[(i, c)], zi[(0, c)]);
                        !((a - b).abs() <= 1e-12 * a.abs().max(b.abs()).max(1e-300) || (a - b).abs() <= 1e-12 * (sx + 1e-6 * xmax) * comp[c].iter().map(|v| v.abs()).sum::<f64>())
                    });
                    if bad {
                        viols.push(Violation::new(
                            "pca.predict.row_depends_on_batch",
                            format!("row {} of predict on all {} rows = {} but predict on that row alone = {}", i, n, fmt_vec(&z.row(i).to_vec()), fmt_vec(&zi.row(0).to_vec())),
                            cj(),
                        ));
                        break;
                    }
                }
                Err(msg) => {
                    viols.push(Violation::new("pca.predict.panic", format!("predict on the single row {} panicked: {}", i, msg), cj()));
                    break;
                }
            }
        }
    }
    let zm = to_mat(&z);
    // formula: (x - mean) . E^T, on the training rows and on two probe rows (the mean itself, mean + 1)
    {
        let probe = Array2::from_shape_fn((2, p), |(i, j)| mu[j] + i as f64);
        let zp = guarded(|| model.predict(&probe)).ok();
        let mut rows: Vec<(Vec<f64>, Vec<f64>, String)> = x.iter().zip(&zm).enumerate().map(|(i, (r, zr))| (r.clone(), zr.clone(), format!("training row {}", i))).collect();
        match zp {
            Some(zp) => {
                for i in 0..2 {
                    rows.push((probe.row(i).to_vec(), zp.row(i).to_vec(), format!("probe row mean + {}", i)));
                }
            }
            None => viols.push(Violation::new("pca.predict.panic", "predict on two probe rows panicked".to_string(), cj())),
        }
        'outer: for (r, zr, name) in &rows {
            for c in 0..kk {
                let l1n: f64 = comp[c].iter().map(|v| v.abs()).sum();
                let want: f64 = (0..p).map(|j| (r[j] - mu[j]) * comp[c][j]).sum();
                let tol = (TOL_INTERNAL * sx.max(1.0e-300) + 1e-12 * xmax) * l1n;
                if !((zr[c] - want).abs() <= tol) {
                    viols.push(Violation::new(
                        "pca.predict.not_centred_projection",
                        format!("{}: coordinate {} = {:e}, (x - mean) . component = {:e}", name, c, zr[c], want),
                        cj(),
                    ));
                    break 'outer;
                }
            }
        }
    }
    // projected training data: centred, uncorrelated, variances = eigenvalues (= identity when whitened)
    let zmean = rm::col_means(&zm);
    for c in 0..kk {
        let l1n: f64 = comp[c].iter().map(|v| v.abs()).sum();
        if !(zmean[c].abs() <= (TOL_INTERNAL * sx + 1e-12 * xmax) * l1n) {
            viols.push(Violation::new("pca.projection.not_centred", format!("projected training data: mean of coordinate {} = {:e}", c, zmean[c]), cj()));
            break;
        }
    }
    let zc = rm::covariance(&zm, 1.0);
    st.projection_checked += 1;
    if case.whiten {
        let mut worst = 0.0f64;
        let mut at = (0, 0);
        for i in 0..kk {
            for j in 0..kk {
                let e = (zc[i][j] - if i == j { 1.0 } else { 0.0 }).abs();
                if !(e <= worst) {
                    worst = e;
                    at = (i, j);
                }
            }
        }
        st.max_whiten = st.max_whiten.max(worst);
        if !(worst <= TOL) {
            sv.push(Violation::new(
                "pca.whitening.covariance_not_identity",
                format!("whitened projection of the training data: covariance[{}][{}] = {:e} (expected {})", at.0, at.1, zc[at.0][at.1], if at.0 == at.1 { 1 } else { 0 }),
                cj(),
            ));
        }
    } else {
        'cov: for i in 0..kk {
            for j in 0..kk {
                let want = if i == j { lam[i] } else { 0.0 };
                if !((zc[i][j] - want).abs() / l1 <= TOL) {
                    let (sig, what) = if i == j {
                        ("pca.projection.variance_not_eigenvalue", format!("sample variance of projected coordinate {} = {:e}, eigenvalue = {:e}", i, zc[i][i], lam[i]))
                    } else {
                        ("pca.projection.correlated_coordinates", format!("projected coordinates {} and {} have covariance {:e} (lambda_1 = {:e})", i, j, zc[i][j], l1))
                    };
                    sv.push(Violation::new(sig, what, cj()));
                    break 'cov;
                }
            }
        }
    }

    // ------------------------------------------------------------------ explained variance
    // truth: sample variance of the (un-whitened) projection on direction i = sigma_i^2/(n-1) = eigenvalue i
    match guarded(|| (model.explained_variance().to_vec(), model.explained_variance_ratio().to_vec())) {
        Err(msg) => viols.push(Violation::new("pca.explained_variance.panic", format!("explained_variance / explained_variance_ratio panicked: {}", msg), cj())),
        Ok((ev, ratio)) => {
            let truth: Vec<f64> = dirs.iter().map(|d| rm::dot(d, &rm::matvec(&cov, d))).collect();
            if ev.len() != kk || ratio.len() != kk {
                viols.push(Violation::new("pca.explained_variance.wrong_length", format!("{} variances, {} ratios for {} components", ev.len(), ratio.len(), kk), cj()));
            } else {
                // two statements: (formula) explained_variance == sigma^2/(n-1) from the model's own singular
                // values; (truth) that number is the sample variance of the projection on the component
                let formula_ok = (0..kk).all(|i| ev[i].is_finite() && (ev[i] - sigma[i] * sigma[i] / nm1).abs() <= TOL_INTERNAL * l1);
                let truth_ok = (0..kk).all(|i| ev[i].is_finite() && (ev[i] - truth[i]).abs() / l1 <= TOL);
                if formula_ok && !truth_ok {
                    // the formula is applied correctly, but the stored singular value is not the spread of the
                    // data along the stored axis: (sigma, axis) is not a singular pair, i.e. this depends on the
                    // solver having converged -> solver family (classified by the lobpcg re-run; generic otherwise)
                    sv.push(Violation::new(
                        "pca.explained_variance.wrong_value",
                        format!(
                            "explained_variance() = {} (= sigma^2/(n-1) of the stored singular values) but the projected training data has sample variances {} along the stored components (n = {}, eigenvalues {})",
                            fmt_vec(&ev),
                            fmt_vec(&truth),
                            n,
                            fmt_vec(&lam[..kk])
                        ),
                        cj(),
                    ));
                }
                if !formula_ok {
                    // closed form of the known defect: divisor (number of components - 1) instead of (n - 1)
                    let wrong_div = kk as f64 - 1.0;
                    let matches = (0..kk).all(|i| {
                        let cf = sigma[i] * sigma[i] / wrong_div; // +inf for a single component
                        if cf.is_infinite() {
                            ev[i] == cf
                        } else {
                            (ev[i] - cf).abs() <= 1e-12 * cf.abs()
                        }
                    });
                    let sig = if matches { "pca.explained_variance.divides_by_n_components_minus_1" } else { "pca.explained_variance.wrong_value" };
                    viols.push(Violation::new(
                        sig,
                        format!(
                            "explained_variance() = {} but the projected training data has sample variances {} (= sigma^2/(n-1), n = {}, eigenvalues {}){}",
                            fmt_vec(&ev),
                            fmt_vec(&truth),
                            n,
                            fmt_vec(&lam[..kk]),
                            if matches { format!("; observed == sigma^2/({} components - 1)", kk) } else { String::new() }
                        ),
                        cj(),
                    ));
                }
                // ratios: finite, non-negative, proportional to the true variances
                let s2: f64 = sigma.iter().map(|s| s * s).sum();
                if ratio.iter().any(|r| !r.is_finite() || *r < 0.0) {
                    let sig = if kk == 1 && ratio[0].is_nan() { "pca.explained_variance_ratio.nan_for_single_component" } else { "pca.explained_variance_ratio.not_finite_non_negative" };
                    viols.push(Violation::new(sig, format!("explained_variance_ratio() = {:?} for {} component(s) (singular values {})", ratio, kk, fmt_vec(&sigma)), cj()));
                } else if (0..kk).any(|i| (ratio[i] * s2 - sigma[i] * sigma[i]).abs() > TOL_INTERNAL * s2) {
                    viols.push(Violation::new(
                        "pca.explained_variance_ratio.not_proportional",
                        format!("explained_variance_ratio() = {} is not sigma_i^2 / sum sigma^2 (singular values {})", fmt_vec(&ratio), fmt_vec(&sigma)),
                        cj(),
                    ));
                }
            }
        }
    }

    // ------------------------------------------------------------------ inverse_transform o transform = orthogonal projection about the mean
    match guarded(|| model.inverse_transform(z.clone())) {
        Err(msg) => viols.push(Violation::new("pca.inverse_transform.panic", format!("inverse_transform(transform(X)) panicked: {}", msg), cj())),
        Ok(r) => {
            if r.shape() != [n, p] {
                viols.push(Violation::new("pca.inverse_transform.wrong_shape", format!("shape {:?}, expected [{}, {}]", r.shape(), n, p), cj()));
            } else {
                let proj = projector(&dirs, p);
                let mut worst = 0.0f64;
                let mut worst_cf = 0.0f64;
                let mut cf_scale = 0.0f64;
                let mut ex: Option<(usize, Vec<f64>, Vec<f64>)> = None;
                for i in 0..n {
                    let d: Vec<f64> = (0..p).map(|j| x[i][j] - mu[j]).collect();
                    let want: Vec<f64> = (0..p).map(|j| mu[j] + (0..p).map(|l| d[l] * proj[l][j]).sum::<f64>()).collect();
                    // what `z . E + mean` gives (E = components as stored, whitening scale included)
                    let zi: Vec<f64> = comp.iter().map(|c| rm::dot(&d, c)).collect();
                    let cf: Vec<f64> = (0..p).map(|j| mu[j] + (0..kk).map(|c| zi[c] * comp[c][j]).sum::<f64>()).collect();
                    let e = (0..p).map(|j| (r[(i, j)] - want[j]).abs()).fold(0.0f64, f64::max);
                    if e > worst || e.is_nan() {
                        worst = e;
                        ex = Some((i, want.clone(), r.row(i).to_vec()));
                    }
                    worst_cf = worst_cf.max((0..p).map(|j| (r[(i, j)] - cf[j]).abs()).fold(0.0f64, f64::max));
                    cf_scale = cf_scale.max((0..p).map(|j| (cf[j] - mu[j]).abs()).fold(0.0f64, f64::max));
                }
                st.max_recon_rel = st.max_recon_rel.max(worst / sx);
                if kk == p {
                    st.full_rank_identity_checked += 1;
                }
                if !(worst <= TOL * sx + 1e-12 * xmax) {
                    let (i, want, got) = ex.unwrap();
                    let is_cf = case.whiten && worst_cf <= TOL_INTERNAL * cf_scale + 1e-12 * xmax;
                    let sig = if is_cf { "pca.inverse_transform.whitened_model_applies_whitening_scale_again" } else { "pca.inverse_transform.not_orthogonal_projection" };
                    // with components that are not orthonormal (reported above) z . E cannot be the
                    // projection: a consequence of that violation, classified together with it
                    let sink: &mut Vec<Violation> = if orth_failed && !is_cf { &mut *sv } else { &mut *viols };
                    sink.push(Violation::new(
                        sig,
                        format!(
                            "inverse_transform(transform(X)) row {}: {} ; orthogonal projection of the row onto the component subspace about the mean{}: {} ; the row itself: {}{}",
                            i,
                            fmt_vec(&got),
                            if kk == p { " (= the row itself, all components kept)" } else { "" },
                            fmt_vec(&want),
                            fmt_vec(&x[i]),
                            if is_cf { " ; observed == mean + (x - mean) E^T E with the whitened (row-scaled by sqrt(n-1)/sigma) embedding E, i.e. every axis is scaled by (n-1)/sigma^2 instead of being restored" } else { "" }
                        ),
                        cj(),
                    ));
                }
            }
        }
    }
    st
}

// ---------------------------------------------------------------------- call histories
//
// Nothing here needs a numeric oracle: every comparison is between two executions of the same
// deterministic computation (seeded solver) and is therefore BIT-exact. What varies is the history:
// how the parameter object was built, what was fitted / projected before, what the output buffer held.

/// Everything observable of a fitted model, as bit patterns (NaN-safe comparison).
fn model_bits(m: &Pca<f64>) -> Vec<Vec<u64>> {
    let b = |v: Vec<f64>| v.into_iter().map(|x| x.to_bits()).collect::<Vec<u64>>();
    vec![
        vec![m.components().nrows() as u64, m.components().ncols() as u64],
        b(m.components().iter().cloned().collect()),
        b(m.singular_values().to_vec()),
        b(m.mean().to_vec()),
        b(m.explained_variance().to_vec()),
        b(m.explained_variance_ratio().to_vec()),
    ]
}

fn arr_bits(a: &Array2<f64>) -> (Vec<usize>, Vec<u64>) {
    (a.shape().to_vec(), a.iter().map(|x| x.to_bits()).collect())
}

/// Outcome of a fit as a comparable value: model bits, or the error / panic text.
fn fit_outcome(params: &linfa_reduction::PcaParams, a: &Array2<f64>) -> (Result<Vec<Vec<u64>>, String>, Option<Pca<f64>>) {
    let ds = DatasetBase::from(a.clone());
    match guarded(|| params.fit(&ds)) {
        Ok(Ok(m)) => (Ok(model_bits(&m)), Some(m)),
        Ok(Err(e)) => (Err(format!("Err({})", e)), None),
        Err(p) => (Err(format!("panic({})", p)), None),
    }
}

fn bits_of(r: std::result::Result<linfa_reduction::Result<Pca<f64>>, String>) -> Result<Vec<Vec<u64>>, String> {
    match r {
        Ok(Ok(m)) => Ok(model_bits(&m)),
        Ok(Err(e)) => Err(format!("Err({})", e)),
        Err(p) => Err(format!("panic({})", p)),
    }
}

fn run_history(case: &Case, viols: &mut Vec<Violation>) -> Stats {
    use linfa::traits::PredictInplace;
    let mut st = Stats::default();
    st.min_rel_gap_checked = f64::INFINITY;
    st.history_case = true;
    let cj = || serde_json::to_value(case).unwrap();
    let (p, k, w) = (case.p, case.k, case.whiten);
    let a = to_arr(&case.x, p);
    let b = to_arr(&case.y, p);
    let n = a.nrows();

    // ---------------- (1) builder history: every way of writing the same final parameter set
    let canon = Pca::params(k).whiten(w);
    let mut builds: Vec<(&str, linfa_reduction::PcaParams)> = vec![
        ("params(k).whiten(!w).whiten(w)", Pca::params(k).whiten(!w).whiten(w)),
        ("params(k).whiten(w).whiten(w)", Pca::params(k).whiten(w).whiten(w)),
        ("params(k).whiten(w).whiten(!w).whiten(w)", Pca::params(k).whiten(w).whiten(!w).whiten(w)),
        ("params(k).whiten(!w).whiten(!w).whiten(w)", Pca::params(k).whiten(!w).whiten(!w).whiten(w)),
        ("params(k).whiten(w).clone()", Pca::params(k).whiten(w).clone()),
    ];
    if !w {
        builds.push(("params(k)  [whitening is off by default]", Pca::params(k)));
    }
    let want_dbg = format!("PcaParams {{ embedding_size: {}, apply_whitening: {} }}", k, w);
    if format!("{:?}", canon) != want_dbg {
        viols.push(Violation::new("pca.params.builder_order_dependence", format!("params({}).whiten({}) prints as {:?}, expected {}", k, w, canon, want_dbg), cj()));
    }
    let (canon_out, canon_model) = fit_outcome(&canon, &a);
    for (name, prm) in &builds {
        st.history_steps += 1;
        if *prm != canon || format!("{:?}", prm) != want_dbg {
            viols.push(Violation::new(
                "pca.params.builder_order_dependence",
                format!("{} = {:?} differs from the canonical params({}).whiten({}) = {:?}", name, prm, k, w, canon),
                cj(),
            ));
            continue;
        }
        let (out, _) = fit_outcome(prm, &a);
        if out != canon_out {
            viols.push(Violation::new(
                "pca.params.builder_order_dependence",
                format!("fit with {} gives a different model / outcome than with the canonical params({}).whiten({}) on the same data", name, k, w),
                cj(),
            ));
        }
    }

    // ---------------- (2) the same parameter object fitted on A, on B, on A again
    let (out_b_fresh, model_b_fresh) = fit_outcome(&Pca::params(k).whiten(w), &b);
    let (out_a1, _) = fit_outcome(&canon, &a);
    let (out_b, _) = fit_outcome(&canon, &b);
    let (out_a2, _) = fit_outcome(&canon, &a);
    st.history_steps += 3;
    if out_a1 != canon_out || out_a2 != canon_out || out_b != out_b_fresh {
        viols.push(Violation::new(
            "pca.params.fit_depends_on_previous_fit",
            "fitting the same PcaParams object on A, then B, then A again does not reproduce the models of fresh parameter objects bit for bit".to_string(),
            cj(),
        ));
    }

    let (Some(model), Some(model_b)) = (canon_model, model_b_fresh) else {
        // the fit itself fails identically for every history (checked above): nothing to project
        return st;
    };
    st.nontrivial = true;

    // ---------------- (3) the same model applied to A, B, A; inverse_transform after another batch
    let seq = guarded(|| {
        let za1 = model.predict(&a);
        let ra1 = model.inverse_transform(za1.clone());
        let zb = model.predict(&b);
        let ra_after_b = model.inverse_transform(za1.clone());
        let za2 = model.predict(&a);
        let rb = model.inverse_transform(zb.clone());
        let ra2 = model.inverse_transform(za2.clone());
        (za1, ra1, zb, ra_after_b, za2, rb, ra2)
    });
    let (za, zb) = match seq {
        Err(msg) => {
            viols.push(Violation::new("pca.predict.panic", format!("predict / inverse_transform sequence A, B, A panicked: {}", msg), cj()));
            return st;
        }
        Ok((za1, ra1, zb, ra_after_b, za2, rb, ra2)) => {
            st.history_steps += 7;
            if arr_bits(&za1) != arr_bits(&za2) {
                viols.push(Violation::new("pca.predict.depends_on_previous_call", "predict(A), predict(B), predict(A): the second answer for A differs from the first".to_string(), cj()));
            }
            // a model fitted on A must answer for B as a separately fitted copy of itself does
            let fresh = fit_outcome(&canon, &a).1.map(|m| (m.predict(&b), m));
            if let Some((zb_fresh, m2)) = fresh {
                if arr_bits(&zb_fresh) != arr_bits(&zb) {
                    viols.push(Violation::new("pca.predict.depends_on_previous_call", "predict(B) after predict(A) differs from predict(B) of a freshly fitted identical model".to_string(), cj()));
                }
                if arr_bits(&m2.inverse_transform(zb.clone())) != arr_bits(&rb) {
                    viols.push(Violation::new("pca.inverse_transform.depends_on_previous_call", "inverse_transform(z_B) after other calls differs from that of a freshly fitted identical model".to_string(), cj()));
                }
            }
            if arr_bits(&ra1) != arr_bits(&ra_after_b) || arr_bits(&ra1) != arr_bits(&ra2) {
                viols.push(Violation::new(
                    "pca.inverse_transform.depends_on_previous_call",
                    "inverse_transform(z_A) changes after predict(B) / a second predict(A)".to_string(),
                    cj(),
                ));
            }
            (za1, zb)
        }
    };
    let kk = za.ncols();

    // ---------------- (4) predict_inplace into poisoned / re-used buffers of the right shape
    let poisons: Vec<(&str, Array2<f64>)> = vec![
        ("NaN", Array2::from_elem((n, kk), f64::NAN)),
        ("+inf", Array2::from_elem((n, kk), f64::INFINITY)),
        ("1e300", Array2::from_elem((n, kk), 1e300)),
        ("the negated answer", za.mapv(|v| -v)),
        ("the answer itself", za.clone()),
        ("the projection of the other batch B (buffer re-used)", zb.clone()),
        ("the other model's projection of A", model_b.predict(&a)),
    ];
    for (name, buf0) in poisons {
        if buf0.shape() != [n, kk] {
            continue; // the other model kept a different number of components
        }
        st.history_steps += 1;
        let mut buf = buf0.clone();
        match guarded(|| {
            model.predict_inplace(&a, &mut buf);
            buf
        }) {
            Ok(buf) => {
                if arr_bits(&buf) != arr_bits(&za) {
                    let first = (0..n * kk).find(|i| buf.iter().nth(*i).unwrap().to_bits() != za.iter().nth(*i).unwrap().to_bits()).unwrap_or(0);
                    viols.push(Violation::new(
                        "pca.predict_inplace.depends_on_previous_buffer_content",
                        format!(
                            "predict_inplace(A) into a buffer pre-filled with {} differs from predict(A): element {} is {:e}, expected {:e}",
                            name,
                            first,
                            buf.iter().nth(first).unwrap(),
                            za.iter().nth(first).unwrap()
                        ),
                        cj(),
                    ));
                }
            }
            Err(msg) => viols.push(Violation::new("pca.predict_inplace.panic", format!("predict_inplace into a buffer of the right shape pre-filled with {} panicked: {}", name, msg), cj())),
        }
    }
    // a chain through one buffer: B, A, B, A
    {
        let mut buf = model.default_target(&a);
        let ok = guarded(|| {
            model.predict_inplace(&b, &mut buf);
            let b1 = buf.clone();
            model.predict_inplace(&a, &mut buf);
            let a1 = buf.clone();
            model.predict_inplace(&b, &mut buf);
            let b2 = buf.clone();
            model.predict_inplace(&a, &mut buf);
            (b1, a1, b2, buf.clone())
        });
        st.history_steps += 4;
        match ok {
            Ok((b1, a1, b2, a2)) => {
                if arr_bits(&b1) != arr_bits(&zb) || arr_bits(&b2) != arr_bits(&zb) || arr_bits(&a1) != arr_bits(&za) || arr_bits(&a2) != arr_bits(&za) {
                    viols.push(Violation::new(
                        "pca.predict_inplace.depends_on_previous_buffer_content",
                        "predict_inplace of B, A, B, A through ONE buffer does not reproduce predict(B) / predict(A)".to_string(),
                        cj(),
                    ));
                }
            }
            Err(msg) => viols.push(Violation::new("pca.predict_inplace.panic", format!("predict_inplace chain through one buffer panicked: {}", msg), cj())),
        }
    }

    // ---------------- (5) calling forms of predict / transform (core crate's blanket impls), on the whole
    // batch and on ONE-ROW batches; data riding along (1-D / 2-D / F-order / reversed targets, weights,
    // names) must come out of transform unchanged and must not influence the projection
    {
        use ndarray::s;
        let one_last = a.slice(s![n - 1..n, ..]).to_owned();
        let one_first_b = b.slice(s![0..1, ..]).to_owned();
        let batches: Vec<(&str, Array2<f64>)> = vec![("the whole batch A", a.clone()), ("the one-row batch A[n-1]", one_last), ("the one-row batch B[0]", one_first_b)];
        for (bname, x) in &batches {
            let m = x.nrows();
            let want = match guarded(|| model.predict(x)) {
                Ok(z) => z,
                Err(msg) => {
                    viols.push(Violation::new("pca.predict.panic", format!("predict(&array) on {} panicked: {}", bname, msg), cj()));
                    continue;
                }
            };
            let t1 = ndarray::Array1::from_iter((0..m).map(|i| 10.0 + i as f64));
            // 2-D targets in column-major order
            let mut t2 = Array2::<f64>::zeros((m, 2).f());
            for i in 0..m {
                t2[(i, 0)] = i as f64;
                t2[(i, 1)] = -(i as f64) - 0.5;
            }
            let t1_rev_store = ndarray::Array1::from_iter((0..m).rev().map(|i| 10.0 + i as f64));
            let weights = ndarray::Array1::from_iter((0..m).map(|i| 1.0 + i as f32));
            let fnames: Vec<String> = (0..p).map(|j| format!("f{}", j)).collect();
            let forms = guarded(|| {
                let ds = DatasetBase::new(x.clone(), t1.clone()).with_weights(weights.clone()).with_feature_names(fnames.clone()).with_target_names(vec!["y"]);
                let ds2 = DatasetBase::new(x.clone(), t2.clone()).with_weights(weights.clone()).with_target_names(vec!["u", "v"]);
                let dsv = DatasetBase::new(x.view(), t1_rev_store.slice(s![..;-1])); // views, targets through a negative stride
                let mut out: Vec<(&str, Array2<f64>)> = Vec::new();
                let mut riders: Vec<String> = Vec::new();
                out.push(("predict(&array_view)", model.predict(&x.view())));
                let owned_arr = model.predict(x.clone());
                if arr_bits(owned_arr.records()) != arr_bits(x) {
                    riders.push("predict(array) does not hand the records back unchanged".into());
                }
                out.push(("predict(array) -> dataset.targets", owned_arr.targets));
                out.push(("predict(&dataset)", model.predict(&ds)));
                out.push(("predict(&dataset.view())", model.predict(&ds.view())));
                out.push(("predict(&dataset with 2-D targets)", model.predict(&ds2)));
                out.push(("predict(&dataset of views with reversed targets)", model.predict(&dsv)));
                let owned_ds = model.predict(ds.clone());
                if arr_bits(owned_ds.records()) != arr_bits(x) {
                    riders.push("predict(dataset) does not hand the records back unchanged".into());
                }
                out.push(("predict(dataset) -> dataset.targets", owned_ds.targets));
                let tr = model.transform(ds.clone());
                if tr.targets() != &t1 || tr.weights().map(|w| w.to_vec()) != Some(weights.to_vec()) {
                    riders.push(format!("transform(dataset): targets / weights changed (targets {:?}, weights {:?})", tr.targets(), tr.weights()));
                }
                out.push(("transform(dataset).records", tr.records));
                let tr2 = model.transform(ds2.clone());
                if tr2.targets() != &t2 || tr2.weights().map(|w| w.to_vec()) != Some(weights.to_vec()) {
                    riders.push(format!("transform(dataset with column-major 2-D targets): targets / weights changed (targets {:?})", tr2.targets()));
                }
                out.push(("transform(dataset with 2-D targets).records", tr2.records));
                let trv = model.transform(ds.view());
                if trv.targets().to_owned() != t1 || trv.weights().map(|w| w.to_vec()) != Some(weights.to_vec()) {
                    riders.push(format!("transform(dataset.view()): targets / weights changed (targets {:?}, weights {:?})", trv.targets(), trv.weights()));
                }
                out.push(("transform(dataset.view()).records", trv.records));
                let trr = model.transform(dsv.clone());
                if trr.targets().to_owned() != t1 {
                    riders.push(format!("transform(dataset of views with reversed targets): targets changed to {:?}", trr.targets()));
                }
                out.push(("transform(dataset of views with reversed targets).records", trr.records));
                out.push(("transform(unweighted dataset).records", model.transform(DatasetBase::from(x.clone())).records));
                (out, riders)
            });
            match forms {
                Ok((out, riders)) => {
                    for (name, z) in out {
                        st.history_steps += 1;
                        if arr_bits(&z) != arr_bits(&want) {
                            viols.push(Violation::new("pca.transform.calling_forms_differ", format!("{} on {} differs from predict(&array) on the same records", name, bname), cj()));
                        }
                    }
                    for r in riders {
                        viols.push(Violation::new("pca.transform.alters_data_riding_along", format!("{} ({})", r, bname), cj()));
                    }
                }
                Err(msg) => viols.push(Violation::new("pca.transform.panic", format!("a calling form of predict / transform on {} panicked: {}", bname, msg), cj())),
            }
        }
    }

    // ---------------- (6) calling forms of fit: what rides along in the dataset must not matter
    {
        use ndarray::s;
        let t1 = ndarray::Array1::from_iter((0..n).map(|i| 10.0 + i as f64));
        let mut t2 = Array2::<f64>::zeros((n, 2).f());
        for i in 0..n {
            t2[(i, 0)] = i as f64;
            t2[(i, 1)] = 3.0 - i as f64;
        }
        let t1_rev_store = ndarray::Array1::from_iter((0..n).rev().map(|i| 10.0 + i as f64));
        let weights = ndarray::Array1::from_iter((0..n).map(|i| 1.0 + i as f32));
        let fnames: Vec<String> = (0..p).map(|j| format!("f{}", j)).collect();
        let ds = DatasetBase::new(a.clone(), t1.clone()).with_weights(weights.clone()).with_feature_names(fnames);
        let ds2 = DatasetBase::new(a.clone(), t2).with_weights(weights);
        let dsv = DatasetBase::new(a.view(), t1_rev_store.slice(s![..;-1]));
        let outs = vec![
            ("fit(&dataset with 1-D targets, weights, feature names)", bits_of(guarded(|| canon.fit(&ds)))),
            ("fit(&dataset.view())", bits_of(guarded(|| canon.fit(&ds.view())))),
            ("fit(&dataset with column-major 2-D targets)", bits_of(guarded(|| canon.fit(&ds2)))),
            ("fit(&dataset of views with reversed targets)", bits_of(guarded(|| canon.fit(&dsv)))),
        ];
        for (name, o) in outs {
            st.history_steps += 1;
            if o != canon_out {
                viols.push(Violation::new("pca.fit.calling_forms_differ", format!("{} gives a different model / outcome than fit(&Dataset::from(records))", name), cj()));
            }
        }
        // weights: PCA does not use them (statement: all record matrices), so any weight vector - also
        // one with exact zeros, or all zeros - must give the bit-identical model (and no "empty" error)
        let weightings: Vec<(&str, Vec<f32>)> = vec![
            ("all weights 1", vec![1.0; n]),
            ("one weight exactly 0", (0..n).map(|i| if i == n / 2 { 0.0 } else { 1.0 }).collect()),
            ("every second weight exactly 0", (0..n).map(|i| (i % 2) as f32).collect()),
            ("all weights 0", vec![0.0; n]),
            ("non-uniform weights", (0..n).map(|i| 0.25 + i as f32).collect()),
        ];
        for (name, w) in weightings {
            st.history_steps += 1;
            let dsw = DatasetBase::from(a.clone()).with_weights(ndarray::Array1::from(w));
            let (o, mw) = (bits_of(guarded(|| canon.fit(&dsw))), guarded(|| canon.fit(&dsw.view())));
            if o != canon_out || bits_of(mw) != canon_out {
                viols.push(Violation::new(
                    "pca.fit.depends_on_weights",
                    format!("fit of the dataset with {} (and of its view) gives a different model / outcome than the unweighted fit: {}", name, match &o { Err(e) => e.clone(), Ok(_) => "another model".into() }),
                    cj(),
                ));
            }
        }
    }

    // ---------------- (7) `dataset.to_owned()` / `dataset.view().to_owned()` of every record layout (the idiom
    // when the caller only holds a view, because transform consumes its dataset): the copy must hold the
    // same matrix, fit to the same model and project to the same coordinates
    {
        use ndarray::s;
        let t1 = ndarray::Array1::from_iter((0..n).map(|i| 10.0 + i as f64));
        let mut f_owned = Array2::<f64>::zeros((n, p).f());
        f_owned.assign(&a);
        let fm = Array2::from_shape_fn((p, n), |(j, i)| a[(i, j)]); // feature-major p x n buffer, standard layout
        // (from_shape_fn, not `.slice(..).to_owned()`: ndarray's to_owned keeps negative strides)
        let rev_rows = Array2::from_shape_fn((n, p), |(i, j)| a[(n - 1 - i, j)]);
        let rev_feat = Array2::from_shape_fn((n, p), |(i, j)| a[(i, p - 1 - j)]);
        let scale = a.iter().fold(0.0f64, |m, v| m.max(v.abs()));
        type Src = (Vec<isize>, Result<Vec<Vec<u64>>, String>);
        let mut check = |name: &str, owned: DatasetBase<Array2<f64>, ndarray::Array1<f64>>, src: &Src, viols: &mut Vec<Violation>| {
            st.history_steps += 1;
            if owned.records() != &a || owned.targets() != &t1 {
                viols.push(Violation::new(
                    "pca.transform.calling_forms_differ",
                    format!("{} does not hold the same records / targets as the dataset it was copied from (first row {:?} vs {:?})", name, owned.records().row(0), a.row(0)),
                    cj(),
                ));
                return;
            }
            // same memory layout as the source -> the fit is the identical computation: bit-identical outcome
            // (another layout is the layout dimension of the fit cases, with the full oracle)
            if owned.records().strides() == &src.0[..] {
                let o = bits_of(guarded(|| canon.fit(&owned)));
                if o != src.1 {
                    viols.push(Violation::new("pca.fit.calling_forms_differ", format!("fit(&{}) gives a different model / outcome than fit on the dataset it was copied from", name), cj()));
                }
            }
            // same values -> projecting them gives the same coordinates (up to the rounding of another stride pattern)
            match guarded(|| model.transform(owned).records) {
                Ok(z) => {
                    let zmax = za.iter().fold(0.0f64, |m, v| m.max(v.abs()));
                    let bad = z.shape() != za.shape() || z.iter().zip(za.iter()).any(|(u, v)| !((u - v).abs() <= 1e-12 * zmax.max(scale)));
                    if bad {
                        viols.push(Violation::new("pca.transform.calling_forms_differ", format!("transform({}) differs from predict(&array) on the same records", name), cj()));
                    }
                }
                Err(msg) => viols.push(Violation::new("pca.transform.panic", format!("transform of {} panicked: {}", name, msg), cj())),
            }
        };
        let r = guarded(|| {
            let d_std = DatasetBase::new(a.clone(), t1.clone());
            let d_f = DatasetBase::new(f_owned.clone(), t1.clone());
            let d_t = DatasetBase::new(fm.t(), t1.clone());
            let d_rr = DatasetBase::new(rev_rows.slice(s![..;-1, ..]), t1.clone());
            let d_rf = DatasetBase::new(rev_feat.slice(s![.., ..;-1]), t1.clone());
            if p > 1 && (d_rf.records().strides()[1] != -1 || d_rr.records().strides()[0] >= 0 || d_t.records().strides()[0] != 1) {
                println!("MACHINERY-ERROR the layouted datasets of the to_owned family do not have the intended strides");
                std::process::exit(2);
            }
            let src = |strides: &[isize], o: Result<Vec<Vec<u64>>, String>| -> Src { (strides.to_vec(), o) };
            let srcs = vec![
                src(d_std.records().strides(), bits_of(guarded(|| canon.fit(&d_std)))),
                src(d_f.records().strides(), bits_of(guarded(|| canon.fit(&d_f)))),
                src(d_t.records().strides(), bits_of(guarded(|| canon.fit(&d_t)))),
                src(d_rr.records().strides(), bits_of(guarded(|| canon.fit(&d_rr)))),
                src(d_rf.records().strides(), bits_of(guarded(|| canon.fit(&d_rf)))),
            ];
            let list = vec![
                ("standard dataset.to_owned()", d_std.to_owned(), 0),
                ("standard dataset.view().to_owned()", d_std.view().to_owned(), 0),
                ("column-major dataset.to_owned()", d_f.to_owned(), 1),
                ("column-major dataset.view().to_owned()", d_f.view().to_owned(), 1),
                ("transposed-view dataset.to_owned()", d_t.to_owned(), 2),
                ("transposed-view dataset.view().to_owned()", d_t.view().to_owned(), 2),
                ("reversed-row-view dataset.to_owned()", d_rr.to_owned(), 3),
                ("reversed-row-view dataset.view().to_owned()", d_rr.view().to_owned(), 3),
                ("reversed-feature-view dataset.to_owned()", d_rf.to_owned(), 4),
                ("reversed-feature-view dataset.view().to_owned()", d_rf.view().to_owned(), 4),
            ];
            (srcs, list)
        });
        match r {
            Ok((srcs, list)) => {
                for (name, owned, i) in list {
                    check(name, owned, &srcs[i], viols);
                }
            }
            Err(msg) => viols.push(Violation::new("pca.transform.panic", format!("dataset.to_owned() panicked: {}", msg), cj())),
        }
    }
    st
}

fn replay_value(v: &Value) -> Vec<Violation> {
    let c: Case = match serde_json::from_value::<Case>(v.clone()) {
        Ok(mut c) => {
            if c.x_bits.len() == c.x.len() && !c.x_bits.is_empty() {
                c.x = c.x_bits.iter().map(|r| r.iter().map(|b| f64::from_bits(*b)).collect()).collect();
            }
            if c.y_bits.len() == c.y.len() && !c.y_bits.is_empty() {
                c.y = c.y_bits.iter().map(|r| r.iter().map(|b| f64::from_bits(*b)).collect()).collect();
            }
            c
        }
        Err(e) => {
            println!("MACHINERY-ERROR replay case does not parse: {}", e);
            std::process::exit(2);
        }
    };
    let mut out = Vec::new();
    run_case(&c, &mut out);
    out
}

// ---------------------------------------------------------------------- catalogue

const M: i64 = 23;
/// generator vectors of the rank-1 lattices ((i+1) * g_j mod 23) - 11
/// (columns 5..9 added for p in {6,7,9}; no two generators of a row sum to 23, which would make two
/// columns exact affine images of each other - rows 1 and 2 have such a pair among their first five,
/// kept as it was: those p = 5 members are rank deficient and fall under the domain predicate)
const GENS: [[i64; 9]; 4] = [[1, 5, 7, 11, 13, 17, 19, 2, 3], [2, 3, 9, 14, 17, 1, 4, 5, 7], [4, 6, 10, 15, 19, 1, 2, 3, 5], [8, 12, 16, 18, 21, 1, 3, 4, 6]];
const ANGLES: [[f64; 4]; 4] = [[0.5, 1.1, 0.3, 0.8], [0.2, 0.7, 1.3, 0.4], [1.0, 0.25, 0.6, 1.2], [0.75, 0.35, 0.9, 0.15]];
const AXIS_SCALES: [f64; 5] = [1.0, 10.0, 100.0, 1.0, 10.0];
const MIXED_SCALES: [f64; 5] = [1e-3, 1.0, 1e3, 1e-3, 1.0];
const LOAD: [[f64; 5]; 2] = [[1.0, 2.0, -1.0, 3.0, -2.0], [2.0, -1.0, 1.0, 1.0, 3.0]];

fn lattice(n: usize, p: usize, v: usize) -> Mat {
    (0..n).map(|i| (0..p).map(|j| (((i as i64 + 1) * GENS[v][j]) % M - (M - 1) / 2) as f64).collect()).collect()
}

fn scale_cols(x: &Mat, s: &[f64], shift: usize) -> Mat {
    x.iter().map(|r| r.iter().enumerate().map(|(j, v)| v * s[(j + shift) % s.len()]).collect()).collect()
}

fn rotate(x: &Mat, v: usize) -> Mat {
    x.iter()
        .map(|r| {
            let mut r = r.clone();
            for j in 0..r.len().saturating_sub(1) {
                let (c, s) = (ANGLES[v][j % 4].cos(), ANGLES[v][j % 4].sin());
                let (a, b) = (r[j], r[j + 1]);
                r[j] = c * a - s * b;
                r[j + 1] = s * a + c * b;
            }
            r
        })
        .collect()
}

fn add_cols(x: &Mat, off: &dyn Fn(usize) -> f64) -> Mat {
    x.iter().map(|r| r.iter().enumerate().map(|(j, v)| v + off(j)).collect()).collect()
}

/// Every member of the catalogue for one (n, p, variant): (family, matrix).
fn catalogue(n: usize, p: usize, v: usize) -> Vec<(String, Mat)> {
    let mut out: Vec<(String, Mat)> = Vec::new();
    let b = lattice(n, p, v);
    out.push(("iso_lattice".into(), b.clone()));
    if n >= 2 * p {
        // cross-polytope +-2 e_j padded with copies of the centre: covariance exactly (8/(n-1)) I
        let cross: Mat = (0..n)
            .map(|i| (0..p).map(|j| if i / 2 == j && i < 2 * p { if i % 2 == 0 { 2.0 } else { -2.0 } } else { 0.0 }).collect())
            .collect();
        out.push(("iso_cross_exact".into(), cross.clone()));
        let cj: Mat = cross.iter().enumerate().map(|(i, r)| r.iter().enumerate().map(|(j, x)| x + en::jitter(i + 7 * v, j)).collect()).collect();
        out.push(("iso_cross_jitter".into(), cj));
    }
    let aniso = scale_cols(&b, &AXIS_SCALES, v);
    out.push(("aniso_1_10_100".into(), aniso.clone()));
    if p >= 2 {
        out.push(("aniso_rotated".into(), rotate(&aniso, v)));
        for r in 1..=2usize {
            if r >= p {
                continue;
            }
            // latent integer factors x integer loadings + constant jitter table
            let m: Mat = (0..n)
                .map(|i| {
                    (0..p)
                        .map(|j| {
                            let mut s = en::jitter(i + 3 * v, j);
                            for l in 0..r {
                                let t = (((i as i64 + 1) * GENS[v][l + 1]) % M - (M - 1) / 2) as f64;
                                s += t * LOAD[l][j % 5] * (1.0 + (j / 5) as f64);
                            }
                            s
                        })
                        .collect()
                })
                .collect();
            out.push((format!("lowrank{}_jitter", r), m));
        }
    }
    out.push(("offset_1e3".into(), add_cols(&b, &|_| 1000.0)));
    if p >= 2 {
        out.push(("offset_1e3_aniso_rotated".into(), add_cols(&rotate(&aniso, v), &|j| if j % 2 == 0 { 1000.0 } else { -1000.0 })));
    }
    out.push(("scale_1e-3".into(), scale_cols(&b, &[1e-3], 0)));
    out.push(("scale_1e3".into(), scale_cols(&b, &[1e3], 0)));
    if p >= 2 {
        out.push(("scale_mixed_1e-3_1_1e3".into(), scale_cols(&b, &MIXED_SCALES, v)));
    }
    out
}

/// Large-n members: rank-1 lattice ((i+1) g_j mod 4099) - 2049 with the catalogue's transformations.
fn large_catalogue(n: usize, p: usize, all: bool) -> Vec<(String, Mat)> {
    const G: [i64; 3] = [1, 1237, 2711];
    let b: Mat = (0..n).map(|i| (0..p).map(|j| (((i as i64 + 1) * G[j]) % 4099 - 2049) as f64).collect()).collect();
    let aniso = scale_cols(&b, &AXIS_SCALES, 0);
    let mut out = vec![
        ("large_aniso_1_10_100".to_string(), aniso.clone()),
        ("large_offset_1e3_aniso_rotated".to_string(), add_cols(&rotate(&aniso, 0), &|j| if j % 2 == 0 { 1000.0 } else { -1000.0 })),
    ];
    if all {
        out.push(("large_iso_lattice".to_string(), b.clone()));
        out.push(("large_scale_1e-3".to_string(), scale_cols(&b, &[1e-3], 0)));
    }
    out
}

fn bits(x: &Mat) -> Vec<Vec<u64>> {
    x.iter().map(|r| r.iter().map(|v| v.to_bits()).collect()).collect()
}

fn fmax(a: &AtomicU64, v: f64) {
    // non-negative finite floats order like their bit patterns
    if v.is_finite() && v >= 0.0 {
        a.fetch_max(v.to_bits(), Ordering::Relaxed);
    }
}
fn fget(a: &AtomicU64) -> f64 {
    f64::from_bits(a.load(Ordering::Relaxed))
}

fn main() {
    let ctx = Ctx::new("C18", Level::Exploration);
    ctx.maybe_replay(&replay_value);
    ctx.set_rule(
        "cases = (catalogue matrix, embedding size k, whitening); catalogue = for every n in {6,9,12,20} (quick) / 6..=20 (thorough), p in {1,2,3,4,5,6,7,9} (n > p) and every variant \
         (1 quick / 4 thorough generator + angle + scale-permutation sets): rank-1 integer lattice ((i+1) g_j mod 23) - 11, exactly isotropic cross-polytope (+-2 e_j, n >= 2p) and its constant-jitter image, \
         axis scales 1:10:100, the same rotated by fixed Givens angles, rank-1 / rank-2 integer factor models + constant jitter, offset 1e3, offset +-1e3 of the rotated one, all columns x 1e-3, all x 1e3, columns x (1e-3, 1, 1e3); \
         k = 1..p with whitening off and on (full oracle), k = 0 and k = p+1 (must be Err), 0 x p data for every k (must be Err). Every member is run. \
         evaluation = one fit with all assertions; non-trivial = a valid fit inside the domain predicate; out_of_domain = (matrix, k) whose k-th covariance eigenvalue is below 100 x the solver's documented null-space cut-off; \
         Every fit case is run with the records in five memory layouts (standard, column-major owned, transposed view of a feature-major buffer, reversed-row view of a row-reversed copy, reversed-feature view of a feature-reversed copy): all oracles apply to each and the model must agree with the standard-layout fit.          Large-n family: n in {1024, 1025, 1500, 2048, 4097}, p in {2,3}, k in {1, p}, 2 (quick) / 4 (thorough) lattice members ((i+1) g_j mod 4099) - 2049, whole matrix projected in one call.          For rows {0, 1, n/2, 1023, 1024, n-2, n-1} the projection of the row alone must equal its row of the whole projection; predict_inplace twice into one buffer must equal predict.          Call histories (kind history; every catalogue member A with its successor B of the same shape, every k, whitening off/on; plus n = 1025 (quick) / 1025, 1500, 4097 (thorough) with k = p):          six ways of writing the same parameter set (decoy-then-real whiten, repeated, cloned, default) must be == / print as / fit like the canonical one; the same params object fitted on A, B, A; the same model projecting A, B, A and inverting z_A before / after B;          predict_inplace(A) into buffers pre-filled with NaN, +inf, 1e300, -answer, answer, the projection of B, another model's projection, and a B, A, B, A chain through one buffer; eight calling forms (array view, owned array, dataset, dataset view, owned dataset, transform of dataset / dataset view / unweighted dataset) - all compared BIT for bit.          distinct by construction (kind, family, variant, n, p, k, whitening, layout).",
    );
    ctx.assume("oracle = lvmc_core::refmath::jacobi_eig (plain f64 cyclic Jacobi) of the sample covariance with divisor n-1; its residual |C v - lambda v| <= 1e-12 lambda_1 is verified for every matrix (else MACHINERY-ERROR)");
    ctx.assume("tolerance 1e-6 (LOBPCG accuracy; TruncatedSvd precision 1e-5 / residual 1e-10) for everything that depends on the solver: orthonormality, alignment sin(angle), variances relative to lambda_1, whitened covariance, reconstruction relative to max |x - mean|");
    ctx.assume("alignment tolerance is max(1e-6, 10 x 1e-10 / (absolute gap of the Gram matrix X^T X to the neighbouring eigenvalue)), because the solver's stopping rule is an ABSOLUTE residual 1e-10; cases that needed the wider bound are counted (alignment_blocks_needing_absolute_solver_tolerance)");
    ctx.assume("eigenvalues closer than 1e-3 lambda_1 form a degenerate block: the projector of the components is compared with the projector of the eigenvectors; a block straddling the cut k is not compared (any basis of a part of it is valid), the variance statements still apply");
    ctx.assume("domain: lambda_k / lambda_1 >= 100 x (f64::EPSILON x 1e6), the null-space cut-off of linfa-linalg's TruncatedSvd; below it only 'does not panic' is demanded (counted as out_of_domain)");
    ctx.assume("formulas recomputed from the model's own numbers (ratio = sigma^2 / sum sigma^2, predict = (x - mean) E^T, explained_variance = sigma^2/(n-1)) are compared at relative 1e-9; mean at 1e-12; predict(&dataset) == predict(&array) == transform(dataset).records bitwise");
    ctx.assume("layout comparison (only when neither fit has a solver-family violation): mean 1e-12 of the largest column entry, squared singular values 2e-6 sigma_1^2, component subspace 2e-6 when the spectrum has a gap >= 1e-3 lambda_1 at the cut; single-row projection vs row of the batch projection: 1e-12");
    ctx.assume("with whitening, 'components' are the stored rows (scaled by sqrt(n-1)/sigma); 'directions' are those rows normalised; the component subspace is their span");

    // ---------------- enumerate ----------------
    let ns: Vec<usize> = ctx.pick(vec![6usize, 9, 12, 20], (6usize..=20).collect());
    let ps = [1usize, 2, 3, 4, 5, 6, 7, 9];
    let variants = ctx.pick(1usize, 4usize);
    let mut cases: Vec<Case> = Vec::new();
    let mut n_matrices = 0u64;
    let mut n_history = 0u64;
    let mut fam_counts: std::collections::BTreeMap<String, u64> = Default::default();
    for v in 0..variants {
        for &n in &ns {
            for &p in &ps {
                if n <= p {
                    continue;
                }
                let cat = catalogue(n, p, v);
                // call histories: every member as batch A with its successor in the catalogue as batch B
                for (i, (family, x)) in cat.iter().enumerate() {
                    let (fam_b, y) = &cat[(i + 1) % cat.len()];
                    for whiten in [false, true] {
                        for k in 1..=p {
                            n_history += 1;
                            cases.push(Case { kind: "history".into(), family: format!("{} | {}", family, fam_b), variant: v, n, p, x: x.clone(), x_bits: bits(x), y: y.clone(), y_bits: bits(y), k, whiten, layout: "standard".into() });
                        }
                    }
                }
                for (family, x) in cat {
                    n_matrices += 1;
                    *fam_counts.entry(family.clone()).or_default() += 1;
                    for whiten in [false, true] {
                        for k in 0..=p + 1 {
                            let kind = if k == 0 {
                                "err_k0"
                            } else if k == p + 1 {
                                "err_kp1"
                            } else {
                                "fit"
                            };
                            for layout in LAYOUTS {
                                cases.push(Case { kind: kind.into(), family: family.clone(), variant: v, n, p, x: x.clone(), x_bits: bits(&x), y: vec![], y_bits: vec![], k, whiten, layout: layout.into() });
                            }
                        }
                    }
                }
            }
        }
    }
    for &p in &ps {
        for whiten in [false, true] {
            for k in 1..=p {
                cases.push(Case { kind: "err_empty".into(), family: "empty".into(), variant: 0, n: 0, p, x: vec![], x_bits: vec![], y: vec![], y_bits: vec![], k, whiten, layout: "standard".into() });
            }
        }
    }
    // large-n family: more rows than any internal block size; whole matrix projected in ONE call;
    // k = 1 and k = p only (the regimes in which the eigen-solver is exact / reliable)
    let mut n_large = 0u64;
    for &n in &[1024usize, 1025, 1500, 2048, 4097] {
        for &p in &[2usize, 3] {
            for (family, x) in large_catalogue(n, p, ctx.thorough()) {
                n_matrices += 1;
                n_large += 1;
                *fam_counts.entry(family.clone()).or_default() += 1;
                let xb = bits(&x);
                for whiten in [false, true] {
                    for k in [1usize, p] {
                        for layout in LAYOUTS {
                            cases.push(Case { kind: "fit".into(), family: family.clone(), variant: 0, n, p, x: x.clone(), x_bits: xb.clone(), y: vec![], y_bits: vec![], k, whiten, layout: layout.into() });
                        }
                    }
                }
            }
        }
    }
    // call histories across the internal block size: n = 1025 (quick) / also 1500 and 4097 (thorough), k = p
    for &n in ctx.pick(&[1025usize][..], &[1025usize, 1500, 4097][..]) {
        for &p in &[2usize, 3] {
            let cat = large_catalogue(n, p, ctx.thorough());
            for (i, (family, x)) in cat.iter().enumerate() {
                let (fam_b, y) = &cat[(i + 1) % cat.len()];
                for whiten in [false, true] {
                    n_history += 1;
                    cases.push(Case { kind: "history".into(), family: format!("{} | {}", family, fam_b), variant: 0, n, p, x: x.clone(), x_bits: bits(x), y: y.clone(), y_bits: bits(y), k: p, whiten, layout: "standard".into() });
                }
            }
        }
    }
    // observation outside the property statement (recorded, not judged): names of data riding along
    {
        let x = to_arr(&lattice(6, 2, 0), 2);
        let ds = DatasetBase::new(x, ndarray::Array1::from_iter((0..6).map(|i| i as f64))).with_feature_names(vec!["a", "b"]).with_target_names(vec!["y"]);
        if let Ok(Ok(m)) = guarded(|| Pca::params(1).fit(&ds)) {
            let tr = m.transform(ds);
            ctx.extra("observation_transform_output_target_names", json!(tr.target_names()));
            ctx.extra("observation_transform_output_feature_names", json!(tr.feature_names()));
        }
    }
    ctx.extra("history_cases", json!(n_history));
    ctx.extra("large_n_matrices", json!(n_large));
    ctx.extra("catalogue_matrices", json!(n_matrices));
    ctx.extra("catalogue_matrices_per_family", json!(fam_counts));
    ctx.extra("cases_enumerated", json!(cases.len()));

    // ---------------- sweep ----------------
    let done = AtomicU64::new(0);
    let c_single = AtomicU64::new(0);
    let c_block = AtomicU64::new(0);
    let c_straddle = AtomicU64::new(0);
    let c_widened = AtomicU64::new(0);
    let c_needed = AtomicU64::new(0);
    let c_ident = AtomicU64::new(0);
    let c_err = AtomicU64::new(0);
    let c_fit = AtomicU64::new(0);
    let c_layout = AtomicU64::new(0);
    let c_rows = AtomicU64::new(0);
    let c_hist = AtomicU64::new(0);
    let c_whiten = AtomicU64::new(0);
    let m_orth = AtomicU64::new(0);
    let m_align = AtomicU64::new(0);
    let m_wtol = AtomicU64::new(0);
    let m_var = AtomicU64::new(0);
    let m_whiten = AtomicU64::new(0);
    let m_recon = AtomicU64::new(0);
    let min_gap = std::sync::Mutex::new(f64::INFINITY);
    // per (p, k): [fits with full oracle, fits with a violation other than the listed closed-form ones]
    let by_pk: std::sync::Mutex<std::collections::BTreeMap<String, [u64; 2]>> = Default::default();
    par_sweep(&ctx, "pca sweep", &cases, |c| {
        let mut v = Vec::new();
        let st = run_case(c, &mut v);
        if st.out_of_domain {
            ctx.out_of_domain();
        }
        ctx.eval(st.nontrivial);
        if st.nontrivial && !st.history_case {
            let solver_viol = st.solver_violation;
            let mut m = by_pk.lock().unwrap();
            let e = m.entry(format!("p={} k={}{}", c.p, c.k, if c.n >= 1024 { " large-n" } else { "" })).or_insert([0, 0]);
            e[0] += 1;
            e[1] += solver_viol as u64;
        }
        ctx.violations(v);
        done.fetch_add(1, Ordering::Relaxed);
        c_single.fetch_add(st.single_axes_checked, Ordering::Relaxed);
        c_block.fetch_add(st.degenerate_blocks_checked, Ordering::Relaxed);
        c_straddle.fetch_add(st.straddling_blocks_skipped, Ordering::Relaxed);
        c_widened.fetch_add(st.widened, Ordering::Relaxed);
        c_needed.fetch_add(st.needed_widening, Ordering::Relaxed);
        c_ident.fetch_add(st.full_rank_identity_checked, Ordering::Relaxed);
        c_err.fetch_add(st.error_case as u64, Ordering::Relaxed);
        c_fit.fetch_add(st.projection_checked, Ordering::Relaxed);
        c_layout.fetch_add(st.layout_compared, Ordering::Relaxed);
        c_rows.fetch_add(st.single_row_checked, Ordering::Relaxed);
        c_hist.fetch_add(st.history_steps, Ordering::Relaxed);
        if st.projection_checked > 0 && c.whiten {
            c_whiten.fetch_add(1, Ordering::Relaxed);
        }
        if !st.solver_violation {
            fmax(&m_orth, st.max_orth);
            fmax(&m_whiten, st.max_whiten);
            fmax(&m_align, st.max_align);
            fmax(&m_wtol, st.max_align_widened_tol);
            fmax(&m_var, st.max_var_rel);
            if !c.whiten {
                fmax(&m_recon, st.max_recon_rel);
            }
        }
        {
            let mut g = min_gap.lock().unwrap();
            if st.min_rel_gap_checked < *g {
                *g = st.min_rel_gap_checked;
            }
        }
        if c.kind == "fit" {
            ctx.sample(|| json!({"family": c.family, "variant": c.variant, "n": c.n, "p": c.p, "k": c.k, "whiten": c.whiten, "layout": c.layout, "first_rows": c.x.iter().take(3).collect::<Vec<_>>()}));
        }
    });
    let done = done.load(Ordering::Relaxed);
    ctx.extra("cases_completed", json!(done));
    if done != cases.len() as u64 {
        ctx.capped(&format!("{} of {} cases completed", done, cases.len()));
    }
    ctx.extra("error_cases_k0_kp1_empty", json!(c_err.load(Ordering::Relaxed)));
    ctx.extra("fits_with_full_oracle", json!(c_fit.load(Ordering::Relaxed)));
    ctx.extra("non_standard_layout_fits_compared_with_standard_fit", json!(c_layout.load(Ordering::Relaxed)));
    ctx.extra("single_row_projections_compared", json!(c_rows.load(Ordering::Relaxed)));
    ctx.extra("history_steps_compared_bit_for_bit", json!(c_hist.load(Ordering::Relaxed)));
    ctx.extra("fits_with_full_oracle_whitened", json!(c_whiten.load(Ordering::Relaxed)));
    ctx.extra("single_axes_compared_with_eigenvector", json!(c_single.load(Ordering::Relaxed)));
    ctx.extra("degenerate_blocks_compared_by_projector", json!(c_block.load(Ordering::Relaxed)));
    ctx.extra("blocks_straddling_the_cut_not_compared", json!(c_straddle.load(Ordering::Relaxed)));
    ctx.extra("alignment_blocks_with_absolute_solver_tolerance_above_1e-6", json!(c_widened.load(Ordering::Relaxed)));
    ctx.extra("alignment_blocks_needing_absolute_solver_tolerance", json!(c_needed.load(Ordering::Relaxed)));
    ctx.extra("all_components_kept_identity_checked", json!(c_ident.load(Ordering::Relaxed)));
    ctx.extra("per_p_k_[fits,fits_with_leading_axes_or_variance_violation]", json!(*by_pk.lock().unwrap()));
    ctx.extra("smallest_relative_gap_of_a_compared_block", json!(*min_gap.lock().unwrap()));
    ctx.extra(
        "measured_maxima",
        json!({
            "orthonormality_error_of_fits_without_axes_violation": fget(&m_orth),
            "whitened_covariance_error_of_fits_without_axes_violation": fget(&m_whiten),
            "alignment_sin_angle_of_fits_without_axes_violation": fget(&m_align),
            "largest_alignment_tolerance_granted": fget(&m_wtol),
            "variance_error_rel_lambda1_of_fits_without_axes_violation": fget(&m_var),
            "reconstruction_error_rel_spread_unwhitened_fits_without_axes_violation": fget(&m_recon),
        }),
    );
    ctx.finish(&replay_value);
}
