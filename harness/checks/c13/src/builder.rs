//! Builder-history family of C13: every order of the SvmParams setters (plus decoy-then-real
//! writes and the alternative constructors) must (a) publish, through the checked parameters'
//! getters, the FINAL logical parameter set as the setters' rustdoc defines it, and (b) fit to the
//! bit-identical model of the canonical construction of that parameter set.
//!
//! The reference (`RefParams`) is a plain record updated with the documented effect of each setter;
//! no linfa code in it.

use crate::layout::{obs_diff, observe_any, Model};
use crate::oracle::{Counters, Obs};
use crate::{f64of, Case, SvmFloat};
use linfa::dataset::{Dataset, Pr};
use linfa::traits::Fit;
use linfa::{ParamGuard, Platt};
use linfa_kernel::{Kernel, KernelMethod, KernelType};
use linfa_svm::{Svm, SvmParams};
use lvmc_core::{guarded, json, Violation};
use ndarray::{Array1, Array2};
use serde::{Deserialize, Serialize};

#[derive(Clone, Debug, Serialize, Deserialize, PartialEq)]
pub enum Op {
    Eps(f64),
    Shrinking(bool),
    Gaussian(f64),
    Poly(f64, f64),
    Linear,
    /// with_kernel_params(Kernel::params().kind(Dense).method(Gaussian(e)))
    WithKernelGaussian(f64),
    /// with_platt_params(Platt::params().maxiter(n))
    WithPlattMaxiter(usize),
    PosNeg(f64, f64),
    NuWeight(f64),
    CSvr(f64, Option<f64>),
    NuSvr(f64, Option<f64>),
    /// deprecated: C, loss eps fixed at 0.1, and the SOLVER eps
    CEps(f64, f64),
    /// deprecated: nu, C fixed at 1, and the SOLVER eps
    NuEps(f64, f64),
}

#[derive(Clone, Debug, PartialEq)]
enum RefKernel {
    Linear,
    Gaussian(f64),
    Poly(f64, f64),
}

/// the documented state of the hyper-parameters
#[derive(Clone, Debug, PartialEq)]
struct RefParams {
    c: Option<(f64, f64)>,
    nu: Option<(f64, f64)>,
    eps: f64,
    shrinking: bool,
    kernel: RefKernel,
    platt_maxiter: usize,
}

impl RefParams {
    /// `SvmParams::new`: "C values of (1, 1), Eps of 1e-7, No shrinking, Linear kernel"
    fn new() -> RefParams {
        RefParams { c: Some((1.0, 1.0)), nu: None, eps: 1e-7, shrinking: false, kernel: RefKernel::Linear, platt_maxiter: 100 }
    }
    fn apply(&mut self, op: &Op) {
        match *op {
            Op::Eps(e) => self.eps = e,
            Op::Shrinking(b) => self.shrinking = b,
            Op::Gaussian(e) | Op::WithKernelGaussian(e) => self.kernel = RefKernel::Gaussian(e),
            Op::Poly(c, d) => self.kernel = RefKernel::Poly(c, d),
            Op::Linear => self.kernel = RefKernel::Linear,
            Op::WithPlattMaxiter(n) => self.platt_maxiter = n,
            Op::PosNeg(p, n) => {
                self.c = Some((p, n));
                self.nu = None;
            }
            Op::NuWeight(nu) => {
                self.nu = Some((nu, nu));
                self.c = None;
            }
            Op::CSvr(c, l) => {
                self.c = Some((c, l.unwrap_or(0.1)));
                self.nu = None;
            }
            Op::NuSvr(nu, c) => {
                self.nu = Some((nu, c.unwrap_or(1.0)));
                self.c = None;
            }
            Op::CEps(c, e) => {
                self.c = Some((c, 0.1));
                self.nu = None;
                self.eps = e;
            }
            Op::NuEps(nu, e) => {
                self.nu = Some((nu, 1.0));
                self.c = None;
                self.eps = e;
            }
        }
    }
    /// canonical construction of this state: kernel, problem type, eps, shrinking, platt (only non-deprecated setters)
    fn canonical(&self, regression: bool) -> Vec<Op> {
        let mut v = vec![match self.kernel {
            RefKernel::Linear => Op::Linear,
            RefKernel::Gaussian(e) => Op::Gaussian(e),
            RefKernel::Poly(c, d) => Op::Poly(c, d),
        }];
        match (self.c, self.nu) {
            (Some((a, b)), _) => v.push(if regression { Op::CSvr(a, Some(b)) } else { Op::PosNeg(a, b) }),
            (None, Some((nu, c))) => v.push(if regression { Op::NuSvr(nu, Some(c)) } else { Op::NuWeight(nu) }),
            _ => {}
        }
        v.push(Op::Eps(self.eps));
        v.push(Op::Shrinking(self.shrinking));
        v.push(Op::WithPlattMaxiter(self.platt_maxiter));
        v
    }
}

fn apply_common<F: SvmFloat, T>(p: SvmParams<F, T>, op: &Op) -> Option<SvmParams<F, T>> {
    Some(match *op {
        Op::Eps(e) => p.eps(F::cast(e)),
        Op::Shrinking(b) => p.shrinking(b),
        Op::Gaussian(e) => p.gaussian_kernel(F::cast(e)),
        Op::Poly(c, d) => p.polynomial_kernel(F::cast(c), F::cast(d)),
        Op::Linear => p.linear_kernel(),
        Op::WithKernelGaussian(e) => p.with_kernel_params(Kernel::params().kind(KernelType::Dense).method(KernelMethod::Gaussian(F::cast(e)))),
        Op::WithPlattMaxiter(n) => p.with_platt_params(Platt::params().maxiter(n)),
        Op::PosNeg(a, b) => p.pos_neg_weights(F::cast(a), F::cast(b)),
        Op::NuWeight(nu) => p.nu_weight(F::cast(nu)),
        _ => return None,
    })
}

#[allow(deprecated)]
fn apply_reg<F: SvmFloat>(p: SvmParams<F, F>, op: &Op) -> SvmParams<F, F> {
    match *op {
        Op::CSvr(c, l) => p.c_svr(F::cast(c), l.map(|x| F::cast(x))),
        Op::NuSvr(nu, c) => p.nu_svr(F::cast(nu), c.map(|x| F::cast(x))),
        Op::CEps(c, e) => p.c_eps(F::cast(c), F::cast(e)),
        Op::NuEps(nu, e) => p.nu_eps(F::cast(nu), F::cast(e)),
        _ => apply_common(p, op).expect("classification-only setter in a regression sequence"),
    }
}

fn construct<F: SvmFloat, T>(ctor: &str) -> SvmParams<F, T> {
    match ctor {
        "new" => SvmParams::new(),
        "default" => SvmParams::default(),
        _ => Svm::<F, T>::params(),
    }
}

/// (a) the getters of the checked parameters against the reference state
fn getters_diff<F: SvmFloat, T>(p: &SvmParams<F, T>, want: &RefParams) -> Option<String> {
    let v = match p.check_ref() {
        Ok(v) => v,
        Err(e) => return Some(format!("check_ref() of a valid parameter set returned Err({})", e)),
    };
    let pair = |x: Option<(F, F)>| x.map(|(a, b)| (f64of(a), f64of(b)));
    let wpair = |x: Option<(f64, f64)>| x.map(|(a, b)| (f64of(F::cast(a)), f64of(F::cast(b))));
    if pair(v.c()) != wpair(want.c) {
        return Some(format!("c() = {:?}, documented final value {:?}", pair(v.c()), want.c));
    }
    if pair(v.nu()) != wpair(want.nu) {
        return Some(format!("nu() = {:?}, documented final value {:?}", pair(v.nu()), want.nu));
    }
    let sp = v.solver_params();
    if f64of(sp.eps) != f64of(F::cast(want.eps)) || sp.shrinking != want.shrinking {
        return Some(format!("solver_params() = (eps {}, shrinking {}), documented final value (eps {}, shrinking {})", f64of(sp.eps), sp.shrinking, want.eps, want.shrinking));
    }
    let wk = Kernel::params().kind(KernelType::Dense).method(match want.kernel {
        RefKernel::Linear => KernelMethod::Linear,
        RefKernel::Gaussian(e) => KernelMethod::Gaussian(F::cast(e)),
        RefKernel::Poly(c, d) => KernelMethod::Polynomial(F::cast(c), F::cast(d)),
    });
    if v.kernel_params() != &wk {
        return Some(format!("kernel_params() = {:?}, documented final value {:?}", v.kernel_params(), wk));
    }
    let wp = Platt::params().maxiter(want.platt_maxiter);
    if v.platt_params() != &wp {
        return Some(format!("platt_params() = {:?}, documented final value {:?}", v.platt_params(), wp));
    }
    None
}

/// builds the parameters through `ctor` + `ops`, checks the getters, fits; Err = outcome string
fn build_and_fit<F: SvmFloat>(case: &Case, ctor: &str, ops: &[Op], want: &RefParams) -> (Option<String>, Result<Model<F>, String>) {
    let x: Array2<F> = crate::to_arr(&case.x);
    let r = guarded(|| -> (Option<String>, Result<Model<F>, String>) {
        match case.target_kind.as_str() {
            "bool" | "pr" | "oneclass" => {
                macro_rules! go {
                    ($t:ty, $wrap:expr, $ds:expr) => {{
                        let mut p: SvmParams<F, $t> = construct(ctor);
                        for op in ops {
                            p = apply_common(p, op).expect("regression-only setter in a classification sequence");
                        }
                        let g = getters_diff(&p, want);
                        (g, p.fit(&$ds).map($wrap).map_err(|e| format!("Err({})", e)))
                    }};
                }
                if case.target_kind == "oneclass" {
                    go!(Pr, Model::Bool, Dataset::from(x.clone()))
                } else {
                    let ds = Dataset::new(x.clone(), Array1::from(case.labels.clone()));
                    if case.target_kind == "pr" {
                        go!(Pr, Model::Pr, ds)
                    } else {
                        go!(bool, Model::Bool, ds)
                    }
                }
            }
            _ => {
                let y: Array1<F> = case.targets.iter().map(|&t| F::cast(t)).collect();
                let ds = Dataset::new(x.clone(), y);
                let mut p: SvmParams<F, F> = construct(ctor);
                for op in ops {
                    p = apply_reg(p, op);
                }
                let g = getters_diff(&p, want);
                (g, F::fit_reg(p, &ds).map(Model::Reg).map_err(|e| format!("Err({})", e)))
            }
        }
    });
    match r {
        Ok(x) => x,
        Err(p) => (None, Err(format!("panic: {}", p))),
    }
}

pub fn run_typed<F: SvmFloat>(case: &Case, v: &mut Vec<Violation>) -> Counters {
    let mut cnt = Counters::default();
    let regression = case.target_kind == "reg";
    let mut want = RefParams::new();
    for op in &case.ops {
        want.apply(op);
    }
    let xt: Array2<F> = crate::to_arr(&case.x);
    let xp: Array2<F> = crate::to_arr(&case.probes);
    let cj = serde_json::to_value(case).unwrap();
    let sig = if case.ctor == "params" { "svm.params.builder_order_dependence" } else { "svm.params.constructor_dependence" };
    // canonical construction of the same final state
    let canon = want.canonical(regression);
    let mut want2 = RefParams::new();
    for op in &canon {
        want2.apply(op);
    }
    assert!(want2 == want, "harness: canonical sequence does not reproduce the reference state");
    cnt.fits += 2;
    cnt.builder_sequences += 1;
    let (_, base) = build_and_fit::<F>(case, "params", &canon, &want);
    let (g, got) = build_and_fit::<F>(case, &case.ctor, &case.ops, &want);
    if let Some(d) = g {
        v.push(Violation::new(sig, format!("constructor {:?}, setters {:?}: {}", case.ctor, case.ops, d), cj.clone()));
    }
    let obs = |m: &Result<Model<F>, String>| -> Result<Obs, String> {
        match m {
            Ok(m) => observe_any(m, &xt, &xp),
            Err(e) => Err(e.clone()),
        }
    };
    let (a, b) = (obs(&base), obs(&got));
    if a.is_ok() {
        cnt.nontrivial += 2;
    }
    let diff = match (&a, &b) {
        (Ok(a), Ok(b)) => obs_diff(a, b).map(|d| d.1),
        (Err(a), Err(b)) => {
            if a == b {
                None
            } else {
                Some(format!("outcome {:?} vs {:?}", a, b))
            }
        }
        (Ok(_), Err(b)) => Some(format!("canonical construction fits, this one gives {}", b)),
        (Err(a), Ok(_)) => Some(format!("canonical construction gives {}, this one fits", a)),
    };
    if let Some(d) = diff {
        v.push(Violation::new(
            sig,
            format!("constructor {:?}, setters {:?} and the canonical construction {:?} of the same final parameters fit to different models: {}", case.ctor, case.ops, canon, d),
            json!(cj),
        ));
    }
    cnt
}

/// all orders of `real`, and for every decoy all orders of real + decoy in which the decoy precedes
/// the real setter it is overwritten by (`decoys[i].1` = index into `real`)
pub fn sequences(real: &[Op], decoys: &[(Op, usize)]) -> Vec<Vec<Op>> {
    let mut out: Vec<Vec<Op>> = Vec::new();
    for perm in lvmc_core::enumerate::permutations(real.len()) {
        out.push(perm.iter().map(|&i| real[i].clone()).collect());
    }
    for (d, target) in decoys {
        let m = real.len() + 1;
        for perm in lvmc_core::enumerate::permutations(m) {
            let pos_d = perm.iter().position(|&i| i == real.len()).unwrap();
            let pos_t = perm.iter().position(|&i| i == *target).unwrap();
            if pos_d < pos_t {
                out.push(perm.iter().map(|&i| if i == real.len() { d.clone() } else { real[i].clone() }).collect());
            }
        }
    }
    out
}
