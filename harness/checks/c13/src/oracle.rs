//! Oracles of C13: everything is recomputed in f64 from the PUBLISHED model (alpha, rho, ...) and
//! the harness' own kernel function. No linfa code in here.

use crate::{Case, Kern, Problem};
use lvmc_core::{Value, Violation};

pub const MAX_ITER: u64 = 10_000_000;

#[derive(Default, Clone, Debug)]
pub struct Obs {
    pub alpha: Vec<f64>,
    pub rho: f64,
    pub nsupport: usize,
    pub display: String,
    /// `r` of the nu-solver as printed by `Debug` (private field, but part of the derived Debug output)
    pub debug_r: Option<f64>,
    pub ws_train: Vec<f64>,
    pub ws_probe: Vec<f64>,
    /// weighted_sum(x) - rho evaluated in the subject's float type
    pub dec_train: Vec<f64>,
    pub dec_probe: Vec<f64>,
    pub sign_train: Vec<bool>,
    pub sign_probe: Vec<bool>,
    pub lab_train: Vec<bool>,
    pub lab_probe: Vec<bool>,
    pub val_train: Vec<f64>,
    pub val_probe: Vec<f64>,
    pub pr_train: Vec<f64>,
    pub pr_probe: Vec<f64>,
}

#[derive(Default, Clone, Debug)]
pub struct Counters {
    pub fits: u64,
    pub nontrivial: u64,
    pub out_of_domain: u64,
    pub indeterminate_cases: u64,
    pub platt_errors: u64,
    pub platt_degenerate: u64,
    pub calibrated_models: u64,
    pub fits_shrinking_on: u64,
    pub fits_where_do_shrinking_was_called: u64,
    pub fits_where_shrinking_changed_alpha: u64,
    pub fits_reaching_max_iterations: u64,
    pub kkt_samples_judged: u64,
    pub kkt_samples_indeterminate: u64,
    pub coef_zero: u64,
    pub coef_free: u64,
    pub coef_at_bound: u64,
    pub labels_judged: u64,
    pub labels_indeterminate: u64,
    pub weighted_sums_compared: u64,
    pub nu_svc_r_cross_checked: u64,
    pub nu_svc_zero_margin: u64,
    pub models_judged: u64,
    pub layout_fits: u64,
    pub layout_observations: u64,
    pub builder_sequences: u64,
    pub stale_buffer_calls: u64,
    pub form_fits: u64,
    pub form_predicts: u64,
    pub last_iters: (u64, u64),
    pub last_nsupport: u64,
}

impl Counters {
    pub fn add(&mut self, o: &Counters) {
        self.fits += o.fits;
        self.nontrivial += o.nontrivial;
        self.out_of_domain += o.out_of_domain;
        self.indeterminate_cases += o.indeterminate_cases;
        self.platt_errors += o.platt_errors;
        self.platt_degenerate += o.platt_degenerate;
        self.calibrated_models += o.calibrated_models;
        self.fits_shrinking_on += o.fits_shrinking_on;
        self.fits_where_do_shrinking_was_called += o.fits_where_do_shrinking_was_called;
        self.fits_where_shrinking_changed_alpha += o.fits_where_shrinking_changed_alpha;
        self.fits_reaching_max_iterations += o.fits_reaching_max_iterations;
        self.kkt_samples_judged += o.kkt_samples_judged;
        self.kkt_samples_indeterminate += o.kkt_samples_indeterminate;
        self.coef_zero += o.coef_zero;
        self.coef_free += o.coef_free;
        self.coef_at_bound += o.coef_at_bound;
        self.labels_judged += o.labels_judged;
        self.labels_indeterminate += o.labels_indeterminate;
        self.weighted_sums_compared += o.weighted_sums_compared;
        self.nu_svc_r_cross_checked += o.nu_svc_r_cross_checked;
        self.nu_svc_zero_margin += o.nu_svc_zero_margin;
        self.models_judged += o.models_judged;
        self.layout_fits += o.layout_fits;
        self.layout_observations += o.layout_observations;
        self.builder_sequences += o.builder_sequences;
        self.stale_buffer_calls += o.stale_buffer_calls;
        self.form_fits += o.form_fits;
        self.form_predicts += o.form_predicts;
    }
    pub fn as_pairs(&self) -> Vec<(&'static str, u64)> {
        vec![
            ("fits", self.fits),
            ("models_judged", self.models_judged),
            ("layout_family_fits", self.layout_fits),
            ("layout_family_predict_observations_compared", self.layout_observations),
            ("builder_family_sequences_compared_with_canonical", self.builder_sequences),
            ("predict_inplace_stale_buffer_and_single_sample_calls", self.stale_buffer_calls),
            ("calling_form_family_fits", self.form_fits),
            ("calling_form_family_predict_forms_compared", self.form_predicts),
            ("platt_calibration_errors", self.platt_errors),
            ("platt_calibration_errors_on_degenerate_decision_values_not_judged", self.platt_degenerate),
            ("calibrated_models_judged", self.calibrated_models),
            ("fits_shrinking_on", self.fits_shrinking_on),
            ("fits_where_do_shrinking_was_called", self.fits_where_do_shrinking_was_called),
            ("fits_where_shrinking_changed_alpha", self.fits_where_shrinking_changed_alpha),
            ("fits_reaching_max_iterations", self.fits_reaching_max_iterations),
            ("kkt_samples_judged", self.kkt_samples_judged),
            ("kkt_samples_indeterminate_tau_too_large", self.kkt_samples_indeterminate),
            ("coefficients_zero", self.coef_zero),
            ("coefficients_free", self.coef_free),
            ("coefficients_at_bound", self.coef_at_bound),
            ("labels_judged", self.labels_judged),
            ("labels_indeterminate", self.labels_indeterminate),
            ("weighted_sums_compared", self.weighted_sums_compared),
            ("nu_svc_r_cross_checked_against_debug_output", self.nu_svc_r_cross_checked),
            ("nu_svc_zero_margin_degenerate_not_judged", self.nu_svc_zero_margin),
        ]
    }
}

fn dot(a: &[f64], b: &[f64]) -> f64 {
    a.iter().zip(b).map(|(x, y)| x * y).sum()
}
fn dot_abs(a: &[f64], b: &[f64]) -> f64 {
    a.iter().zip(b).map(|(x, y)| (x * y).abs()).sum()
}

/// the harness' own kernel function (same definitions as the rustdoc of `KernelMethod`)
pub fn kern(k: &Kern, a: &[f64], b: &[f64]) -> f64 {
    match k {
        Kern::Linear => dot(a, b),
        Kern::Gaussian(e) | Kern::SparseGaussian(e, _) => {
            let d: f64 = a.iter().zip(b).map(|(x, y)| (x - y) * (x - y)).sum();
            (-d / e).exp()
        }
        Kern::Poly(c, d) => (dot(a, b) + c).powf(*d),
    }
}
/// magnitude of the terms entering K (for rounding bounds)
fn kern_abs(k: &Kern, a: &[f64], b: &[f64]) -> f64 {
    match k {
        Kern::Linear => dot_abs(a, b),
        Kern::Gaussian(_) | Kern::SparseGaussian(..) => kern(k, a, b),
        Kern::Poly(c, d) => (dot_abs(a, b) + c.abs()).powf(*d),
    }
}

pub struct Env<'a> {
    pub case: &'a Case,
    pub n: usize,
    pub ts: Vec<f64>,
    pub eps_mach: f64,
    pub rel: f64,
    /// absolute floor below which the subject's float type underflows / is subnormal
    pub tiny: f64,
    /// K[i][j] over the training samples (dense kernel function, what weighted_sum evaluates)
    pub k: Vec<Vec<f64>>,
    /// the kernel matrix the solver works on: = k for dense kernels; for a sparse kernel, K_ij is kept only
    /// where i = j or one of the two points is among the k nearest neighbours of the other
    pub kfit: Vec<Vec<f64>>,
    /// sparse kernel only: the k-th and (k+1)-th neighbour of some point are equidistant (neighbour set ambiguous)
    pub sparse_tie: bool,
    pub kabs: Vec<Vec<f64>>,
    /// probe x train
    pub kp: Vec<Vec<f64>>,
    pub kpabs: Vec<Vec<f64>>,
}

impl<'a> Env<'a> {
    pub fn new(case: &'a Case, xs: Vec<Vec<f64>>, ps: Vec<Vec<f64>>, ts: Vec<f64>, eps_mach: f64) -> Env<'a> {
        let n = xs.len();
        let k: Vec<Vec<f64>> = xs.iter().map(|a| xs.iter().map(|b| kern(&case.kernel, b, a)).collect()).collect();
        let mut kfit = k.clone();
        let mut sparse_tie = false;
        if let Kern::SparseGaussian(_, nn) = case.kernel {
            let sq = |a: &[f64], b: &[f64]| -> f64 { a.iter().zip(b).map(|(x, y)| (x - y) * (x - y)).sum() };
            let mut adj = vec![vec![false; n]; n];
            for i in 0..n {
                let mut order: Vec<usize> = (0..n).filter(|&j| j != i).collect();
                order.sort_by(|&a, &b| sq(&xs[i], &xs[a]).partial_cmp(&sq(&xs[i], &xs[b])).unwrap());
                adj[i][i] = true;
                if nn < order.len() && (sq(&xs[i], &xs[order[nn - 1]]) - sq(&xs[i], &xs[order[nn]])).abs() <= 1e-9 {
                    sparse_tie = true;
                }
                for &j in order.iter().take(nn) {
                    adj[i][j] = true;
                    adj[j][i] = true;
                }
            }
            for i in 0..n {
                for j in 0..n {
                    if !adj[i][j] {
                        kfit[i][j] = 0.0;
                    }
                }
            }
        }
        let kabs = xs.iter().map(|a| xs.iter().map(|b| kern_abs(&case.kernel, b, a)).collect()).collect();
        let kp = ps.iter().map(|a| xs.iter().map(|b| kern(&case.kernel, b, a)).collect()).collect();
        let kpabs = ps.iter().map(|a| xs.iter().map(|b| kern_abs(&case.kernel, b, a)).collect()).collect();
        let rel = if eps_mach > 1e-10 { 1e-4 } else { 1e-9 };
        let tiny = if eps_mach > 1e-10 { 1e-30 } else { 1e-290 };
        Env { case, n, ts, eps_mach, rel, tiny, k, kfit, sparse_tie, kabs, kp, kpabs }
    }

    /// domain predicate: nu-SVC needs nu*n/2 <= min(n+, n-), otherwise the dual has no feasible point
    pub fn in_domain(&self) -> bool {
        if let Problem::NuSvc { nu } = self.case.problem {
            let np = self.case.labels.iter().filter(|&&l| l).count() as f64;
            let nn = self.n as f64 - np;
            return nu * self.n as f64 / 2.0 <= np.min(nn) + 1e-9;
        }
        true
    }
}

pub fn parse_debug_r(s: &str) -> Option<f64> {
    let key = ", r: Some(";
    let i = s.find(key)? + key.len();
    let rest = &s[i..];
    let j = rest.find(')')?;
    rest[..j].trim().parse::<f64>().ok()
}

pub struct Shown {
    pub reached_max: bool,
    pub iters: u64,
    #[allow(dead_code)]
    pub obj: f64,
    pub nsv: usize,
}

pub fn parse_display(s: &str) -> Option<Shown> {
    let (reached_max, rest) = if let Some(r) = s.strip_prefix("Exited after ") {
        (false, r)
    } else if let Some(r) = s.strip_prefix("Reached maximal iterations ") {
        (true, r)
    } else {
        return None;
    };
    let (it, rest) = if reached_max {
        let p = rest.find(" with obj = ")?;
        (&rest[..p], &rest[p + " with obj = ".len()..])
    } else {
        let p = rest.find(" iterations with obj = ")?;
        (&rest[..p], &rest[p + " iterations with obj = ".len()..])
    };
    let p = rest.find(" and ")?;
    let obj = &rest[..p];
    let rest = &rest[p + " and ".len()..];
    let q = rest.find(" support vectors")?;
    Some(Shown { reached_max, iters: it.trim().parse().ok()?, obj: obj.trim().parse().ok()?, nsv: rest[..q].trim().parse().ok()? })
}

fn worst(xs: &[(usize, f64)]) -> (usize, f64) {
    let mut w = xs[0];
    for &x in xs {
        if x.1 > w.1 {
            w = x;
        }
    }
    w
}

/// Judges one uncalibrated model. `off` = the shrinking-off model of the same case (for the
/// differential closed forms), present when `shrink` is true.
pub fn check_model(env: &Env, pre: &str, shrink: bool, o: &Obs, off: Option<&Obs>, v: &mut Vec<Violation>, cnt: &mut Counters, cj: &Value) {
    let before = v.len();
    let case = env.case;
    let n = env.n;
    let em = env.eps_mach;
    let mut push = |sig: &str, what: String| v.push(Violation::new(format!("{}.{}", pre, sig), what, cj.clone()));

    // ---- Display ----
    let Some(sh) = parse_display(&o.display) else {
        push("display.unparsable", format!("Display output {:?} has neither documented form", o.display));
        return;
    };
    if shrink {
        cnt.last_iters.1 = sh.iters;
        cnt.fits_shrinking_on += 1;
    } else {
        cnt.last_iters.0 = sh.iters;
    }
    cnt.last_nsupport = o.nsupport as u64;
    let nv = match case.problem {
        Problem::EpsSvr { .. } | Problem::NuSvr { .. } => 2 * n,
        _ => n,
    } as u64;
    if shrink && sh.iters >= nv {
        cnt.fits_where_do_shrinking_was_called += 1;
    }
    if sh.reached_max {
        cnt.fits_reaching_max_iterations += 1;
    }
    if o.nsupport > 0 && sh.iters > 0 {
        cnt.nontrivial += 1;
    }
    if !env.in_domain() {
        // empty feasible set: nothing but termination can be demanded
        return;
    }
    if env.sparse_tie {
        cnt.indeterminate_cases += 1;
        return;
    }
    cnt.models_judged += 1;
    if sh.reached_max != (sh.iters >= MAX_ITER) {
        push("display.exit_reason_inconsistent_with_iterations", format!("Display says {:?} (iteration cap is {})", o.display, MAX_ITER));
    }
    if o.alpha.len() != n {
        push("alpha.wrong_length", format!("{} samples but {} published coefficients", n, o.alpha.len()));
        return;
    }
    // ---- nsupport ----
    let thr = 100.0 * em;
    let want_nsv = o.alpha.iter().filter(|a| a.abs() > thr).count();
    if o.nsupport != want_nsv || sh.nsv != o.nsupport {
        push(
            "nsupport.mismatch",
            format!("#{{|alpha_i| > 100 eps_machine}} = {}, nsupport() = {}, Display prints {}", want_nsv, o.nsupport, sh.nsv),
        );
    }
    // ---- nu-SVC: zero-margin degenerate problems are not judged ----
    if let (Problem::NuSvc { .. }, Some(r)) = (&case.problem, o.debug_r) {
        let ksum = (0..n).map(|i| env.kabs[i].iter().sum::<f64>()).fold(0.0, f64::max);
        let thr_r = 2.0 * case.eps + (4 * nv + 4 * sh.iters) as f64 * em * (ksum + 1.0);
        if r.is_finite() && r.abs() <= thr_r {
            // r (the margin of the nu-SVC solution) is zero at solver precision: the nu-reduced convex hulls of
            // the two classes intersect, w = 0, and the published 1/r scaling is undefined
            cnt.nu_svc_zero_margin += 1;
            cnt.indeterminate_cases += 1;
            cnt.models_judged -= 1;
            return;
        }
    }
    // ---- finiteness ----
    if !o.rho.is_finite() || o.alpha.iter().any(|a| !a.is_finite()) {
        let nbad = o.alpha.iter().filter(|a| !a.is_finite()).count();
        let mut sig = "nonfinite_model".to_string();
        if let Problem::NuSvc { nu } = case.problem {
            let np = case.labels.iter().filter(|&&l| l).count() as f64;
            let nn = n as f64 - np;
            let half = nu * n as f64 / 2.0;
            sig = if (half - np).abs() < 1e-9 || (half - nn).abs() < 1e-9 {
                "nonfinite_model.a_class_is_entirely_at_its_upper_bound".into()
            } else {
                "nonfinite_model.rho_from_class_without_free_sv".into()
            };
        }
        if nbad == 0 {
            // closed form: no free coefficient, and all bounded coefficients constrain rho from one side only, so
            // the interval of admissible thresholds is half-unbounded and its "midpoint" is infinite
            let yu: Option<(Vec<f64>, Vec<f64>)> = match case.problem {
                Problem::CSvc { c_pos, c_neg } => Some((
                    case.labels.iter().map(|&l| if l { 1.0 } else { -1.0 }).collect(),
                    case.labels.iter().map(|&l| if l { c_pos } else { c_neg }).collect(),
                )),
                Problem::OneClass { .. } => Some((vec![1.0; n], vec![1.0; n])),
                _ => None,
            };
            if let Some((y, u)) = yu {
                let at_up = |i: usize| y[i] * o.alpha[i] >= u[i];
                let at_lo = |i: usize| o.alpha[i] == 0.0;
                let nfree = (0..n).filter(|&i| !at_up(i) && !at_lo(i)).count();
                let has_ub = (0..n).any(|i| (at_up(i) && y[i] < 0.0) || (at_lo(i) && y[i] > 0.0));
                let has_lb = (0..n).any(|i| (at_up(i) && y[i] > 0.0) || (at_lo(i) && y[i] < 0.0));
                if nfree == 0 && (!has_ub || !has_lb) {
                    sig = "nonfinite_model.rho_is_midpoint_of_half_unbounded_interval".into();
                }
            }
        }
        push(&sig, format!("rho = {}, {} of {} coefficients not finite, r (Debug) = {:?}; {}", o.rho, nbad, n, o.debug_r, o.display));
        return;
    }

    // ---- reference decision values ----
    let s_train: Vec<f64> = (0..n).map(|i| (0..n).map(|j| o.alpha[j] * env.k[i][j]).sum()).collect();
    let sabs_train: Vec<f64> = (0..n).map(|i| (0..n).map(|j| o.alpha[j].abs() * env.kabs[i][j]).sum()).collect();
    let s_kkt: Vec<f64> = (0..n).map(|i| (0..n).map(|j| o.alpha[j] * env.kfit[i][j]).sum()).collect();
    let s_probe: Vec<f64> = env.kp.iter().map(|row| (0..n).map(|j| o.alpha[j] * row[j]).sum()).collect();
    let sabs_probe: Vec<f64> = env.kpabs.iter().map(|row| (0..n).map(|j| o.alpha[j].abs() * row[j]).sum()).collect();

    // ---- nu-SVC: recover the published scaling 1/r from the coefficients ----
    let mut scale = 1.0; // S = 1/r
    if let Problem::NuSvc { nu } = case.problem {
        let tot: f64 = o.alpha.iter().map(|a| a.abs()).sum();
        scale = tot / (nu * n as f64);
        if !(scale > 0.0) || !scale.is_finite() {
            push("equality.all_coefficients_zero", format!("sum |alpha_i| = {} but e^T a = nu*n = {} > 0 is a constraint of the nu-SVC dual; {}", tot, nu * n as f64, o.display));
            return;
        }
        if let Some(r) = o.debug_r {
            cnt.nu_svc_r_cross_checked += 1;
            let tol = 4.0 * (nv + sh.iters) as f64 * em + 1e-9;
            if !(r > 0.0) || (scale * r - 1.0).abs() > tol.max(env.rel) {
                push(
                    "equality.sum_abs_alpha_times_r_not_nu_n",
                    format!("sum|alpha_i| * r = {} but nu*n = {} (r = {} from Debug)", tot * r, nu * n as f64, r),
                );
            }
        }
    }

    // ---- weighted_sum == sum_j alpha_j K(x_j, x) ----
    let mut ws_bad: Vec<(usize, f64)> = Vec::new();
    let mut ws_detail = String::new();
    let mut ratio_is_r = true;
    let all_ws = o.ws_train.iter().zip(&s_train).zip(&sabs_train).chain(o.ws_probe.iter().zip(&s_probe).zip(&sabs_probe));
    for (idx, ((&got, &want), &mag)) in all_ws.enumerate() {
        cnt.weighted_sums_compared += 1;
        let tol = env.rel * mag + env.tiny;
        if !((got - want).abs() <= tol) {
            if ws_bad.is_empty() {
                ws_detail = format!("sample {} ({}): weighted_sum = {}, sum_j alpha_j K(x_j,x) = {} (tolerance {:.3e})", idx, if idx < n { "training" } else { "new" }, got, want, tol);
            }
            ws_bad.push((idx, (got - want).abs() / tol.max(1e-300)));
            // closed form: observed == expected * r  (hyperplane built from the unscaled coefficients)
            if !((got * scale - want).abs() <= 4.0 * tol * scale.max(1.0)) {
                ratio_is_r = false;
            }
        }
    }
    if !ws_bad.is_empty() {
        let sig = if matches!(case.problem, Problem::NuSvc { .. }) && case.kernel == Kern::Linear && ratio_is_r && (scale - 1.0).abs() > 1e-6 {
            "weighted_sum.linear_hyperplane_not_scaled_by_r"
        } else {
            "weighted_sum.differs_from_coefficient_sum"
        };
        push(sig, format!("{} of {} points: {}; published scaling 1/r = {}", ws_bad.len(), n + env.kp.len(), ws_detail, scale));
    }

    // ---- labels / predictions ----
    let classification_like = matches!(case.problem, Problem::CSvc { .. } | Problem::NuSvc { .. } | Problem::OneClass { .. });
    if classification_like {
        let labs = o.lab_train.iter().chain(o.lab_probe.iter());
        let signs = o.sign_train.iter().chain(o.sign_probe.iter());
        let refs = s_train.iter().zip(&sabs_train).chain(s_probe.iter().zip(&sabs_probe));
        let mut bad_exact = 0;
        let mut bad_ref = 0;
        let mut detail = String::new();
        let decs: Vec<f64> = o.dec_train.iter().chain(o.dec_probe.iter()).cloned().collect();
        for (idx, ((&lab, &sg), (&s, &mag))) in labs.zip(signs).zip(refs).enumerate() {
            // a decision value of exactly zero has no sign: either label is accepted
            if lab != sg && decs[idx] != 0.0 {
                bad_exact += 1;
                if detail.is_empty() {
                    detail = format!("point {}: predict = {} but weighted_sum - rho >= 0 is {}", idx, lab, sg);
                }
            }
            let f = s - o.rho;
            let tol = env.rel * (mag + o.rho.abs()) + env.tiny;
            if f.abs() <= tol {
                cnt.labels_indeterminate += 1;
                continue;
            }
            cnt.labels_judged += 1;
            if lab != (f >= 0.0) {
                bad_ref += 1;
                if detail.is_empty() {
                    detail = format!("point {}: predict = {} but sum_j alpha_j K - rho = {}", idx, lab, f);
                }
            }
        }
        if bad_exact > 0 {
            push("predict.label_differs_from_sign_of_own_decision_value", format!("{} points; {}", bad_exact, detail));
        } else if bad_ref > 0 && ws_bad.is_empty() {
            push("predict.label_not_sign_of_decision_function", format!("{} points; {}", bad_ref, detail));
        }
    } else {
        let vals = o.val_train.iter().chain(o.val_probe.iter());
        let decs = o.dec_train.iter().chain(o.dec_probe.iter());
        let mut bad = 0;
        let mut detail = String::new();
        for (idx, (&val, &dec)) in vals.zip(decs).enumerate() {
            if val != dec {
                bad += 1;
                if detail.is_empty() {
                    detail = format!("point {}: predict = {} but weighted_sum - rho = {}", idx, val, dec);
                }
            }
        }
        if bad > 0 {
            push("predict.value_differs_from_weighted_sum_minus_rho", format!("{} points; {}", bad, detail));
        }
    }

    // ---- dual feasibility and KKT ----
    let rounding = |i: usize, u: &dyn Fn(usize) -> f64, p_i: f64| -> f64 {
        let sc: f64 = (0..n).map(|j| u(j) * env.kabs[i][j]).sum::<f64>() + p_i + (o.rho / scale).abs() + 1.0;
        (4 * nv + 4 * sh.iters) as f64 * em * sc
    };
    let eq_tol = |umax: f64| 4.0 * (nv + sh.iters) as f64 * em * umax + 1e-300;
    let near = if em > 1e-10 { 1e-4 } else { 1e-9 };
    let mut kkt: Vec<(&'static str, String)> = Vec::new();
    let mut any_indet = false;
    match case.problem {
        Problem::CSvc { .. } | Problem::NuSvc { .. } | Problem::OneClass { .. } => {
            let (y, uraw, margin): (Vec<f64>, Vec<f64>, f64) = match case.problem {
                Problem::CSvc { c_pos, c_neg } => (
                    case.labels.iter().map(|&l| if l { 1.0 } else { -1.0 }).collect(),
                    case.labels.iter().map(|&l| if l { c_pos } else { c_neg }).collect(),
                    1.0,
                ),
                Problem::NuSvc { .. } => (case.labels.iter().map(|&l| if l { 1.0 } else { -1.0 }).collect(), vec![1.0; n], 1.0),
                _ => (vec![1.0; n], vec![1.0; n], 0.0),
            };
            let p_raw = match case.problem {
                Problem::CSvc { .. } => 1.0,
                _ => 0.0,
            };
            // box
            let mut neg: Vec<(usize, f64)> = Vec::new();
            let mut above: Vec<(usize, f64)> = Vec::new();
            let mut above_within_other = true;
            for i in 0..n {
                let a = y[i] * o.alpha[i];
                let u = uraw[i] * scale;
                let btol = 16.0 * em * u + if matches!(case.problem, Problem::NuSvc { .. }) { env.rel.max(4.0 * (nv + sh.iters) as f64 * em) * u } else { 0.0 };
                if a < -btol {
                    neg.push((i, -a));
                }
                if a > u + btol {
                    above.push((i, a - u));
                    let other = uraw.iter().cloned().fold(0.0, f64::max) * scale;
                    if !(other > u && a <= other + 16.0 * em * other) {
                        above_within_other = false;
                    }
                }
            }
            if !neg.is_empty() {
                let (i, d) = worst(&neg);
                push("box.coefficient_has_wrong_sign", format!("{} samples, worst i={}: y_i*alpha_i = {} < 0", neg.len(), i, -d));
            }
            if !above.is_empty() {
                let (i, d) = worst(&above);
                let sig = if matches!(case.problem, Problem::CSvc { .. }) && above_within_other {
                    "box.above_own_class_bound_within_other_class_bound"
                } else {
                    "box.above_class_bound"
                };
                push(sig, format!("{} samples, worst i={} (label {}): |alpha_i| = {} > bound {} by {}", above.len(), i, y[i], o.alpha[i].abs(), uraw[i] * scale, d));
            }
            // equality
            let umax = uraw.iter().cloned().fold(0.0, f64::max) * scale;
            match case.problem {
                Problem::OneClass { nu } => {
                    let s: f64 = o.alpha.iter().sum();
                    if (s - nu * n as f64).abs() > eq_tol(1.0) + 4.0 * em * n as f64 {
                        push("equality.sum_alpha_not_nu_n", format!("sum alpha_i = {} but nu*n = {}", s, nu * n as f64));
                    }
                }
                _ => {
                    let s: f64 = o.alpha.iter().sum();
                    let extra = if matches!(case.problem, Problem::NuSvc { .. }) { env.rel * umax } else { 0.0 };
                    if s.abs() > eq_tol(umax) + extra {
                        push("equality.sum_y_alpha_nonzero", format!("sum_i alpha_i (= y^T a) = {} (tolerance {:.3e})", s, eq_tol(umax) + extra));
                    }
                }
            }
            // KKT sign conditions
            let ufn = |j: usize| uraw[j];
            for i in 0..n {
                let a = y[i] * o.alpha[i];
                let u = uraw[i] * scale;
                let f = s_kkt[i] - o.rho;
                let g = y[i] * f - margin;
                let tau = scale * (2.0 * case.eps + rounding(i, &ufn, p_raw));
                if tau > 0.25 {
                    cnt.kkt_samples_indeterminate += 1;
                    any_indet = true;
                    continue;
                }
                cnt.kkt_samples_judged += 1;
                if o.alpha[i] == 0.0 {
                    cnt.coef_zero += 1;
                    if g < -tau {
                        kkt.push(("kkt.zero_coefficient_inside_margin", format!("i={} label {}: alpha_i = 0 but y_i f_i - {} = {} < -tau = -{:.3e}", i, y[i], margin, g, tau)));
                    }
                } else if a >= u * (1.0 - near) {
                    cnt.coef_at_bound += 1;
                    if g > tau {
                        kkt.push(("kkt.bounded_sv_outside_margin", format!("i={} label {}: |alpha_i| = {} at its bound {} but y_i f_i - {} = {} > tau = {:.3e}", i, y[i], a, u, margin, g, tau)));
                    }
                } else {
                    cnt.coef_free += 1;
                    if g.abs() > tau {
                        kkt.push(("kkt.free_sv_off_margin", format!("i={} label {}: 0 < |alpha_i| = {} < bound {} but y_i f_i - {} = {} (tau = {:.3e})", i, y[i], a, u, margin, g, tau)));
                    }
                }
            }
        }
        Problem::EpsSvr { c, .. } | Problem::NuSvr { c, .. } => {
            let btol = 16.0 * em * c;
            let above: Vec<(usize, f64)> = (0..n).filter(|&i| o.alpha[i].abs() > c + btol).map(|i| (i, o.alpha[i].abs() - c)).collect();
            if !above.is_empty() {
                let (i, d) = worst(&above);
                push("box.coefficient_exceeds_c", format!("{} samples, worst i={}: |alpha_i| = {} > C = {} by {}", above.len(), i, o.alpha[i].abs(), c, d));
            }
            let s: f64 = o.alpha.iter().sum();
            if s.abs() > eq_tol(c) {
                push("equality.sum_alpha_nonzero", format!("sum_i alpha_i = {} (tolerance {:.3e})", s, eq_tol(c)));
            }
            let ufn = |_j: usize| c;
            let resid: Vec<f64> = (0..n).map(|i| env.ts[i] - (s_kkt[i] - o.rho)).collect();
            match case.problem {
                Problem::EpsSvr { eps_loss, .. } => {
                    for i in 0..n {
                        let tau = 2.0 * case.eps + rounding(i, &ufn, eps_loss + env.ts[i].abs());
                        if tau > 0.25 * eps_loss {
                            cnt.kkt_samples_indeterminate += 1;
                            any_indet = true;
                            continue;
                        }
                        cnt.kkt_samples_judged += 1;
                        let a = o.alpha[i];
                        let r = resid[i];
                        let sg = if a > 0.0 { 1.0 } else { -1.0 };
                        if a == 0.0 {
                            cnt.coef_zero += 1;
                            if r.abs() > eps_loss + tau {
                                kkt.push(("kkt.zero_coefficient_residual_exceeds_eps", format!("i={}: alpha_i = 0 but |y_i - f_i| = {} > eps_loss + tau = {} + {:.3e}", i, r.abs(), eps_loss, tau)));
                            }
                        } else if a.abs() >= c * (1.0 - near) {
                            cnt.coef_at_bound += 1;
                            if sg * r < eps_loss - tau {
                                kkt.push(("kkt.bounded_sv_residual_below_eps", format!("i={}: alpha_i = {} at bound C = {} but sign(alpha_i)(y_i - f_i) = {} < eps_loss - tau = {} - {:.3e}", i, a, c, sg * r, eps_loss, tau)));
                            }
                        } else {
                            cnt.coef_free += 1;
                            if (sg * r - eps_loss).abs() > tau {
                                kkt.push(("kkt.free_sv_residual_not_eps", format!("i={}: 0 < |alpha_i| = {} < C = {} but sign(alpha_i)(y_i - f_i) = {} != eps_loss = {} (tau = {:.3e})", i, a.abs(), c, sg * r, eps_loss, tau)));
                            }
                        }
                    }
                }
                Problem::NuSvr { nu, .. } => {
                    // a common tube half-width e >= 0 must exist: free: s_i r_i = e; bound: s_i r_i >= e; zero: |r_i| <= e
                    let mut lo: f64 = 0.0;
                    let mut hi = f64::INFINITY;
                    let mut taumax: f64 = 0.0;
                    let mut lo_at = String::from("e >= 0");
                    let mut hi_at = String::from("none");
                    for i in 0..n {
                        let tau = 2.0 * case.eps + rounding(i, &ufn, env.ts[i].abs());
                        if tau > 0.025 {
                            cnt.kkt_samples_indeterminate += 1;
                            any_indet = true;
                            continue;
                        }
                        cnt.kkt_samples_judged += 1;
                        taumax = taumax.max(tau);
                        let a = o.alpha[i];
                        let r = resid[i];
                        let sg = if a > 0.0 { 1.0 } else { -1.0 };
                        let mut lower = |x: f64, s: String| {
                            if x > lo {
                                lo = x;
                                lo_at = s;
                            }
                        };
                        let mut upper = |x: f64, s: String| {
                            if x < hi {
                                hi = x;
                                hi_at = s;
                            }
                        };
                        if a == 0.0 {
                            cnt.coef_zero += 1;
                            lower(r.abs(), format!("zero coefficient i={} has |y_i - f_i| = {}", i, r.abs()));
                        } else if a.abs() >= c * (1.0 - near) {
                            cnt.coef_at_bound += 1;
                            upper(sg * r, format!("bounded i={} (alpha_i = {}) has sign(alpha_i)(y_i - f_i) = {}", i, a, sg * r));
                        } else {
                            cnt.coef_free += 1;
                            lower(sg * r, format!("free i={} (alpha_i = {}) has sign(alpha_i)(y_i - f_i) = {}", i, a, sg * r));
                            upper(sg * r, format!("free i={} (alpha_i = {}) has sign(alpha_i)(y_i - f_i) = {}", i, a, sg * r));
                        }
                    }
                    if lo > hi + 2.0 * taumax {
                        kkt.push(("kkt.no_common_tube_width", format!("no tube half-width e satisfies all samples: {} but {} (tau = {:.3e})", lo_at, hi_at, taumax)));
                    }
                    // the nu constraint: sum_i (a_i + a*_i) = C nu n, hence sum |alpha_i| <= C nu n
                    let sabs: f64 = o.alpha.iter().map(|a| a.abs()).sum();
                    let budget = c * nu * n as f64;
                    let tol = eq_tol(c) + 1e-9 * budget;
                    if sabs > budget + tol {
                        if lo <= 2.0 * taumax && kkt.is_empty() {
                            push(
                                "nu_constraint_ignored.solution_is_the_zero_width_tube_svr",
                                format!("sum_i |alpha_i| = {} > C*nu*n = {}; the model is a KKT point of eps-SVR with eps = 0 (tube half-width interval starts at {:.3e}); nu has no influence on the solution", sabs, budget, lo),
                            );
                        } else {
                            push("nu_constraint.sum_abs_alpha_exceeds_c_nu_n", format!("sum_i |alpha_i| = {} > C*nu*n = {}", sabs, budget));
                        }
                    } else if lo > 10.0 * taumax + 1e-6 && sabs < budget - tol - 1e-6 * budget && kkt.is_empty() {
                        push(
                            "nu_constraint.positive_tube_but_budget_not_used",
                            format!("tube half-width >= {} > 0 but sum_i |alpha_i| = {} < C*nu*n = {} (complementary slackness of the nu constraint)", lo, sabs, budget),
                        );
                    }
                }
                _ => unreachable!(),
            }
        }
    }
    if any_indet {
        cnt.indeterminate_cases += 1;
    }
    if !kkt.is_empty() {
        if sh.reached_max {
            push("not_converged.max_iterations_reached_and_kkt_violated", format!("{}; {} KKT violations, first: {}", o.display, kkt.len(), kkt[0].1));
        } else {
            // one violation per kind, with the count
            let mut kinds: Vec<&'static str> = kkt.iter().map(|k| k.0).collect();
            kinds.sort();
            kinds.dedup();
            for kd in kinds {
                let of: Vec<&(&'static str, String)> = kkt.iter().filter(|k| k.0 == kd).collect();
                push(kd, format!("{} samples; first: {}; rho = {}; {}", of.len(), of[0].1, o.rho, o.display));
            }
        }
    }

    // ---- differential: shrinking on vs off ----
    if shrink {
        if let Some(off) = off {
            if off.alpha != o.alpha {
                cnt.fits_where_shrinking_changed_alpha += 1;
            }
            if v.len() > before && off.alpha.len() == n && off.alpha != o.alpha && off.alpha.iter().all(|a| a.is_finite()) {
                // closed form: the shrunk solution is the unshrunk one with the coefficients permuted
                let key = |a: &f64| a.abs();
                let mut x: Vec<f64> = o.alpha.iter().map(key).collect();
                let mut y: Vec<f64> = off.alpha.iter().map(key).collect();
                x.sort_by(|a, b| a.partial_cmp(b).unwrap());
                y.sort_by(|a, b| a.partial_cmp(b).unwrap());
                let m = y.last().cloned().unwrap_or(0.0).max(1e-300);
                let tol = (1e3 * case.eps).max(1e-6) * m;
                let same_multiset = x.iter().zip(&y).all(|(a, b)| (a - b).abs() <= tol);
                let moved = (0..n).filter(|&i| (o.alpha[i].abs() - off.alpha[i].abs()).abs() > tol).count();
                if same_multiset && moved > 0 {
                    v.push(Violation::new(
                        format!("{}.alpha_is_a_permutation_of_the_noshrink_solution", pre),
                        format!("the |alpha| of the shrinking(true) model are those of the shrinking(false) model attached to other samples ({} positions differ)", moved),
                        cj.clone(),
                    ));
                }
            }
        }
    }
}

/// Judges a Platt-calibrated model: same solution as the uncalibrated one, Pr in [0,1] and a
/// monotone function of the decision value.
pub fn check_calibrated(env: &Env, pre: &str, o: &Obs, plain: Option<&Obs>, v: &mut Vec<Violation>, cnt: &mut Counters, cj: &Value) {
    if !env.in_domain() {
        return;
    }
    cnt.calibrated_models += 1;
    let mut push = |sig: &str, what: String| v.push(Violation::new(format!("{}.pr.{}", pre, sig), what, cj.clone()));
    if let Some(p) = plain {
        let same = p.alpha.len() == o.alpha.len()
            && p.alpha.iter().zip(&o.alpha).all(|(a, b)| a.to_bits() == b.to_bits())
            && p.rho.to_bits() == o.rho.to_bits()
            && p.ws_train.iter().zip(&o.ws_train).all(|(a, b)| a.to_bits() == b.to_bits());
        if !same {
            push("solution_differs_from_uncalibrated_model", format!("alpha / rho / weighted_sum of Svm<_,Pr> differ from Svm<_,bool> fitted with the same parameters (rho {} vs {})", o.rho, p.rho));
        }
    }
    let mut pts: Vec<(f64, f64)> = o.dec_train.iter().cloned().zip(o.pr_train.iter().cloned()).chain(o.dec_probe.iter().cloned().zip(o.pr_probe.iter().cloned())).collect();
    if pts.iter().any(|(d, _)| d.is_nan()) {
        return; // judged (and reported) on the uncalibrated model
    }
    if let Some((d, p)) = pts.iter().find(|(_, p)| !(*p >= 0.0 && *p <= 1.0)) {
        push("not_a_probability", format!("decision value {} -> Pr {}", d, p));
        return;
    }
    pts.sort_by(|a, b| a.0.partial_cmp(&b.0).unwrap());
    // Pr is an f32 computed with f32 exp / division: allow 4 ulp of f32 at 1.0
    let slack = 4.0 * f32::EPSILON as f64;
    let inc = pts.windows(2).all(|w| if w[0].0 == w[1].0 { w[0].1 == w[1].1 } else { w[0].1 <= w[1].1 + slack });
    let dec = pts.windows(2).all(|w| if w[0].0 == w[1].0 { w[0].1 == w[1].1 } else { w[0].1 + slack >= w[1].1 });
    if !inc && !dec {
        let w = pts.windows(2).find(|w| w[0].1 > w[1].1 + slack).map(|w| (w[0], w[1]));
        let w2 = pts.windows(2).find(|w| w[0].1 + slack < w[1].1).map(|w| (w[0], w[1]));
        push("not_monotone_in_decision_value", format!("(decision, Pr) pairs rise and fall: {:?} and {:?}", w, w2));
    }
}
