//! C13 — SVM solutions satisfy the dual feasibility and KKT conditions they publish.
//!
//! Exhaustive sweep over a finite catalogue (DESIGN.md §4 C13): lattice-based datasets x kernels x
//! {C-SVC, nu-SVC, one-class, eps-SVR, nu-SVR} parameter grids x solver eps x {f32, f64}; every
//! member is fitted with shrinking off AND on (and, for classification, once more as a
//! Platt-calibrated `Svm<_, Pr>`), and every fit is judged only from what the model publishes
//! (`alpha`, `rho`, `nsupport`, `weighted_sum`, `predict`, `Display`, `Debug`) against the dual
//! feasibility / KKT conditions recomputed in f64 with the harness' own kernel function.

mod builder;
mod data;
mod forms;
mod layout;
mod oracle;

use data::{Data, Kind};
use linfa::dataset::{Dataset, DatasetBase, Pr};
use linfa::traits::{Fit, Predict};
use linfa_svm::{Svm, SvmError, SvmParams};
use lvmc_core::{guarded, json, par_sweep, Ctx, Level, Value, Violation};
use ndarray::{Array1, Array2, ArrayBase, ArrayView1, ArrayView2, Data as NdData, Ix2};
use oracle::{Counters, Obs};
use serde::{Deserialize, Serialize};
use std::sync::atomic::{AtomicU64, Ordering};

#[derive(Clone, Debug, Serialize, Deserialize, PartialEq, Default)]
pub enum Kern {
    #[default]
    Linear,
    Gaussian(f64),
    Poly(f64, f64),
    /// Gaussian(eps) restricted to the symmetrised k-nearest-neighbour graph (`KernelType::Sparse(k)`)
    SparseGaussian(f64, usize),
}

#[derive(Clone, Debug, Serialize, Deserialize, PartialEq)]
pub enum Problem {
    CSvc { c_pos: f64, c_neg: f64 },
    NuSvc { nu: f64 },
    OneClass { nu: f64 },
    EpsSvr { c: f64, eps_loss: f64 },
    NuSvr { nu: f64, c: f64 },
}

impl Default for Problem {
    fn default() -> Self {
        Problem::OneClass { nu: 0.5 }
    }
}

impl Problem {
    pub fn tag(&self) -> &'static str {
        match self {
            Problem::CSvc { .. } => "c_svc",
            Problem::NuSvc { .. } => "nu_svc",
            Problem::OneClass { .. } => "one_class",
            Problem::EpsSvr { .. } => "eps_svr",
            Problem::NuSvr { .. } => "nu_svr",
        }
    }
}

#[derive(Clone, Debug, Serialize, Deserialize, Default)]
pub struct Case {
    pub dataset: String,
    pub x: Vec<Vec<f64>>,
    pub labels: Vec<bool>,
    pub targets: Vec<f64>,
    pub probes: Vec<Vec<f64>>,
    pub kernel: Kern,
    pub problem: Problem,
    pub eps: f64,
    pub float: String,
    /// "" = KKT sweep (shrinking off/on through all oracles), "layout" = memory-layout family
    #[serde(default)]
    pub family: String,
    /// builder family only: "bool" | "pr" | "oneclass" | "reg", constructor "params" | "new" | "default", setter sequence
    #[serde(default)]
    pub target_kind: String,
    #[serde(default)]
    pub ctor: String,
    #[serde(default)]
    pub ops: Vec<builder::Op>,
}

/// Float types the subject is instantiated with. Regression `Fit` / `Predict` exist only for the
/// concrete types f32 / f64 in linfa-svm, hence the dispatch trait.
pub trait SvmFloat: linfa::Float {
    const EPS_MACH: f64;
    fn fit_reg(p: SvmParams<Self, Self>, ds: &DatasetBase<Array2<Self>, Array1<Self>>) -> Result<Svm<Self, Self>, SvmError>;
    fn predict_reg(m: &Svm<Self, Self>, x: &Array2<Self>) -> Array1<Self>;
    fn fit_reg_view(p: SvmParams<Self, Self>, ds: &DatasetBase<ArrayView2<Self>, ArrayView1<Self>>) -> Result<Svm<Self, Self>, SvmError>;
    fn predict_reg_any<D: NdData<Elem = Self>>(m: &Svm<Self, Self>, x: &ArrayBase<D, Ix2>) -> Array1<Self>;
    fn predict_inplace_reg(m: &Svm<Self, Self>, x: &Array2<Self>, buf: &mut Array1<Self>);
    fn predict_one(m: &Svm<Self, Self>, x: ArrayView1<Self>) -> Self;
    fn predict_one_owned(m: &Svm<Self, Self>, x: Array1<Self>) -> Self;
}
macro_rules! impl_svm_float {
    ($t:ty) => {
        impl SvmFloat for $t {
            const EPS_MACH: f64 = <$t>::EPSILON as f64;
            fn fit_reg(p: SvmParams<Self, Self>, ds: &DatasetBase<Array2<Self>, Array1<Self>>) -> Result<Svm<Self, Self>, SvmError> {
                p.fit(ds)
            }
            fn predict_reg(m: &Svm<Self, Self>, x: &Array2<Self>) -> Array1<Self> {
                m.predict(x)
            }
            fn fit_reg_view(p: SvmParams<Self, Self>, ds: &DatasetBase<ArrayView2<Self>, ArrayView1<Self>>) -> Result<Svm<Self, Self>, SvmError> {
                p.fit(ds)
            }
            fn predict_reg_any<D: NdData<Elem = Self>>(m: &Svm<Self, Self>, x: &ArrayBase<D, Ix2>) -> Array1<Self> {
                m.predict(x)
            }
            fn predict_inplace_reg(m: &Svm<Self, Self>, x: &Array2<Self>, buf: &mut Array1<Self>) {
                linfa::traits::PredictInplace::predict_inplace(m, x, buf)
            }
            fn predict_one(m: &Svm<Self, Self>, x: ArrayView1<Self>) -> Self {
                m.predict(x)
            }
            fn predict_one_owned(m: &Svm<Self, Self>, x: Array1<Self>) -> Self {
                m.predict(x)
            }
        }
    };
}
impl_svm_float!(f32);
impl_svm_float!(f64);

pub(crate) fn f64of<F: SvmFloat>(x: F) -> f64 {
    x.to_f64().unwrap()
}

pub(crate) fn with_kernel<F: SvmFloat, T>(p: SvmParams<F, T>, k: &Kern) -> SvmParams<F, T> {
    match k {
        Kern::Linear => p.linear_kernel(),
        Kern::Gaussian(e) => p.gaussian_kernel(F::cast(*e)),
        Kern::Poly(c, d) => p.polynomial_kernel(F::cast(*c), F::cast(*d)),
        Kern::SparseGaussian(e, k) => p.with_kernel_params(linfa_kernel::Kernel::params().kind(linfa_kernel::KernelType::Sparse(*k)).method(linfa_kernel::KernelMethod::Gaussian(F::cast(*e)))),
    }
}

pub(crate) fn to_arr<F: SvmFloat>(rows: &[Vec<f64>]) -> Array2<F> {
    let d = rows.first().map_or(0, |r| r.len());
    Array2::from_shape_fn((rows.len(), d), |(i, j)| F::cast(rows[i][j]))
}

/// what every model publishes, independent of its target type
fn observe<F: SvmFloat, T: std::fmt::Debug>(m: &Svm<F, T>, xt: &Array2<F>, xp: &Array2<F>) -> Obs {
    let mut o = Obs::default();
    o.alpha = m.alpha.iter().map(|&a| f64of(a)).collect();
    o.rho = f64of(m.rho);
    o.nsupport = m.nsupport();
    o.display = format!("{}", m);
    o.debug_r = oracle::parse_debug_r(&format!("{:?}", m));
    for (xs, ws, dec, sign) in [(xt, &mut o.ws_train, &mut o.dec_train, &mut o.sign_train), (xp, &mut o.ws_probe, &mut o.dec_probe, &mut o.sign_probe)] {
        for row in xs.outer_iter() {
            let w = m.weighted_sum(&row);
            let val = w - m.rho;
            ws.push(f64of(w));
            dec.push(f64of(val));
            sign.push(val >= F::zero());
        }
    }
    o
}

enum FitOut {
    Model(Obs),
    FitError(String),
    Panic(String),
}

fn flatten(r: Result<Result<Obs, String>, String>) -> FitOut {
    match r {
        Ok(Ok(o)) => FitOut::Model(o),
        Ok(Err(e)) => FitOut::FitError(e),
        Err(p) => FitOut::Panic(p),
    }
}

fn fit_variant<F: SvmFloat>(case: &Case, shrink: bool, pr: bool) -> FitOut {
    let xt: Array2<F> = to_arr(&case.x);
    let xp: Array2<F> = to_arr(&case.probes);
    let eps = F::cast(case.eps);
    match &case.problem {
        Problem::CSvc { .. } | Problem::NuSvc { .. } => {
            let y = Array1::from(case.labels.clone());
            let ds = Dataset::new(xt.clone(), y);
            if !pr {
                flatten(guarded(|| {
                    let mut p = with_kernel(Svm::<F, bool>::params(), &case.kernel).eps(eps).shrinking(shrink);
                    p = match case.problem {
                        Problem::CSvc { c_pos, c_neg } => p.pos_neg_weights(F::cast(c_pos), F::cast(c_neg)),
                        Problem::NuSvc { nu } => p.nu_weight(F::cast(nu)),
                        _ => unreachable!(),
                    };
                    let m = p.fit(&ds).map_err(|e| e.to_string())?;
                    let mut o = observe(&m, &xt, &xp);
                    let lt: Array1<bool> = m.predict(&xt);
                    let lp: Array1<bool> = m.predict(&xp);
                    o.lab_train = lt.to_vec();
                    o.lab_probe = lp.to_vec();
                    Ok(o)
                }))
            } else {
                flatten(guarded(|| {
                    let mut p = with_kernel(Svm::<F, Pr>::params(), &case.kernel).eps(eps).shrinking(shrink);
                    p = match case.problem {
                        Problem::CSvc { c_pos, c_neg } => p.pos_neg_weights(F::cast(c_pos), F::cast(c_neg)),
                        Problem::NuSvc { nu } => p.nu_weight(F::cast(nu)),
                        _ => unreachable!(),
                    };
                    let m = p.fit(&ds).map_err(|e| format!("{} [{:?}]", e, e))?;
                    let mut o = observe(&m, &xt, &xp);
                    let lt: Array1<Pr> = m.predict(&xt);
                    let lp: Array1<Pr> = m.predict(&xp);
                    o.pr_train = lt.iter().map(|p| **p as f64).collect();
                    o.pr_probe = lp.iter().map(|p| **p as f64).collect();
                    Ok(o)
                }))
            }
        }
        Problem::OneClass { nu } => {
            let ds = Dataset::from(xt.clone());
            flatten(guarded(|| {
                let p = with_kernel(Svm::<F, Pr>::params(), &case.kernel).eps(eps).shrinking(shrink).nu_weight(F::cast(*nu));
                let m = p.fit(&ds).map_err(|e| e.to_string())?;
                let mut o = observe(&m, &xt, &xp);
                let lt: Array1<bool> = m.predict(&xt);
                let lp: Array1<bool> = m.predict(&xp);
                o.lab_train = lt.to_vec();
                o.lab_probe = lp.to_vec();
                Ok(o)
            }))
        }
        Problem::EpsSvr { .. } | Problem::NuSvr { .. } => {
            let y: Array1<F> = case.targets.iter().map(|&t| F::cast(t)).collect();
            let ds = Dataset::new(xt.clone(), y);
            flatten(guarded(|| {
                let mut p = with_kernel(Svm::<F, F>::params(), &case.kernel).eps(eps).shrinking(shrink);
                p = match case.problem {
                    Problem::EpsSvr { c, eps_loss } => p.c_svr(F::cast(c), Some(F::cast(eps_loss))),
                    Problem::NuSvr { nu, c } => p.nu_svr(F::cast(nu), Some(F::cast(c))),
                    _ => unreachable!(),
                };
                let m = F::fit_reg(p, &ds).map_err(|e| e.to_string())?;
                let mut o = observe(&m, &xt, &xp);
                o.val_train = F::predict_reg(&m, &xt).iter().map(|&v| f64of(v)).collect();
                o.val_probe = F::predict_reg(&m, &xp).iter().map(|&v| f64of(v)).collect();
                Ok(o)
            }))
        }
    }
}

fn run_typed<F: SvmFloat>(case: &Case, v: &mut Vec<Violation>) -> Counters {
    let mut cnt = Counters::default();
    // coordinates / targets as the subject sees them (rounded to F)
    let xs: Vec<Vec<f64>> = case.x.iter().map(|r| r.iter().map(|&c| f64of(F::cast(c))).collect()).collect();
    let ps: Vec<Vec<f64>> = case.probes.iter().map(|r| r.iter().map(|&c| f64of(F::cast(c))).collect()).collect();
    let ts: Vec<f64> = case.targets.iter().map(|&c| f64of(F::cast(c))).collect();
    let env = oracle::Env::new(case, xs, ps, ts, F::EPS_MACH);
    if !env.in_domain() {
        cnt.out_of_domain += 1;
    }
    let classification = matches!(case.problem, Problem::CSvc { .. } | Problem::NuSvc { .. });
    let mut plain: Vec<Option<Obs>> = vec![None, None];
    for (si, shrink) in [false, true].into_iter().enumerate() {
        for pr in [false, true] {
            if pr && !classification {
                continue;
            }
            cnt.fits += 1;
            let at = json!({"shrinking": shrink, "calibrated": pr});
            let cj = |extra: &Value| -> Value {
                let mut c = serde_json::to_value(case).unwrap();
                c.as_object_mut().unwrap().insert("at".into(), extra.clone());
                c
            };
            let pre = format!("{}.{}", case.problem.tag(), if shrink { "shrinking" } else { "noshrink" });
            match fit_variant::<F>(case, shrink, pr) {
                FitOut::Panic(p) => {
                    v.push(Violation::new(format!("{}.fit.panic", pre), format!("fit panicked: {}", p), cj(&at)));
                }
                FitOut::FitError(e) => {
                    if pr && e.to_lowercase().contains("platt") {
                        // the Platt calibration (linfa core, not part of this property) did not converge
                        cnt.platt_errors += 1;
                        // judged against the uncalibrated model of the same parameters: when its decision values are
                        // finite and spread over more than 5 % of the margin unit, Platt's sigmoid fit has something to
                        // calibrate and a failure leaves the user without a model
                        match plain[si].as_ref() {
                            Some(o) if env.in_domain() => {
                                let (mn, mx) = o.dec_train.iter().fold((f64::INFINITY, f64::NEG_INFINITY), |(a, b), &d| (a.min(d), b.max(d)));
                                let finite = o.dec_train.iter().all(|d| d.is_finite());
                                let np = case.labels.iter().filter(|&&l| l).count();
                                if finite && np > 0 && np < case.labels.len() && mx - mn >= 0.05 {
                                    let sig = if case.float == "f32" && e.contains("LineSearchNotConverged") { "pr.fit.platt_line_search_fails_in_f32" } else { "pr.fit.platt_failed_on_calibratable_data" };
                                    v.push(Violation::new(
                                        format!("{}.{}", pre, sig),
                                        format!("Svm<{}, Pr> fit returned Err({}) although the uncalibrated model of the same parameters has decision values in [{:.4}, {:.4}] ({} positives of {}); no model is returned", case.float, e, mn, mx, np, case.labels.len()),
                                        cj(&at),
                                    ));
                                } else {
                                    cnt.platt_degenerate += 1;
                                }
                            }
                            _ => cnt.platt_degenerate += 1,
                        }
                    } else {
                        v.push(Violation::new(format!("{}.fit.error", pre), format!("fit of an in-domain configuration returned Err({})", e), cj(&at)));
                    }
                }
                FitOut::Model(o) => {
                    if pr {
                        oracle::check_calibrated(&env, &pre, &o, plain[si].as_ref(), v, &mut cnt, &cj(&at));
                    } else {
                        oracle::check_model(&env, &pre, shrink, &o, plain[0].as_ref(), v, &mut cnt, &cj(&at));
                        plain[si] = Some(o);
                    }
                }
            }
        }
    }
    cnt
}

fn run_case_inner(case: &Case, v: &mut Vec<Violation>) -> Counters {
    match (case.family.as_str(), case.float.as_str()) {
        ("layout", "f32") => layout::run_typed::<f32>(case, v),
        ("layout", "f64") => layout::run_typed::<f64>(case, v),
        ("forms", "f32") => forms::run_typed::<f32>(case, v),
        ("forms", "f64") => forms::run_typed::<f64>(case, v),
        ("builder", "f32") => builder::run_typed::<f32>(case, v),
        ("builder", "f64") => builder::run_typed::<f64>(case, v),
        ("", "f32") => run_typed::<f32>(case, v),
        ("", "f64") => run_typed::<f64>(case, v),
        _ => panic!("bad case family / float"),
    }
}

/// Runs one case on a watchdog thread: a case whose fits do not come back within the wall cap is
/// reported as non-terminating (the worker thread is abandoned).
fn run_case(case: &Case, v: &mut Vec<Violation>) -> Counters {
    let cap_s: u64 = std::env::var("VERIF_C13_CASE_CAP_S").ok().and_then(|s| s.parse().ok()).unwrap_or(900);
    let (tx, rx) = std::sync::mpsc::channel();
    let c = case.clone();
    let h = std::thread::Builder::new().stack_size(16 << 20).spawn(move || {
        let mut v = Vec::new();
        let cnt = run_case_inner(&c, &mut v);
        let _ = tx.send((cnt, v));
    });
    if h.is_err() {
        println!("MACHINERY-ERROR cannot spawn worker thread");
        std::process::exit(2);
    }
    match rx.recv_timeout(std::time::Duration::from_secs(cap_s)) {
        Ok((cnt, vs)) => {
            v.extend(vs);
            cnt
        }
        Err(std::sync::mpsc::RecvTimeoutError::Timeout) => {
            v.push(Violation::new(
                format!("{}.fit.no_termination_within_wall_cap", case.problem.tag()),
                format!("the fits of this case did not terminate within {} s", cap_s),
                serde_json::to_value(case).unwrap(),
            ));
            Counters::default()
        }
        Err(_) => {
            // the worker died: a panic of the harness itself, never a verdict
            println!("MACHINERY-ERROR worker thread of case {} / {:?} died (harness panic)", case.dataset, case.problem);
            std::process::exit(2);
        }
    }
}

fn replay_value(val: &Value) -> Vec<Violation> {
    let c: Case = match serde_json::from_value(val.clone()) {
        Ok(c) => c,
        Err(e) => {
            println!("MACHINERY-ERROR replay case does not parse: {}", e);
            std::process::exit(2);
        }
    };
    let mut out = Vec::new();
    run_case(&c, &mut out);
    // keep the violations of the recorded variant (shrinking / calibrated) when the artefact names one
    if let Some(at) = val.get("at") {
        out.retain(|x| x.case.get("at") == Some(at));
    }
    out
}

fn main() {
    let ctx = Ctx::new("C13", Level::Exploration);
    ctx.maybe_replay(&replay_value);

    let sizes: Vec<usize> = ctx.pick(vec![8, 12, 20, 40], vec![8, 12, 20, 40, 80, 120, 200]);
    ctx.set_rule(&format!(
        "case = (dataset, kernel, problem + parameters, solver eps, float type); datasets: 9 lattice-based families \
         (separable blocks, overlapping half-planes with label noise and conflicting duplicates, imbalanced ~1:4 jittered, \
         lattice cluster with two outliers, jittered cloud, exact line, noisy line, sine curve, duplicated abscissae with conflicting targets) \
         x n in {:?}; kernels linear, Gaussian(0.5), Gaussian(5), polynomial (0,2), (1,3); C-SVC: C in {{.01,1,100}} x class weights (1,1),(1,10),(10,1); \
         nu-SVC / one-class: nu in {{.1,.5,1}}; eps-SVR: C in {{.01,1,100}} x eps_loss in {{.1,.5}}; nu-SVR: nu in {{.1,.5,1}} x C in {{.01,1,100}}; \
         solver eps in {{1e-3,1e-7}}; f32 and f64; members whose eps is below 8 ulp (of the float type) of max(max U * max|K|, max|p|) cannot resolve the stopping rule and are run only in the thorough tier for a small family (n=8, f32, eps 1e-7, linear / Gaussian(.5), one parameter point per problem type) that exercises the iteration cap; nu-SVR with C=100 only in the thorough tier for n<=12; for n>=80 only linear / Gaussian(.5) / polynomial(0,2) (the other two kernels need 10^7 iterations per fit there). Every case is fitted with shrinking off and on (classification additionally as Svm<_,Pr>), \
         every fit is one evaluation; non-trivial = the model has at least one non-zero coefficient and the solver made at least one iteration; \
         the whole Cartesian product is run (count asserted). Size family: separable / overlapping / cluster / noisy-line with n = 1025 (quick: overlapping C-SVC (1,10) and noisy-line nu-SVR, linear kernel only) \
         (beyond the 1000-iteration shrinking period), linear and Gaussian(.5), 2-3 parameter points per problem type, eps 1e-3, f64, through the same oracles. \
         Layout family: 5 datasets x n in {{12}} quick / {{12,40}} thorough x linear / Gaussian(.5) / polynomial(1,3) x one or two parameter points per problem type x f32 / f64 x shrinking off/on \
         (x calibrated for classification): the records are given to fit as standard-layout view, column-major owned array, transposed view of a feature-major array, \
         reversed-row view of a reversed copy, every-second-row view of an array whose other rows are NaN, and the standard-layout model is applied (predict, weighted_sum) to the \
         training and new records in the same five layouts plus single samples held in strided / reversed 1-D buffers; the same cases also call predict_inplace into poisoned / reused buffers and the single-sample predict forms. \
         Feature-count family: jittered sub-unit lattices (pitch 0.125) with d in {{4,5,6,7,9}} features, n = 20 (thorough also 40), classification / unlabelled / regression, all five kernels, 1-3 parameter points per problem type, (eps, float) in {{(1e-3,f64),(1e-7,f64),(1e-3,f32)}}, through all KKT oracles; \
         plus a sparse Gaussian(.5) kernel on the symmetrised 3-nearest-neighbour graph (d = 4, 7; reference = brute-force neighbour graph). \
         Calling-form family: 7 (thorough 10) datasets incl. a one-feature classification set x linear / Gaussian(.5) / polynomial(1,3) x 1-2 parameter points x f32 / f64 x shrinking off/on (x calibrated): fit through checked / unchecked params, owned / view / tuple-into datasets, targets as reversed and stepped views, counted targets, with_labels, map_targets, into_single_target, reversed feature axis; \
         predict through &view, owned records, owned dataset, &dataset, dataset view, reversed feature axis and one-row batches. \
         Class-ratio family (for the calibrated models): jittered lattices with n = 20 (thorough also 40) and 20 %, 33 %, 65 %, 67 %, 80 %, 95 % positives (both orientations of 1:4 and 1:2), linear / Gaussian(.5) / polynomial(1,3), C-SVC C in {{1,100}} and weights (1,10), nu-SVC nu = .1, f32 / f64, through all oracles. \
         Builder family: on overlapping / cloud / noisy-line n = 12, for 9 groups of real setters (kernel setter, problem-type setter, eps, shrinking, platt) every permutation, plus for every decoy (other kernel, other problem type incl. the deprecated c_eps / nu_eps, other eps / shrinking / platt) every permutation in which the decoy precedes the setter that overwrites it; constructors params() / new() / default(); f64 and every fourth sequence in f32.",
        sizes
    ));
    ctx.assume("oracle kernel = harness' own f64 implementation of <x,x'>, exp(-|x-x'|^2/eps), (<x,x'>+c)^d on the coordinates as rounded to the subject's float type; f_i = sum_j alpha_j K_ij - rho from the PUBLISHED alpha / rho");
    ctx.assume("KKT tolerance tau_i = 2 x solver eps (x 1/r for nu-SVC, r recovered from the published alpha as nu*n/sum|alpha|) + rounding, rounding = (4*nvars + 4*iterations) * eps_machine * (sum_j U_j |K_ij| + |p_i| + |rho| + 1) with U_j the box bound of variable j (covers the incrementally updated gradient in the subject's float type); a sample whose tau exceeds a quarter of the margin unit (1; eps_loss for regression) is counted indeterminate, not judged");
    ctx.assume("a coefficient is 'zero' iff published alpha == 0 exactly (the solver's own notion), 'at bound' iff |alpha| >= U*(1-1e-9 [f64] / 1e-4 [f32]) (then only the inequality is demanded), else free; box tolerance 16*eps_machine*U; equality constraints within 4*(nvars+iterations)*eps_machine*max U");
    ctx.assume("weighted_sum / predict vs reference: relative 1e-9 (f64) / 1e-4 (f32) of sum_j |alpha_j| |K|(x_j,x); labels of samples whose reference decision value is inside that band are indeterminate");
    ctx.assume("nu-SVC with nu*n/2 > min(n+, n-) has an empty feasible set: counted out_of_domain (only termination / no panic demanded); a Platt calibration failure (Err(SvmError::Platt(..)) of a Svm<_,Pr> fit) is a violation when the uncalibrated model of the same parameters has finite decision values spread over at least 5 % of the margin unit (max - min >= 0.05) and both classes are present; otherwise (collapsed or non-finite decision values, empty feasible set) it is counted as degenerate and not judged");
    ctx.assume("nu-SVC whose margin r (read from the derived Debug output, the only place it is published) is zero at solver precision, |r| <= 2*eps + rounding, is degenerate (the nu-reduced convex hulls of the classes intersect, w = 0, the 1/r scaling is undefined; libsvm behaves the same): counted indeterminate, not judged");
    ctx.assume("nu-SVR oracle: |alpha_i| <= C, sum alpha_i = 0, a common tube half-width e >= 0 must exist (free: sign(alpha_i)(y_i-f_i) = e, bounded: >= e, zero: |y_i-f_i| <= e, all within tau), sum|alpha_i| <= C*nu*n, and = C*nu*n when e > 0 (complementary slackness of the nu constraint)");
    ctx.assume("calibrated models: alpha / rho / weighted_sum bit-identical to the uncalibrated model of the same parameters; Pr in [0,1] and weakly monotone in the model's own decision value with a slack of 4 f32 ulp (Pr is computed in f32); a decision value of exactly 0 has no sign (either label accepted)");
    ctx.assume("layout family: every kernel entry is computed from two rows in an element order that does not depend on the memory layout, so everything published (alpha, rho, nsupport, Display, weighted_sum, labels, values, Pr) must be BIT-identical to the standard-layout run; targets are always passed contiguous (fit documents nothing about strided targets); no panic for non-contiguous records is documented for linfa-svm");
    ctx.assume("builder family: reference = a plain record updated with the rustdoc effect of each SvmParams setter (new(): C (1,1), eps 1e-7, no shrinking, linear kernel, Platt defaults; pos_neg_weights / c_svr / c_eps write C and clear nu, nu_weight / nu_svr / nu_eps write nu and clear C, the deprecated c_eps / nu_eps also write the solver eps; last write wins); the checked parameters' getters must equal it and the fit must be bit-identical to the fit of the canonical construction (kernel, problem type, eps, shrinking, platt) of the same final state");
    ctx.assume("calling forms: every fit form must give the model of params.fit(&Dataset::new(records, targets)) bit for bit and every predict form the values of model.predict(&records); a fit that panics on targets in a non-contiguous layout (reversed / stepped views - supported target types - or the owned array map_targets derives from such a view) is reported as <problem>.fit.panics_on_non_contiguous_targets");
    ctx.assume("sparse kernel: the solver's kernel matrix is K_ij where i = j or one point is among the 3 nearest (Euclidean, brute force) of the other, else 0; KKT is judged against that matrix, weighted_sum against the dense kernel function (as Svm::weighted_sum documents); a case with equidistant 3rd / 4th neighbours would be indeterminate");
    ctx.assume("stale buffers: predict_inplace into a buffer pre-filled with the opposite labels / a poison Pr / NaN, and into a buffer reused from a previous different batch, and single-sample predict, must reproduce the plain batch predict bit for bit");
    ctx.assume("termination: SolverState::solve is bounded by 10^7 iterations; a fit that reports 'Reached maximal iterations' and violates KKT is reported as not converged; a case that does not return within 900 s wall is reported as non-terminating");

    // ---------------- enumerate ----------------
    let cat: Vec<Data> = data::catalogue(&sizes);
    let kernels = [Kern::Linear, Kern::Gaussian(0.5), Kern::Gaussian(5.0), Kern::Poly(0.0, 2.0), Kern::Poly(1.0, 3.0)];
    let cs = [0.01, 1.0, 100.0];
    let weights = [(1.0, 1.0), (1.0, 10.0), (10.0, 1.0)];
    let nus = [0.1, 0.5, 1.0];
    let eps_losses = [0.1, 0.5];
    let solver_eps = [1e-3, 1e-7];
    let floats = ["f64", "f32"];
    let mut cases: Vec<Case> = Vec::new();
    let thorough = ctx.thorough();
    let mut below_resolution = 0u64;
    for d in &cat {
        let mut problems: Vec<Problem> = Vec::new();
        match d.kind {
            Kind::Classification => {
                for &c in &cs {
                    for &(wp, wn) in &weights {
                        problems.push(Problem::CSvc { c_pos: c * wp, c_neg: c * wn });
                    }
                }
                for &nu in &nus {
                    problems.push(Problem::NuSvc { nu });
                }
            }
            Kind::Unlabelled => {
                for &nu in &nus {
                    problems.push(Problem::OneClass { nu });
                }
            }
            Kind::Regression => {
                for &c in &cs {
                    for &e in &eps_losses {
                        problems.push(Problem::EpsSvr { c, eps_loss: e });
                    }
                }
                for &nu in &nus {
                    for &c in &cs {
                        // nu-SVR with C = 100 (an interpolation problem on the smooth kernels while nu is ignored)
                        // needs 10^6..10^7 iterations: thorough tier, n <= 12 only
                        if c > 10.0 && !(thorough && d.x.len() <= 12) {
                            continue;
                        }
                        problems.push(Problem::NuSvr { nu, c });
                    }
                }
            }
        }
        let ymax = d.targets.iter().fold(0.0f64, |m, t| m.max(t.abs()));
        let large = d.x.len() >= 80;
        for k in &kernels {
            // n >= 80 (thorough): the two ill-conditioned kernels run into the 10^7 iteration cap (minutes per
            // fit); the breadth of the grid is cut there, not the oracle
            if large && (*k == Kern::Gaussian(5.0) || *k == Kern::Poly(1.0, 3.0)) {
                continue;
            }
            let kmax = d.x.iter().map(|a| d.x.iter().map(|b| oracle::kern(k, a, b).abs()).fold(0.0, f64::max)).fold(0.0, f64::max);
            for p in &problems {
                for &e in &solver_eps {
                    for f in floats {
                        // Domain filter (float resolution): the stopping rule compares gradient differences with
                        // eps; gradients are p_i plus sums of terms U_j*K_ij, so a threshold below 8 ulp of the largest
                        // single term cannot be resolved in that float type and the fit runs into the 10^7
                        // iteration cap (about a minute each). Quick: not run; thorough: a small n=8 family only,
                        // to exercise the `ReachedIterations` exit.
                        let em = if f == "f32" { f32::EPSILON as f64 } else { f64::EPSILON };
                        let umax = match p {
                            Problem::CSvc { c_pos, c_neg } => c_pos.max(*c_neg),
                            Problem::EpsSvr { c, .. } | Problem::NuSvr { c, .. } => *c,
                            _ => 1.0,
                        };
                        let cap_family = thorough
                            && d.x.len() == 8
                            && f == "f32"
                            && e < 1e-6
                            && (*k == Kern::Linear || *k == Kern::Gaussian(0.5))
                            && matches!(p, Problem::CSvc { c_pos, c_neg } if *c_pos == 1.0 && *c_neg == 1.0)
                                | matches!(p, Problem::NuSvc { nu } | Problem::OneClass { nu } if *nu == 0.5)
                                | matches!(p, Problem::EpsSvr { c, eps_loss } if *c == 1.0 && *eps_loss == 0.1)
                                | matches!(p, Problem::NuSvr { nu, c } if *nu == 0.5 && *c == 1.0);
                        let pmax = match p {
                            Problem::CSvc { .. } => 1.0,
                            Problem::EpsSvr { eps_loss, .. } => eps_loss + ymax,
                            Problem::NuSvr { .. } => ymax,
                            _ => 0.0,
                        };
                        if e < 8.0 * em * (umax * kmax).max(pmax) && !cap_family {
                            below_resolution += 1;
                            continue;
                        }
                        cases.push(Case {
                            dataset: d.id.clone(),
                            x: d.x.clone(),
                            labels: d.labels.clone(),
                            targets: d.targets.clone(),
                            probes: d.probes.clone(),
                            kernel: k.clone(),
                            problem: p.clone(),
                            eps: e,
                            float: f.to_string(),
                            family: String::new(),
                            ..Default::default()
                        });
                    }
                }
            }
        }
    }
    let kkt_cases = cases.len();
    // ---------------- size family: n = 1025, beyond the 1000-iteration shrinking period (2 members quick, 20 thorough) ----------------
    let mut size_cases = 0usize;
    {
        let members = if thorough { vec![data::separable(1025), data::overlapping(1025), data::cluster_outliers(1025), data::line_noisy(1025)] } else { vec![data::overlapping(1025), data::line_noisy(1025)] };
        for d in members {
            let problems: Vec<Problem> = match d.kind {
                Kind::Classification => vec![Problem::CSvc { c_pos: 1.0, c_neg: 1.0 }, Problem::CSvc { c_pos: 1.0, c_neg: 10.0 }, Problem::NuSvc { nu: 0.5 }],
                Kind::Unlabelled => vec![Problem::OneClass { nu: 0.1 }, Problem::OneClass { nu: 0.5 }],
                Kind::Regression => vec![Problem::EpsSvr { c: 1.0, eps_loss: 0.1 }, Problem::NuSvr { nu: 0.5, c: 1.0 }],
            };
            for k in [Kern::Linear, Kern::Gaussian(0.5)] {
                for (pi, p) in problems.iter().enumerate() {
                    // quick: one linear member per dataset (about a second each)
                    if !thorough && !(k == Kern::Linear && pi == 1) {
                        continue;
                    }
                    cases.push(Case { dataset: d.id.clone(), x: d.x.clone(), labels: d.labels.clone(), targets: d.targets.clone(), probes: d.probes.clone(), kernel: k.clone(), problem: p.clone(), eps: 1e-3, float: "f64".into(), family: String::new(), ..Default::default() });
                    size_cases += 1;
                }
            }
        }
    }
    // ---------------- memory-layout family ----------------
    let layout_sizes: Vec<usize> = ctx.pick(vec![12], vec![12, 40]);
    let mut layout_cases = 0usize;
    let mut layout_data = data::catalogue(&layout_sizes);
    layout_data.extend([data::highdim_cls(20, 5), data::highdim_unl(20, 5), data::highdim_reg(20, 5)]);
    for d in layout_data {
        if !(d.id.starts_with("highdim") || d.id.starts_with("overlapping") || d.id.starts_with("imbalanced") || d.id.starts_with("generic_cloud") || d.id.starts_with("line_noisy") || d.id.starts_with("dup_conflict")) {
            continue;
        }
        let problems: Vec<Problem> = match d.kind {
            Kind::Classification => vec![Problem::CSvc { c_pos: 1.0, c_neg: 10.0 }, Problem::NuSvc { nu: 0.5 }],
            Kind::Unlabelled => vec![Problem::OneClass { nu: 0.5 }],
            Kind::Regression => vec![Problem::EpsSvr { c: 1.0, eps_loss: 0.1 }, Problem::NuSvr { nu: 0.5, c: 1.0 }],
        };
        for k in [Kern::Linear, Kern::Gaussian(0.5), Kern::Poly(1.0, 3.0)] {
            for p in &problems {
                for f in floats {
                    cases.push(Case { dataset: d.id.clone(), x: d.x.clone(), labels: d.labels.clone(), targets: d.targets.clone(), probes: d.probes.clone(), kernel: k.clone(), problem: p.clone(), eps: 1e-3, float: f.to_string(), family: "layout".into(), ..Default::default() });
                    layout_cases += 1;
                }
            }
        }
    }
    // ---------------- feature-count family: d in {4,5,6,7,9}, sub-unit scale, n > 16, every kernel, through the KKT oracles ----------------
    let mut highdim_cases = 0usize;
    let mut sparse_cases = 0usize;
    {
        let hn: Vec<usize> = ctx.pick(vec![20], vec![20, 40]);
        for &n in &hn {
            for dim in [4usize, 5, 6, 7, 9] {
                for d in [data::highdim_cls(n, dim), data::highdim_unl(n, dim), data::highdim_reg(n, dim)] {
                    let problems: Vec<Problem> = match d.kind {
                        Kind::Classification => vec![Problem::CSvc { c_pos: 1.0, c_neg: 1.0 }, Problem::CSvc { c_pos: 1.0, c_neg: 10.0 }, Problem::NuSvc { nu: 0.5 }],
                        Kind::Unlabelled => vec![Problem::OneClass { nu: 0.5 }],
                        Kind::Regression => vec![Problem::EpsSvr { c: 1.0, eps_loss: 0.1 }, Problem::NuSvr { nu: 0.5, c: 1.0 }],
                    };
                    for k in &kernels {
                        for p in &problems {
                            for (e, f) in [(1e-3, "f64"), (1e-7, "f64"), (1e-3, "f32")] {
                                cases.push(Case { dataset: d.id.clone(), x: d.x.clone(), labels: d.labels.clone(), targets: d.targets.clone(), probes: d.probes.clone(), kernel: k.clone(), problem: p.clone(), eps: e, float: f.into(), ..Default::default() });
                                highdim_cases += 1;
                            }
                        }
                    }
                    // sparse kernel (symmetrised 3-nearest-neighbour graph): routes through the neighbour index with
                    // more than 16 points and sub-unit distances, CsMat column() / diagonal()
                    if dim == 4 || dim == 7 {
                        for p in problems.iter().take(1) {
                            for f in ["f64", "f32"] {
                                cases.push(Case { dataset: d.id.clone(), x: d.x.clone(), labels: d.labels.clone(), targets: d.targets.clone(), probes: d.probes.clone(), kernel: Kern::SparseGaussian(0.5, 3), problem: p.clone(), eps: 1e-3, float: f.into(), ..Default::default() });
                                sparse_cases += 1;
                            }
                        }
                    }
                }
            }
        }
    }
    // ---------------- class-ratio family for the calibrated models: both orientations of every imbalance ----------------
    let mut ratio_cases = 0usize;
    {
        let rn: Vec<usize> = ctx.pick(vec![20], vec![20, 40]);
        for &n in &rn {
            // 1:4 / 4:1, 1:2 / 2:1, 65 %, 80 %, 95 % positives
            let mut npos: Vec<usize> = vec![n / 5, n - n / 5, n / 3, n - n / 3, (n * 13) / 20, (n * 19) / 20];
            npos.sort();
            npos.dedup();
            for np in npos {
                let d = data::skewed(n, np);
                for k in [Kern::Linear, Kern::Gaussian(0.5), Kern::Poly(1.0, 3.0)] {
                    for p in [Problem::CSvc { c_pos: 1.0, c_neg: 1.0 }, Problem::CSvc { c_pos: 100.0, c_neg: 100.0 }, Problem::CSvc { c_pos: 1.0, c_neg: 10.0 }, Problem::NuSvc { nu: 0.1 }] {
                        for f in floats {
                            if f == "f32" && matches!(p, Problem::CSvc { c_pos, .. } if c_pos > 10.0) && k != Kern::Gaussian(0.5) {
                                continue; // below the f32 resolution filter of the main sweep
                            }
                            cases.push(Case { dataset: d.id.clone(), x: d.x.clone(), labels: d.labels.clone(), targets: vec![], probes: d.probes.clone(), kernel: k.clone(), problem: p.clone(), eps: 1e-3, float: f.to_string(), ..Default::default() });
                            ratio_cases += 1;
                        }
                    }
                }
            }
        }
    }
    ctx.extra("class_ratio_family_cases", json!(ratio_cases));
    // ---------------- calling-form family ----------------
    let mut form_cases = 0usize;
    {
        let mut ds = vec![data::overlapping(12), data::cls_1d(12), data::highdim_cls(20, 5), data::generic_cloud(12), data::highdim_unl(20, 5), data::line_noisy(12), data::highdim_reg(20, 5)];
        if thorough {
            ds.extend([data::imbalanced(40), data::highdim_cls(40, 9), data::highdim_reg(40, 9)]);
        }
        for d in ds {
            let problems: Vec<Problem> = match d.kind {
                Kind::Classification => vec![Problem::CSvc { c_pos: 1.0, c_neg: 10.0 }, Problem::NuSvc { nu: 0.5 }],
                Kind::Unlabelled => vec![Problem::OneClass { nu: 0.5 }],
                Kind::Regression => vec![Problem::EpsSvr { c: 1.0, eps_loss: 0.1 }, Problem::NuSvr { nu: 0.5, c: 1.0 }],
            };
            for k in [Kern::Linear, Kern::Gaussian(0.5), Kern::Poly(1.0, 3.0)] {
                for p in &problems {
                    for f in floats {
                        cases.push(Case { dataset: d.id.clone(), x: d.x.clone(), labels: d.labels.clone(), targets: d.targets.clone(), probes: d.probes.clone(), kernel: k.clone(), problem: p.clone(), eps: 1e-3, float: f.to_string(), family: "forms".into(), ..Default::default() });
                        form_cases += 1;
                    }
                }
            }
        }
    }
    ctx.extra("feature_count_family_cases", json!(highdim_cases));
    ctx.extra("sparse_kernel_cases", json!(sparse_cases));
    ctx.extra("calling_form_family_cases", json!(form_cases));
    // ---------------- builder-history family ----------------
    let mut builder_cases = 0usize;
    {
        use builder::Op;
        let cls = data::overlapping(12);
        let unl = data::generic_cloud(12);
        let reg = data::line_noisy(12);
        let common_decoys = |k: usize, e: usize, s: usize| vec![(Op::Linear, k), (Op::Gaussian(5.0), k), (Op::Eps(0.1), e), (Op::Shrinking(false), s)];
        // (target kind, dataset, real setters, decoys (setter, index of the real setter that overwrites it))
        let mut groups: Vec<(&str, &Data, Vec<Op>, Vec<(Op, usize)>)> = Vec::new();
        for kind in ["bool", "pr"] {
            let mut real = vec![Op::Gaussian(0.5), Op::PosNeg(1.0, 10.0), Op::Eps(1e-3), Op::Shrinking(true)];
            let mut real2 = vec![Op::WithKernelGaussian(0.5), Op::NuWeight(0.5), Op::Eps(1e-3), Op::Shrinking(true)];
            if kind == "pr" {
                real.push(Op::WithPlattMaxiter(200));
                real2 = vec![Op::Poly(1.0, 3.0), Op::NuWeight(0.5), Op::Eps(1e-3), Op::WithPlattMaxiter(200)];
            }
            let mut d1 = common_decoys(0, 2, 3);
            d1.push((Op::NuWeight(0.1), 1));
            groups.push((kind, &cls, real, d1));
            let mut d2 = vec![(Op::Linear, 0), (Op::Eps(0.1), 2), (Op::PosNeg(100.0, 100.0), 1)];
            if kind == "bool" {
                d2.push((Op::Shrinking(false), 3));
            } else {
                d2.push((Op::WithPlattMaxiter(3), 3));
            }
            groups.push((kind, &cls, real2, d2));
        }
        {
            let mut d = common_decoys(0, 2, 3);
            d.push((Op::PosNeg(7.0, 7.0), 1));
            groups.push(("oneclass", &unl, vec![Op::Gaussian(0.5), Op::NuWeight(0.5), Op::Eps(1e-3), Op::Shrinking(true)], d));
        }
        {
            let mut d = common_decoys(0, 2, 3);
            d.extend([(Op::NuSvr(0.5, None), 1), (Op::CEps(5.0, 1e-2), 1), (Op::NuEps(0.3, 1e-2), 1)]);
            groups.push(("reg", &reg, vec![Op::Gaussian(0.5), Op::CSvr(1.0, Some(0.2)), Op::Eps(1e-3), Op::Shrinking(true)], d));
            let d2 = vec![(Op::Gaussian(5.0), 0), (Op::CSvr(9.0, None), 1), (Op::CEps(5.0, 1e-2), 1), (Op::Eps(0.1), 2)];
            groups.push(("reg", &reg, vec![Op::Poly(1.0, 3.0), Op::NuSvr(0.5, Some(2.0)), Op::Eps(1e-3), Op::Shrinking(true)], d2));
            // the deprecated setters as the real ones (they also write the solver eps: the last writer wins)
            let d3 = vec![(Op::CSvr(9.0, Some(0.3)), 1), (Op::Eps(0.1), 2)];
            groups.push(("reg", &reg, vec![Op::Linear, Op::CEps(1.0, 1e-2), Op::Eps(1e-3), Op::Shrinking(true)], d3.clone()));
            groups.push(("reg", &reg, vec![Op::Gaussian(0.5), Op::NuEps(0.5, 1e-2), Op::Eps(1e-3), Op::Shrinking(true)], d3));
        }
        for (gi, (kind, d, real, decoys)) in groups.iter().enumerate() {
            let seqs = builder::sequences(real, decoys);
            for (si, ops) in seqs.iter().enumerate() {
                // f32 for every fourth sequence, alternative constructors for the plain orders of the real setters
                let mut variants: Vec<(&str, &str)> = vec![("f64", "params")];
                if si % 4 == 0 {
                    variants.push(("f32", "params"));
                }
                if ops.len() == real.len() && (thorough || si < 6) {
                    variants.push(("f64", "new"));
                    variants.push(("f64", "default"));
                }
                for (f, ctor) in variants {
                    cases.push(Case { dataset: format!("{}#builder{}", d.id, gi), x: d.x.clone(), labels: d.labels.clone(), targets: d.targets.clone(), probes: d.probes.clone(), float: f.into(), family: "builder".into(), target_kind: kind.to_string(), ctor: ctor.into(), ops: ops.clone(), ..Default::default() });
                    builder_cases += 1;
                }
            }
        }
        // the bare constructors: getters must show the documented defaults, fit must equal the canonical default
        for (kind, d) in [("bool", &cls), ("reg", &reg)] {
            for ctor in ["params", "new", "default"] {
                cases.push(Case { dataset: format!("{}#builder_bare", d.id), x: d.x.clone(), labels: d.labels.clone(), targets: d.targets.clone(), probes: d.probes.clone(), float: "f64".into(), family: "builder".into(), target_kind: kind.into(), ctor: ctor.into(), ops: vec![], ..Default::default() });
                builder_cases += 1;
            }
        }
    }
    ctx.extra("builder_family_cases", json!(builder_cases));
    ctx.extra("kkt_sweep_cases", json!(kkt_cases));
    ctx.extra("size_family_cases_n1025", json!(size_cases));
    ctx.extra("layout_family_cases", json!(layout_cases));
    // large cases first so that the parallel sweep does not end on a long tail
    cases.sort_by_key(|c| std::cmp::Reverse(c.x.len()));
    ctx.extra("datasets", json!(cat.len()));
    ctx.extra("cases_enumerated", json!(cases.len()));
    ctx.extra("cases_with_eps_below_float_resolution_excluded_by_domain_filter", json!(below_resolution));

    let trace = std::env::var("VERIF_C13_TRACE").is_ok();
    let done = AtomicU64::new(0);
    let tot = std::sync::Mutex::new(Counters::default());
    par_sweep(&ctx, "svm sweep", &cases, |c| {
        let mut v = Vec::new();
        let t0 = std::time::Instant::now();
        let cnt = run_case(c, &mut v);
        if trace && t0.elapsed().as_secs_f64() > 0.5 {
            eprintln!("TRACE {:.1}s {} {:?} {:?} eps={} {} iters={:?}", t0.elapsed().as_secs_f64(), c.dataset, c.kernel, c.problem, c.eps, c.float, cnt.last_iters);
        }
        ctx.evals(cnt.fits, cnt.nontrivial);
        for _ in 0..cnt.out_of_domain {
            ctx.out_of_domain();
        }
        for _ in 0..cnt.indeterminate_cases {
            ctx.indeterminate();
        }
        tot.lock().unwrap().add(&cnt);
        ctx.violations(v);
        done.fetch_add(1, Ordering::Relaxed);
        ctx.sample(|| json!({"dataset": c.dataset, "n": c.x.len(), "kernel": c.kernel, "problem": c.problem, "eps": c.eps, "float": c.float,
            "iterations_noshrink": cnt.last_iters.0, "iterations_shrinking": cnt.last_iters.1, "nsupport": cnt.last_nsupport}));
    });
    let done = done.load(Ordering::Relaxed);
    ctx.extra("cases_completed", json!(done));
    if done != cases.len() as u64 {
        ctx.capped(&format!("{} of {} cases completed", done, cases.len()));
    }
    let t = tot.lock().unwrap();
    for (k, val) in t.as_pairs() {
        ctx.extra(k, json!(val));
    }
    drop(t);
    ctx.finish(&replay_value);
}
