//! Memory-layout family of C13: the same logical records given to `fit`, `predict` and
//! `weighted_sum` in different memory layouts must give bit-identical published quantities
//! (every kernel entry is computed from two rows through layout-independent element orders, so the
//! arithmetic cannot change with the layout).

use crate::oracle::{Counters, Obs};
use crate::{f64of, with_kernel, Case, Problem, SvmFloat};
use linfa::dataset::{Dataset, DatasetBase, Pr};
use linfa::traits::{Fit, Predict, PredictInplace};
use linfa_svm::Svm;
use lvmc_core::{guarded, json, Value, Violation};
use ndarray::{s, Array1, Array2, ArrayBase, ArrayView1, ArrayView2, Data, Ix2, ShapeBuilder};

pub enum Model<F: SvmFloat> {
    Bool(Svm<F, bool>),
    Pr(Svm<F, Pr>),
    Reg(Svm<F, F>),
}

#[derive(Clone, Copy, Debug, PartialEq)]
pub enum Layout {
    /// owned, standard (row-major) layout: the reference
    Std,
    /// view of the standard array (exercises the `ArrayView2` impls)
    StdView,
    /// owned column-major array (`.f()`)
    FOwned,
    /// transposed view of a feature-major (d x n) array
    TView,
    /// reversed-row view of a row-reversed copy (negative stride)
    RevView,
    /// every second row of a 2n x d array whose other rows hold NaN
    Strided,
    /// reversed-feature-axis view of a feature-reversed copy (contiguous in memory order, stride -1 along the features)
    RevFeat,
}

pub const VARIANTS: [Layout; 6] = [Layout::StdView, Layout::FOwned, Layout::TView, Layout::RevView, Layout::Strided, Layout::RevFeat];

/// backing storage of one logical matrix in all layouts
pub struct Store<F> {
    std: Array2<F>,
    f_owned: Array2<F>,
    fm: Array2<F>,
    rev: Array2<F>,
    big: Array2<F>,
    frev: Array2<F>,
}

impl<F: SvmFloat> Store<F> {
    pub fn new(rows: &[Vec<f64>]) -> Store<F> {
        let n = rows.len();
        let d = rows.first().map_or(0, |r| r.len());
        let at = |i: usize, j: usize| F::cast(rows[i][j]);
        Store {
            std: Array2::from_shape_fn((n, d), |(i, j)| at(i, j)),
            f_owned: Array2::from_shape_fn((n, d).f(), |(i, j)| at(i, j)),
            fm: Array2::from_shape_fn((d, n), |(j, i)| at(i, j)),
            rev: Array2::from_shape_fn((n, d), |(i, j)| at(n - 1 - i, j)),
            big: Array2::from_shape_fn((2 * n, d), |(i, j)| if i % 2 == 0 { at(i / 2, j) } else { F::nan() }),
            frev: Array2::from_shape_fn((n, d), |(i, j)| at(i, d - 1 - j)),
        }
    }
    pub fn view(&self, l: Layout) -> ArrayView2<'_, F> {
        match l {
            Layout::Std | Layout::StdView => self.std.view(),
            Layout::FOwned => self.f_owned.view(),
            Layout::TView => self.fm.t(),
            Layout::RevView => self.rev.slice(s![..;-1, ..]),
            Layout::Strided => self.big.slice(s![..;2, ..]),
            Layout::RevFeat => self.frev.slice(s![.., ..;-1]),
        }
    }
    /// owned array for the two owned layouts
    fn owned(&self, l: Layout) -> Option<Array2<F>> {
        match l {
            Layout::Std => Some(self.std.clone()),
            Layout::FOwned => Some(self.f_owned.clone()),
            _ => None,
        }
    }
}

fn fit_layout<F: SvmFloat>(case: &Case, shrink: bool, pr: bool, st: &Store<F>, l: Layout) -> Result<Model<F>, String> {
    let eps = F::cast(case.eps);
    let r = guarded(|| -> Result<Model<F>, String> {
        macro_rules! cls_params {
            ($t:ty) => {{
                let p = with_kernel(Svm::<F, $t>::params(), &case.kernel).eps(eps).shrinking(shrink);
                match case.problem {
                    Problem::CSvc { c_pos, c_neg } => p.pos_neg_weights(F::cast(c_pos), F::cast(c_neg)),
                    Problem::NuSvc { nu } => p.nu_weight(F::cast(nu)),
                    _ => unreachable!(),
                }
            }};
        }
        match &case.problem {
            Problem::CSvc { .. } | Problem::NuSvc { .. } => {
                let y = Array1::from(case.labels.clone());
                match st.owned(l) {
                    Some(x) => {
                        let ds = Dataset::new(x, y);
                        if pr {
                            cls_params!(Pr).fit(&ds).map(Model::Pr).map_err(|e| e.to_string())
                        } else {
                            cls_params!(bool).fit(&ds).map(Model::Bool).map_err(|e| e.to_string())
                        }
                    }
                    None => {
                        let ds: DatasetBase<ArrayView2<F>, ArrayView1<bool>> = DatasetBase::new(st.view(l), y.view());
                        if pr {
                            cls_params!(Pr).fit(&ds).map(Model::Pr).map_err(|e| e.to_string())
                        } else {
                            cls_params!(bool).fit(&ds).map(Model::Bool).map_err(|e| e.to_string())
                        }
                    }
                }
            }
            Problem::OneClass { nu } => {
                let p = with_kernel(Svm::<F, Pr>::params(), &case.kernel).eps(eps).shrinking(shrink).nu_weight(F::cast(*nu));
                match st.owned(l) {
                    Some(x) => p.fit(&Dataset::from(x)).map(Model::Bool).map_err(|e| e.to_string()),
                    None => {
                        let y: Array1<()> = Array1::from_elem(case.x.len(), ());
                        let ds: DatasetBase<ArrayView2<F>, ArrayView1<()>> = DatasetBase::new(st.view(l), y.view());
                        p.fit(&ds).map(Model::Bool).map_err(|e| e.to_string())
                    }
                }
            }
            Problem::EpsSvr { .. } | Problem::NuSvr { .. } => {
                let y: Array1<F> = case.targets.iter().map(|&t| F::cast(t)).collect();
                let p = with_kernel(Svm::<F, F>::params(), &case.kernel).eps(eps).shrinking(shrink);
                let p = match case.problem {
                    Problem::EpsSvr { c, eps_loss } => p.c_svr(F::cast(c), Some(F::cast(eps_loss))),
                    Problem::NuSvr { nu, c } => p.nu_svr(F::cast(nu), Some(F::cast(c))),
                    _ => unreachable!(),
                };
                match st.owned(l) {
                    Some(x) => F::fit_reg(p, &Dataset::new(x, y)).map(Model::Reg).map_err(|e| e.to_string()),
                    None => {
                        let ds: DatasetBase<ArrayView2<F>, ArrayView1<F>> = DatasetBase::new(st.view(l), y.view());
                        F::fit_reg_view(p, &ds).map(Model::Reg).map_err(|e| e.to_string())
                    }
                }
            }
        }
    });
    match r {
        Ok(Ok(m)) => Ok(m),
        Ok(Err(e)) => Err(format!("Err({})", e)),
        Err(p) => Err(format!("panic: {}", p)),
    }
}

fn common<F: SvmFloat, T: std::fmt::Debug, D: Data<Elem = F>>(m: &Svm<F, T>, xt: &ArrayBase<D, Ix2>, xp: &ArrayBase<D, Ix2>) -> Obs {
    let mut o = Obs::default();
    o.alpha = m.alpha.iter().map(|&a| f64of(a)).collect();
    o.rho = f64of(m.rho);
    o.nsupport = m.nsupport();
    o.display = format!("{}", m);
    for (xs, ws) in [(xt, &mut o.ws_train), (xp, &mut o.ws_probe)] {
        for row in xs.outer_iter() {
            ws.push(f64of(m.weighted_sum(&row)));
        }
    }
    o
}

/// everything the model publishes for the given records (in whatever layout they come)
pub(crate) fn observe_any<F: SvmFloat, D: Data<Elem = F>>(m: &Model<F>, xt: &ArrayBase<D, Ix2>, xp: &ArrayBase<D, Ix2>) -> Result<Obs, String> {
    guarded(|| match m {
        Model::Bool(s) => {
            let mut o = common(s, xt, xp);
            let a: Array1<bool> = s.predict(xt);
            let b: Array1<bool> = s.predict(xp);
            o.lab_train = a.to_vec();
            o.lab_probe = b.to_vec();
            o
        }
        Model::Pr(s) => {
            let mut o = common(s, xt, xp);
            let a: Array1<Pr> = s.predict(xt);
            let b: Array1<Pr> = s.predict(xp);
            o.pr_train = a.iter().map(|p| **p as f64).collect();
            o.pr_probe = b.iter().map(|p| **p as f64).collect();
            o
        }
        Model::Reg(s) => {
            let mut o = common(s, xt, xp);
            o.val_train = F::predict_reg_any(s, xt).iter().map(|&v| f64of(v)).collect();
            o.val_probe = F::predict_reg_any(s, xp).iter().map(|&v| f64of(v)).collect();
            o
        }
    })
    .map_err(|p| format!("panic: {}", p))
}

fn bits_eq(a: &[f64], b: &[f64]) -> bool {
    a.len() == b.len() && a.iter().zip(b).all(|(x, y)| x.to_bits() == y.to_bits())
}

fn first_diff(a: &[f64], b: &[f64]) -> String {
    if a.len() != b.len() {
        return format!("lengths {} vs {}", a.len(), b.len());
    }
    for (i, (x, y)) in a.iter().zip(b).enumerate() {
        if x.to_bits() != y.to_bits() {
            return format!("index {}: {} vs {}", i, x, y);
        }
    }
    String::new()
}

/// (what differs: "model" | "weighted_sum" | "predict", detail)
pub(crate) fn obs_diff(a: &Obs, b: &Obs) -> Option<(&'static str, String)> {
    if !bits_eq(&a.alpha, &b.alpha) {
        return Some(("model", format!("alpha differs ({})", first_diff(&a.alpha, &b.alpha))));
    }
    if a.rho.to_bits() != b.rho.to_bits() {
        return Some(("model", format!("rho {} vs {}", a.rho, b.rho)));
    }
    if a.nsupport != b.nsupport || a.display != b.display {
        return Some(("model", format!("Display / nsupport differ: {:?} vs {:?}", a.display, b.display)));
    }
    if !bits_eq(&a.ws_train, &b.ws_train) {
        return Some(("weighted_sum", format!("training rows, {}", first_diff(&a.ws_train, &b.ws_train))));
    }
    if !bits_eq(&a.ws_probe, &b.ws_probe) {
        return Some(("weighted_sum", format!("new rows, {}", first_diff(&a.ws_probe, &b.ws_probe))));
    }
    if a.lab_train != b.lab_train || a.lab_probe != b.lab_probe {
        return Some(("predict", "predicted labels differ".into()));
    }
    for (x, y, what) in [(&a.val_train, &b.val_train, "values (training)"), (&a.val_probe, &b.val_probe, "values (new)"), (&a.pr_train, &b.pr_train, "Pr (training)"), (&a.pr_probe, &b.pr_probe, "Pr (new)")] {
        if !bits_eq(x, y) {
            return Some(("predict", format!("predicted {} differ, {}", what, first_diff(x, y))));
        }
    }
    None
}

pub fn run_typed<F: SvmFloat>(case: &Case, v: &mut Vec<Violation>) -> Counters {
    let mut cnt = Counters::default();
    let xt: Store<F> = Store::new(&case.x);
    let xp: Store<F> = Store::new(&case.probes);
    let classification = matches!(case.problem, Problem::CSvc { .. } | Problem::NuSvc { .. });
    let tag = case.problem.tag();
    for shrink in [false, true] {
        for pr in [false, true] {
            if pr && !classification {
                continue;
            }
            let cj = |layout: Layout, op: &str| -> Value {
                let mut c = serde_json::to_value(case).unwrap();
                c.as_object_mut().unwrap().insert("at".into(), json!({"shrinking": shrink, "calibrated": pr, "layout": format!("{:?}", layout), "op": op}));
                c
            };
            // reference: owned standard layout for fit and for predict
            cnt.fits += 1;
            cnt.layout_fits += 1;
            let base = fit_layout(case, shrink, pr, &xt, Layout::Std);
            let base_obs: Result<Obs, String> = match &base {
                Ok(m) => observe_any(m, &xt.std, &xp.std),
                Err(e) => Err(e.clone()),
            };
            if let Ok(o) = &base_obs {
                if o.nsupport > 0 {
                    cnt.nontrivial += 1;
                }
            }
            // (1) fit on every other layout, observe on the standard records
            for l in VARIANTS {
                cnt.fits += 1;
                cnt.layout_fits += 1;
                let got = match fit_layout(case, shrink, pr, &xt, l) {
                    Ok(m) => {
                        cnt.nontrivial += 1;
                        observe_any(&m, &xt.std, &xp.std)
                    }
                    Err(e) => Err(e),
                };
                let diff = match (&base_obs, &got) {
                    (Ok(a), Ok(b)) => obs_diff(a, b).map(|d| d.1),
                    (Err(a), Err(b)) => {
                        if a == b {
                            None
                        } else {
                            Some(format!("outcome {:?} vs {:?}", a, b))
                        }
                    }
                    (Ok(_), Err(b)) => Some(format!("standard layout fits, this layout gives {}", b)),
                    (Err(a), Ok(_)) => Some(format!("standard layout gives {}, this layout fits", a)),
                };
                if let Some(d) = diff {
                    v.push(Violation::new(
                        format!("{}.fit.layout_dependence", tag),
                        format!("fit on records in layout {:?} differs from the fit on the standard-layout records: {}", l, d),
                        cj(l, "fit"),
                    ));
                }
            }
            // (2) the reference model applied to records in every other layout
            if let (Ok(m), Ok(bo)) = (&base, &base_obs) {
                for l in VARIANTS {
                    cnt.layout_observations += 1;
                    let got = if l == Layout::FOwned { observe_any(m, &xt.f_owned, &xp.f_owned) } else { observe_any(m, &xt.view(l), &xp.view(l)) };
                    let diff = match &got {
                        Ok(o) => obs_diff(bo, o),
                        Err(e) => Some(("predict", e.clone())),
                    };
                    if let Some((what, d)) = diff {
                        let what = if what == "model" { "predict" } else { what };
                        v.push(Violation::new(
                            format!("{}.{}.layout_dependence", tag, what),
                            format!("model fitted on standard records, applied to the same records in layout {:?}: {}", l, d),
                            cj(l, what),
                        ));
                    }
                }
                // (3) weighted_sum of a single 1-D sample held in a strided / reversed buffer
                for (pi, row) in case.probes.iter().enumerate() {
                    cnt.layout_observations += 1;
                    let d = row.len();
                    let inter: Array1<F> = Array1::from_shape_fn(2 * d, |i| if i % 2 == 0 { F::cast(row[i / 2]) } else { F::nan() });
                    let rev: Array1<F> = Array1::from_shape_fn(d, |i| F::cast(row[d - 1 - i]));
                    let got = guarded(|| {
                        let a = inter.slice(s![..;2]);
                        let b = rev.slice(s![..;-1]);
                        match m {
                            Model::Bool(s) => (f64of(s.weighted_sum(&a)), f64of(s.weighted_sum(&b))),
                            Model::Pr(s) => (f64of(s.weighted_sum(&a)), f64of(s.weighted_sum(&b))),
                            Model::Reg(s) => (f64of(s.weighted_sum(&a)), f64of(s.weighted_sum(&b))),
                        }
                    });
                    let want = bo.ws_probe[pi];
                    let bad = match got {
                        Ok((a, b)) => {
                            if a.to_bits() != want.to_bits() || b.to_bits() != want.to_bits() {
                                Some(format!("weighted_sum(strided sample) = {}, weighted_sum(reversed-buffer sample) = {}, standard = {}", a, b, want))
                            } else {
                                None
                            }
                        }
                        Err(p) => Some(format!("panic: {}", p)),
                    };
                    if let Some(d) = bad {
                        v.push(Violation::new(format!("{}.weighted_sum.layout_dependence", tag), format!("new sample {}: {}", pi, d), cj(Layout::Strided, "weighted_sum_1d")));
                    }
                }
                // (4) predict_inplace into poisoned / reused buffers, single-sample predict
                let np = case.probes.len();
                let prev = xt.std.slice(s![..np, ..]).to_owned();
                let mut bad: Vec<String> = Vec::new();
                let r = guarded(|| {
                    let mut bad: Vec<String> = Vec::new();
                    let mut calls = 0u64;
                    match m {
                        Model::Bool(s) => {
                            for (x, want, what) in [(&xt.std, &bo.lab_train, "training"), (&xp.std, &bo.lab_probe, "new")] {
                                let mut buf: Array1<bool> = want.iter().map(|b| !*b).collect();
                                s.predict_inplace(x, &mut buf);
                                calls += 1;
                                if buf.to_vec() != *want {
                                    bad.push(format!("buffer pre-filled with the opposite labels ({} records): {:?} vs plain {:?}", what, buf.to_vec(), want));
                                }
                            }
                            let mut buf: Array1<bool> = s.default_target(&prev);
                            s.predict_inplace(&prev, &mut buf);
                            s.predict_inplace(&xp.std, &mut buf);
                            calls += 2;
                            if buf.to_vec() != bo.lab_probe {
                                bad.push(format!("buffer reused from another batch: {:?} vs plain {:?}", buf.to_vec(), bo.lab_probe));
                            }
                            for (i, row) in xp.std.outer_iter().enumerate() {
                                calls += 1;
                                let one: bool = s.predict(row);
                                if one != bo.lab_probe[i] {
                                    bad.push(format!("single-sample predict of new sample {}: {} vs batch {}", i, one, bo.lab_probe[i]));
                                }
                            }
                        }
                        Model::Pr(s) => {
                            for (x, want, what) in [(&xt.std, &bo.pr_train, "training"), (&xp.std, &bo.pr_probe, "new")] {
                                let mut buf: Array1<Pr> = Array1::from_elem(want.len(), Pr::new_unchecked(0.987_654_3));
                                s.predict_inplace(x, &mut buf);
                                calls += 1;
                                let got: Vec<f64> = buf.iter().map(|p| **p as f64).collect();
                                if !bits_eq(&got, want) {
                                    bad.push(format!("buffer pre-filled with a poison Pr ({} records): {}", what, first_diff(&got, want)));
                                }
                            }
                            let mut buf: Array1<Pr> = s.default_target(&prev);
                            s.predict_inplace(&prev, &mut buf);
                            s.predict_inplace(&xp.std, &mut buf);
                            calls += 2;
                            let got: Vec<f64> = buf.iter().map(|p| **p as f64).collect();
                            if !bits_eq(&got, &bo.pr_probe) {
                                bad.push(format!("buffer reused from another batch: {}", first_diff(&got, &bo.pr_probe)));
                            }
                            for (i, row) in xp.std.outer_iter().enumerate() {
                                calls += 1;
                                let one: Pr = s.predict(row);
                                if (*one as f64).to_bits() != bo.pr_probe[i].to_bits() {
                                    bad.push(format!("single-sample predict of new sample {}: {} vs batch {}", i, *one, bo.pr_probe[i]));
                                }
                            }
                        }
                        Model::Reg(s) => {
                            for (x, want, what) in [(&xt.std, &bo.val_train, "training"), (&xp.std, &bo.val_probe, "new")] {
                                let mut buf: Array1<F> = Array1::from_elem(want.len(), F::nan());
                                F::predict_inplace_reg(s, x, &mut buf);
                                calls += 1;
                                let got: Vec<f64> = buf.iter().map(|&p| f64of(p)).collect();
                                if !bits_eq(&got, want) {
                                    bad.push(format!("buffer pre-filled with NaN ({} records): {}", what, first_diff(&got, want)));
                                }
                            }
                            let mut buf: Array1<F> = Array1::from_elem(np, F::cast(-77.0));
                            F::predict_inplace_reg(s, &prev, &mut buf);
                            F::predict_inplace_reg(s, &xp.std, &mut buf);
                            calls += 2;
                            let got: Vec<f64> = buf.iter().map(|&p| f64of(p)).collect();
                            if !bits_eq(&got, &bo.val_probe) {
                                bad.push(format!("buffer reused from another batch: {}", first_diff(&got, &bo.val_probe)));
                            }
                            for (i, row) in xp.std.outer_iter().enumerate() {
                                calls += 2;
                                let a = f64of(F::predict_one(s, row));
                                let b = f64of(F::predict_one_owned(s, row.to_owned()));
                                if a.to_bits() != bo.val_probe[i].to_bits() || b.to_bits() != bo.val_probe[i].to_bits() {
                                    bad.push(format!("single-sample predict of new sample {}: view {} / owned {} vs batch {}", i, a, b, bo.val_probe[i]));
                                }
                            }
                        }
                    }
                    (bad, calls)
                });
                match r {
                    Ok((b, calls)) => {
                        bad.extend(b);
                        cnt.stale_buffer_calls += calls;
                    }
                    Err(p) => bad.push(format!("panic: {}", p)),
                }
                if !bad.is_empty() {
                    v.push(Violation::new(
                        format!("{}.predict_inplace.stale_buffer_or_calling_form_dependence", tag),
                        format!("{} calls differ from the plain batch predict; first: {}", bad.len(), bad[0]),
                        cj(Layout::Std, "predict_inplace"),
                    ));
                }
            }
        }
    }
    cnt
}
