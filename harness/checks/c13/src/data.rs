//! The finite catalogue of lattice-based datasets of C13 (DESIGN.md §4 C13, "E").
//! Everything is a deterministic function of (family, n); no RNG. Coordinates are small dyadic
//! rationals (exact in f32 and f64) unless the family is jittered with the constant jitter table.

use lvmc_core::enumerate::jitter;

#[derive(Clone, Debug)]
pub struct Data {
    pub id: String,
    pub kind: Kind,
    pub x: Vec<Vec<f64>>,
    pub labels: Vec<bool>,
    pub targets: Vec<f64>,
    pub probes: Vec<Vec<f64>>,
}

#[derive(Clone, Copy, Debug, PartialEq, Eq)]
pub enum Kind {
    Classification,
    Unlabelled,
    Regression,
}

fn ceil_sqrt(m: usize) -> usize {
    let mut s = 1;
    while s * s < m {
        s += 1;
    }
    s
}

fn lat(k: usize, side: usize) -> (usize, usize) {
    (k % side, k / side)
}

fn probes2() -> Vec<Vec<f64>> {
    vec![vec![0.25, 0.25], vec![1.3, 0.7], vec![-1.0, 2.0], vec![3.0, 3.0], vec![6.0, -5.0]]
}

fn probes1() -> Vec<Vec<f64>> {
    vec![vec![0.1], vec![1.33], vec![-1.0], vec![5.0]]
}

/// two lattice blocks with a gap, samples interleaved (+,-,+,-,...)
pub fn separable(n: usize) -> Data {
    let np = n / 2;
    let nn = n - np;
    let s = ceil_sqrt(np.max(nn));
    let shift = s as f64 * 0.5 + 1.0;
    let mut x = Vec::new();
    let mut labels = Vec::new();
    for k in 0..nn {
        if k < np {
            let (i, j) = lat(k, s);
            x.push(vec![i as f64 * 0.5, j as f64 * 0.5]);
            labels.push(true);
        }
        let (i, j) = lat(k, s);
        x.push(vec![i as f64 * 0.5 + shift, j as f64 * 0.5 + shift - 0.5]);
        labels.push(false);
    }
    Data { id: format!("separable_n{}", n), kind: Kind::Classification, x, labels, targets: vec![], probes: probes2() }
}

/// one lattice, labels by half-plane with lattice-periodic label noise, and n/4 conflicting
/// duplicates (the same point carrying both labels), each placed right after its original
pub fn overlapping(n: usize) -> Data {
    let nd = n / 4;
    let m = n - nd;
    let s = ceil_sqrt(m);
    let mut x = Vec::new();
    let mut labels = Vec::new();
    for k in 0..m {
        let (i, j) = lat(k, s);
        let p = vec![i as f64 * 0.5, j as f64 * 0.5];
        let l = (i >= (s + 1) / 2) ^ ((i + 2 * j) % 4 == 0);
        x.push(p.clone());
        labels.push(l);
        if k % 3 == 0 && k / 3 < nd {
            x.push(p);
            labels.push(!l);
        }
    }
    Data { id: format!("overlapping_n{}", n), kind: Kind::Classification, x, labels, targets: vec![], probes: probes2() }
}

/// roughly 1:4 positives, jittered lattice, positives displaced so that the classes overlap partly
pub fn imbalanced(n: usize) -> Data {
    let s = ceil_sqrt(n);
    let mut x = Vec::new();
    let mut labels = Vec::new();
    for k in 0..n {
        let (i, j) = lat(k, s);
        let pos = k % 5 == 2;
        let mut p = vec![i as f64 * 0.5 + jitter(k, 0), j as f64 * 0.5 + jitter(k, 1)];
        if pos {
            p[0] += 0.9;
            p[1] += 0.35;
        }
        x.push(p);
        labels.push(pos);
    }
    Data { id: format!("imbalanced_n{}", n), kind: Kind::Classification, x, labels, targets: vec![], probes: probes2() }
}

/// lattice cluster with two far outliers (unlabelled, for one-class)
pub fn cluster_outliers(n: usize) -> Data {
    let m = n - 2;
    let s = ceil_sqrt(m);
    let mut x = Vec::new();
    let mut k = 0;
    for pos in 0..n {
        if pos == 1 {
            x.push(vec![4.0, 4.5]);
        } else if pos == n / 2 {
            x.push(vec![-2.5, 3.0]);
        } else {
            let (i, j) = lat(k, s);
            x.push(vec![i as f64 * 0.5, j as f64 * 0.5]);
            k += 1;
        }
    }
    Data { id: format!("cluster_outliers_n{}", n), kind: Kind::Unlabelled, x, labels: vec![], targets: vec![], probes: probes2() }
}

/// jittered lattice in generic position (unlabelled)
pub fn generic_cloud(n: usize) -> Data {
    let s = ceil_sqrt(n);
    let mut x = Vec::new();
    for k in 0..n {
        let (i, j) = lat(k, s);
        x.push(vec![i as f64 * 0.75 + 4.0 * jitter(k, 0), j as f64 * 0.75 + 4.0 * jitter(k, 1)]);
    }
    Data { id: format!("generic_cloud_n{}", n), kind: Kind::Unlabelled, x, labels: vec![], targets: vec![], probes: probes2() }
}

/// 1-D grid in [0, 4) with a dyadic step, visited with stride 7 so that the sample order is mixed
fn grid1(n: usize) -> Vec<f64> {
    let mut p = 1;
    while p < n {
        p *= 2;
    }
    let step = 4.0 / p as f64;
    (0..n).map(|k| ((k * 7) % n) as f64 * step).collect()
}

pub fn line_exact(n: usize) -> Data {
    let g = grid1(n);
    let targets = g.iter().map(|&v| 0.5 * v + 0.25).collect();
    Data { id: format!("line_exact_n{}", n), kind: Kind::Regression, x: g.iter().map(|&v| vec![v]).collect(), labels: vec![], targets, probes: probes1() }
}

pub fn line_noisy(n: usize) -> Data {
    let g = grid1(n);
    let targets = g.iter().enumerate().map(|(k, &v)| 0.5 * v + 0.25 + 6.0 * jitter(k, 2)).collect();
    Data { id: format!("line_noisy_n{}", n), kind: Kind::Regression, x: g.iter().map(|&v| vec![v]).collect(), labels: vec![], targets, probes: probes1() }
}

pub fn curve(n: usize) -> Data {
    let g = grid1(n);
    let targets = g.iter().enumerate().map(|(k, &v)| (2.0 * v).sin() + 2.0 * jitter(k, 3)).collect();
    Data { id: format!("curve_n{}", n), kind: Kind::Regression, x: g.iter().map(|&v| vec![v]).collect(), labels: vec![], targets, probes: probes1() }
}

/// every abscissa twice with targets +-0.4 around a line (conflicting duplicates for regression)
pub fn dup_conflict(n: usize) -> Data {
    let g = grid1(n);
    let mut x = Vec::new();
    let mut targets = Vec::new();
    for k in 0..n {
        let v = g[k - k % 2];
        x.push(vec![v]);
        targets.push(0.25 * v + if k % 2 == 0 { 0.4 } else { -0.4 });
    }
    Data { id: format!("dup_conflict_n{}", n), kind: Kind::Regression, x, labels: vec![], targets, probes: probes1() }
}

/// `d`-dimensional points in generic position on a sub-unit scale (coordinates in [0, ~1.05]):
/// a lattice with pitch 0.125 plus jitter of +-0.025
fn hd_points(n: usize, d: usize) -> Vec<Vec<f64>> {
    let scale = 0.125;
    (0..n).map(|k| (0..d).map(|j| scale * (((k * (2 * j + 3) + j * j) % 9) as f64) + scale * 4.0 * jitter(k, j)).collect()).collect()
}

fn hd_probes(d: usize) -> Vec<Vec<f64>> {
    vec![vec![0.3; d], (0..d).map(|j| 0.125 * j as f64).collect(), (0..d).map(|j| if j % 2 == 0 { 1.2 } else { -0.4 }).collect(), vec![-2.0; d]]
}

/// classification in `d` features: label = alternating-sign coordinate sum above its median, every 7th label flipped
pub fn highdim_cls(n: usize, d: usize) -> Data {
    let x = hd_points(n, d);
    let score: Vec<f64> = x.iter().map(|r| r.iter().enumerate().map(|(j, v)| if j % 2 == 0 { *v } else { -*v }).sum()).collect();
    let mut sorted = score.clone();
    sorted.sort_by(|a, b| a.partial_cmp(b).unwrap());
    let med = (sorted[n / 2 - 1] + sorted[n / 2]) / 2.0;
    let labels = (0..n).map(|k| (score[k] > med) ^ (k % 7 == 3)).collect();
    Data { id: format!("highdim_cls_d{}_n{}", d, n), kind: Kind::Classification, x, labels, targets: vec![], probes: hd_probes(d) }
}

pub fn highdim_unl(n: usize, d: usize) -> Data {
    Data { id: format!("highdim_unl_d{}_n{}", d, n), kind: Kind::Unlabelled, x: hd_points(n, d), labels: vec![], targets: vec![], probes: hd_probes(d) }
}

pub fn highdim_reg(n: usize, d: usize) -> Data {
    let x = hd_points(n, d);
    let targets = x.iter().enumerate().map(|(k, r)| r.iter().enumerate().map(|(j, v)| ((j % 3) as f64 - 1.0) * 0.6 * v).sum::<f64>() + 3.0 * jitter(k + 17, 2)).collect();
    Data { id: format!("highdim_reg_d{}_n{}", d, n), kind: Kind::Regression, x, labels: vec![], targets, probes: hd_probes(d) }
}

/// one-feature classification: threshold on a sub-unit grid with every 5th label flipped
pub fn cls_1d(n: usize) -> Data {
    let g: Vec<f64> = grid1(n).iter().map(|v| v * 0.25).collect();
    let labels = g.iter().enumerate().map(|(k, &v)| (v > 0.3) ^ (k % 5 == 0)).collect();
    Data { id: format!("cls_1d_n{}", n), kind: Kind::Classification, x: g.iter().map(|&v| vec![v]).collect(), labels, targets: vec![], probes: vec![vec![0.05], vec![0.31], vec![-1.0], vec![2.0]] }
}

/// jittered lattice with exactly `npos` positives spread evenly over the sample order; positives displaced so that
/// the classes overlap partly (the mirror image of `imbalanced` when npos > n/2)
pub fn skewed(n: usize, npos: usize) -> Data {
    let s = ceil_sqrt(n);
    let mut x = Vec::new();
    let mut labels = Vec::new();
    for k in 0..n {
        let (i, j) = lat(k, s);
        let pos = (k * npos) / n != ((k + 1) * npos) / n;
        let mut p = vec![i as f64 * 0.5 + jitter(k, 0), j as f64 * 0.5 + jitter(k, 1)];
        if pos {
            p[0] += 0.9;
            p[1] += 0.35;
        }
        x.push(p);
        labels.push(pos);
    }
    Data { id: format!("skewed_pos{}_n{}", npos, n), kind: Kind::Classification, x, labels, targets: vec![], probes: probes2() }
}

pub fn catalogue(sizes: &[usize]) -> Vec<Data> {
    let mut out = Vec::new();
    for &n in sizes {
        out.push(separable(n));
        out.push(overlapping(n));
        out.push(imbalanced(n));
        out.push(cluster_outliers(n));
        out.push(generic_cloud(n));
        out.push(line_exact(n));
        out.push(line_noisy(n));
        out.push(curve(n));
        out.push(dup_conflict(n));
    }
    out
}
