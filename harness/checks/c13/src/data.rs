//! The finite catalogue of lattice-based datasets of C13 (DESIGN.md §4 C13, "E").
//! Everything is a deterministic function of (family, n); no RNG. Coordinates are small dyadic
//! rationals (exact in f32 and f64) unless the family is jittered with the constant jitter table.

use lvmc_core::enumerate::jitter;

#[derive(Clone, Debug)]
pub struct Data {
    pub id: String,
    pub kind: Kind,
    pub x: Vec<Vec<f64>>,
    pub labels: Vec<bool>,
    pub targets: Vec<f64>,
    pub probes: Vec<Vec<f64>>,
}

#[derive(Clone, Copy, Debug, PartialEq, Eq)]
pub enum Kind {
    Classification,
    Unlabelled,
    Regression,
}

fn ceil_sqrt(m: usize) -> usize {
    let mut s = 1;
    while s * s < m {
        s += 1;
    }
    s
}

fn lat(k: usize, side: usize) -> (usize, usize) {
    (k % side, k / side)
}

fn probes2() -> Vec<Vec<f64>> {
    vec![vec![0.25, 0.25], vec![1.3, 0.7], vec![-1.0, 2.0], vec![3.0, 3.0], vec![6.0, -5.0]]
}

fn probes1() -> Vec<Vec<f64>> {
    vec![vec![0.1], vec![1.33], vec![-1.0], vec![5.0]]
}

/// two lattice blocks with a gap, samples interleaved (+,-,+,-,...)
pub fn separable(n: usize) -> Data {
    let np = n / 2;
    let nn = n - np;
    let s = ceil_sqrt(np.max(nn));
    let shift = s as f64 * 0.5 + 1.0;
    let mut x = Vec::new();
    let mut labels = Vec::new();
    for k in 0..nn {
        if k < np {
            let (i, j) = lat(k, s);
            x.push(vec![i as f64 * 0.5, j as f64 * 0.5]);
            labels.push(true);
        }
        let (i, j) = lat(k, s);
        x.push(vec![i as f64 * 0.5 + shift, j as f64 * 0.5 + shift - 0.5]);
        labels.push(false);
    }
    Data { id: format!("separable_n{}", n), kind: Kind::Classification, x, labels, targets: vec![], probes: probes2() }
}

/// one lattice, labels by half-plane with lattice-periodic label noise, and n/4 conflicting
/// duplicates (the same point carrying both labels), each placed right after its original
pub fn overlapping(n: usize) -> Data {
    let nd = n / 4;
    let m = n - nd;
    let s = ceil_sqrt(m);
    let mut x = Vec::new();
    let mut labels = Vec::new();
    for k in 0..m {
        let (i, j) = lat(k, s);
        let p = vec![i as f64 * 0.5, j as f64 * 0.5];
        let l = (i >= (s + 1) / 2) ^ ((i + 2 * j) % 4 == 0);
        x.push(p.clone());
        labels.push(l);
        if k % 3 == 0 && k / 3 < nd {
            x.push(p);
            labels.push(!l);
        }
    }
    Data { id: format!("overlapping_n{}", n), kind: Kind::Classification, x, labels, targets: vec![], probes: probes2() }
}

/// roughly 1:4 positives, jittered lattice, positives displaced so that the classes overlap partly
pub fn imbalanced(n: usize) -> Data {
    let s = ceil_sqrt(n);
    let mut x = Vec::new();
    let mut labels = Vec::new();
    for k in 0..n {
        let (i, j) = lat(k, s);
        let pos = k % 5 == 2;
        let mut p = vec![i as f64 * 0.5 + jitter(k, 0), j as f64 * 0.5 + jitter(k, 1)];
        if pos {
            p[0] += 0.9;
            p[1] += 0.35;
        }
        x.push(p);
        labels.push(pos);
    }
    Data { id: format!("imbalanced_n{}", n), kind: Kind::Classification, x, labels, targets: vec![], probes: probes2() }
}

/// lattice cluster with two far outliers (unlabelled, for one-class)
pub fn cluster_outliers(n: usize) -> Data {
    let m = n - 2;
    let s = ceil_sqrt(m);
    let mut x = Vec::new();
    let mut k = 0;
    for pos in 0..n {
        if pos == 1 {
            x.push(vec![4.0, 4.5]);
        } else if pos == n / 2 {
            x.push(vec![-2.5, 3.0]);
        } else {
            let (i, j) = lat(k, s);
            x.push(vec![i as f64 * 0.5, j as f64 * 0.5]);
            k += 1;
        }
    }
    Data { id: format!("cluster_outliers_n{}", n), kind: Kind::Unlabelled, x, labels: vec![], targets: vec![], probes: probes2() }
}

/// jittered lattice in generic position (unlabelled)
pub fn generic_cloud(n: usize) -> Data {
    let s = ceil_sqrt(n);
    let mut x = Vec::new();
    for k in 0..n {
        let (i, j) = lat(k, s);
        x.push(vec![i as f64 * 0.75 + 4.0 * jitter(k, 0), j as f64 * 0.75 + 4.0 * jitter(k, 1)]);
    }
    Data { id: format!("generic_cloud_n{}", n), kind: Kind::Unlabelled, x, labels: vec![], targets: vec![], probes: probes2() }
}

/// 1-D grid in [0, 4) with a dyadic step, visited with stride 7 so that the sample order is mixed
fn grid1(n: usize) -> Vec<f64> {
    let mut p = 1;
    while p < n {
        p *= 2;
    }
    let step = 4.0 / p as f64;
    (0..n).map(|k| ((k * 7) % n) as f64 * step).collect()
}

pub fn line_exact(n: usize) -> Data {
    let g = grid1(n);
    let targets = g.iter().map(|&v| 0.5 * v + 0.25).collect();
    Data { id: format!("line_exact_n{}", n), kind: Kind::Regression, x: g.iter().map(|&v| vec![v]).collect(), labels: vec![], targets, probes: probes1() }
}

pub fn line_noisy(n: usize) -> Data {
    let g = grid1(n);
    let targets = g.iter().enumerate().map(|(k, &v)| 0.5 * v + 0.25 + 6.0 * jitter(k, 2)).collect();
    Data { id: format!("line_noisy_n{}", n), kind: Kind::Regression, x: g.iter().map(|&v| vec![v]).collect(), labels: vec![], targets, probes: probes1() }
}

pub fn curve(n: usize) -> Data {
    let g = grid1(n);
    let targets = g.iter().enumerate().map(|(k, &v)| (2.0 * v).sin() + 2.0 * jitter(k, 3)).collect();
    Data { id: format!("curve_n{}", n), kind: Kind::Regression, x: g.iter().map(|&v| vec![v]).collect(), labels: vec![], targets, probes: probes1() }
}

/// every abscissa twice with targets +-0.4 around a line (conflicting duplicates for regression)
pub fn dup_conflict(n: usize) -> Data {
    let g = grid1(n);
    let mut x = Vec::new();
    let mut targets = Vec::new();
    for k in 0..n {
        let v = g[k - k % 2];
        x.push(vec![v]);
        targets.push(0.25 * v + if k % 2 == 0 { 0.4 } else { -0.4 });
    }
    Data { id: format!("dup_conflict_n{}", n), kind: Kind::Regression, x, labels: vec![], targets, probes: probes1() }
}

pub fn catalogue(sizes: &[usize]) -> Vec<Data> {
    let mut out = Vec::new();
    for &n in sizes {
        out.push(separable(n));
        out.push(overlapping(n));
        out.push(imbalanced(n));
        out.push(cluster_outliers(n));
        out.push(generic_cloud(n));
        out.push(line_exact(n));
        out.push(line_noisy(n));
        out.push(curve(n));
        out.push(dup_conflict(n));
    }
    out
}
