//! Calling-form family of C13: every way of handing the same logical data to `fit` (checked /
//! unchecked parameters, owned / view datasets, targets as reversed or stepped views, counted
//! targets, targets produced by `map_targets` / `with_labels` / `into_single_target`, records with a
//! reversed feature axis) and to `predict` (&records, owned records, &dataset, owned dataset,
//! dataset view, one-row batches) must give results bit-identical to the plain form
//! `params.fit(&Dataset::new(records, targets))` / `model.predict(&records)`.
//! These forms route through the core crate's target conversions and blanket Fit / Predict impls.

use crate::layout::{obs_diff, observe_any, Model};
use crate::oracle::{Counters, Obs};
use crate::{f64of, to_arr, with_kernel, Case, Problem, SvmFloat};
use linfa::dataset::{CountedTargets, Dataset, DatasetBase, Pr};
use linfa::traits::{Fit, Predict};
use linfa::ParamGuard;
use linfa_svm::{Svm, SvmParams};
use lvmc_core::{guarded, json, Value, Violation};
use ndarray::{s, Array1, Array2, ArrayView1, ArrayView2};

/// regression `Fit` / `Predict` exist for the concrete float types only
pub trait RegForms: SvmFloat {
    fn fit_forms(p: &dyn Fn() -> SvmParams<Self, Self>, x: &Array2<Self>, xfrev: &Array2<Self>, y: &Array1<Self>) -> Vec<(&'static str, Result<Svm<Self, Self>, String>)>;
    fn predict_forms(m: &Svm<Self, Self>, x: &Array2<Self>, xfrev: &Array2<Self>) -> Vec<(String, Vec<f64>, Vec<usize>)>;
}

fn outcome<T>(r: Result<Result<T, linfa_svm::SvmError>, String>) -> Result<T, String> {
    match r {
        Ok(Ok(m)) => Ok(m),
        Ok(Err(e)) => Err(format!("Err({})", e)),
        Err(p) => Err(format!("panic: {}", p)),
    }
}

macro_rules! impl_reg_forms {
    ($t:ty) => {
        impl RegForms for $t {
            fn fit_forms(p: &dyn Fn() -> SvmParams<Self, Self>, x: &Array2<Self>, xfrev: &Array2<Self>, y: &Array1<Self>) -> Vec<(&'static str, Result<Svm<Self, Self>, String>)> {
                let n = y.len();
                let yrev: Array1<$t> = Array1::from_shape_fn(n, |i| y[n - 1 - i]);
                let yint: Array1<$t> = Array1::from_shape_fn(2 * n, |i| if i % 2 == 0 { y[i / 2] } else { <$t>::NAN });
                let y2: Array2<$t> = y.clone().insert_axis(ndarray::Axis(1));
                let mut out: Vec<(&'static str, Result<Svm<Self, Self>, String>)> = Vec::new();
                out.push(("plain", outcome(guarded(|| p().fit(&Dataset::new(x.clone(), y.clone()))))));
                out.push(("checked_params", outcome(guarded(|| p().check().unwrap().fit(&Dataset::new(x.clone(), y.clone()))))));
                out.push(("view_dataset", outcome(guarded(|| {
                    let ds: DatasetBase<ArrayView2<$t>, ArrayView1<$t>> = DatasetBase::new(x.view(), y.view());
                    p().fit(&ds)
                }))));
                out.push(("targets_reversed_view", outcome(guarded(|| {
                    let ds: DatasetBase<ArrayView2<$t>, ArrayView1<$t>> = DatasetBase::new(x.view(), yrev.slice(s![..;-1]));
                    p().fit(&ds)
                }))));
                out.push(("targets_stepped_view", outcome(guarded(|| {
                    let ds: DatasetBase<ArrayView2<$t>, ArrayView1<$t>> = DatasetBase::new(x.view(), yint.slice(s![..;2]));
                    p().fit(&ds)
                }))));
                out.push(("into_single_target", outcome(guarded(|| p().fit(&Dataset::new(x.clone(), y2.clone()).into_single_target())))));
                out.push(("map_targets", outcome(guarded(|| p().fit(&Dataset::new(x.clone(), y.mapv(|v| v * 2.0)).map_targets(|v| *v / 2.0))))));
                out.push(("reversed_feature_axis", outcome(guarded(|| {
                    let ds: DatasetBase<ArrayView2<$t>, ArrayView1<$t>> = DatasetBase::new(xfrev.slice(s![.., ..;-1]), y.view());
                    p().fit(&ds)
                }))));
                out
            }
            fn predict_forms(m: &Svm<Self, Self>, x: &Array2<Self>, xfrev: &Array2<Self>) -> Vec<(String, Vec<f64>, Vec<usize>)> {
                let n = x.nrows();
                let all: Vec<usize> = (0..n).collect();
                let dummy: Array1<$t> = Array1::zeros(n);
                let conv = |a: &Array1<$t>| -> Vec<f64> { a.iter().map(|&v| v as f64).collect() };
                let mut out: Vec<(String, Vec<f64>, Vec<usize>)> = Vec::new();
                let r: Array1<$t> = m.predict(&x.view());
                out.push(("ref_view_records".into(), conv(&r), all.clone()));
                let r: DatasetBase<Array2<$t>, Array1<$t>> = m.predict(x.clone());
                out.push(("owned_records".into(), conv(r.targets()), all.clone()));
                let r: DatasetBase<Array2<$t>, Array1<$t>> = m.predict(Dataset::new(x.clone(), dummy.clone()));
                out.push(("owned_dataset".into(), conv(r.targets()), all.clone()));
                let ds = Dataset::new(x.clone(), dummy.clone());
                let r: Array1<$t> = m.predict(&ds);
                out.push(("ref_dataset".into(), conv(&r), all.clone()));
                let r: DatasetBase<ArrayView2<$t>, Array1<$t>> = m.predict(ds.view());
                out.push(("dataset_view".into(), conv(r.targets()), all.clone()));
                let r: Array1<$t> = m.predict(&xfrev.slice(s![.., ..;-1]));
                out.push(("reversed_feature_axis".into(), conv(&r), all.clone()));
                for i in [0, n - 1] {
                    let one = x.slice(s![i..i + 1, ..]);
                    let r: Array1<$t> = m.predict(&one);
                    out.push((format!("one_row_view[{}]", i), conv(&r), vec![i]));
                    let r: DatasetBase<Array2<$t>, Array1<$t>> = m.predict(Dataset::new(one.to_owned(), Array1::<$t>::zeros(1)));
                    out.push((format!("one_row_owned_dataset[{}]", i), conv(r.targets()), vec![i]));
                }
                out
            }
        }
    };
}
impl_reg_forms!(f32);
impl_reg_forms!(f64);

fn cls_params<F: SvmFloat, T>(case: &Case, shrink: bool) -> SvmParams<F, T> {
    let p = with_kernel(Svm::<F, T>::params(), &case.kernel).eps(F::cast(case.eps)).shrinking(shrink);
    match case.problem {
        Problem::CSvc { c_pos, c_neg } => p.pos_neg_weights(F::cast(c_pos), F::cast(c_neg)),
        Problem::NuSvc { nu } | Problem::OneClass { nu } => p.nu_weight(F::cast(nu)),
        _ => unreachable!(),
    }
}

macro_rules! cls_fit_forms {
    ($t:ty, $wrap:expr, $case:expr, $shrink:expr, $x:expr, $xfrev:expr, $y:expr) => {{
        let (case, shrink, x, xfrev, y) = ($case, $shrink, $x, $xfrev, $y);
        let n = y.len();
        let p = || cls_params::<F, $t>(case, shrink);
        let yrev: Array1<bool> = Array1::from_shape_fn(n, |i| y[n - 1 - i]);
        let yint: Array1<bool> = Array1::from_shape_fn(2 * n, |i| if i % 2 == 0 { y[i / 2] } else { !y[i / 2] });
        let yi: Array1<usize> = y.mapv(|b| if b { 7 } else { 3 });
        let yirev: Array1<usize> = Array1::from_shape_fn(n, |i| yi[n - 1 - i]);
        let mut out: Vec<(&'static str, Result<Model<F>, String>)> = Vec::new();
        out.push(("plain", outcome(guarded(|| p().fit(&Dataset::new(x.clone(), y.clone())))).map($wrap)));
        out.push(("checked_params", outcome(guarded(|| p().check().unwrap().fit(&Dataset::new(x.clone(), y.clone())))).map($wrap)));
        out.push(("tuple_into_view_dataset", outcome(guarded(|| {
            let ds: DatasetBase<ArrayView2<F>, ArrayView1<bool>> = (x.view(), y.view()).into();
            p().fit(&ds)
        })).map($wrap)));
        out.push(("targets_reversed_view", outcome(guarded(|| {
            let ds: DatasetBase<ArrayView2<F>, ArrayView1<bool>> = DatasetBase::new(x.view(), yrev.slice(s![..;-1]));
            p().fit(&ds)
        })).map($wrap)));
        out.push(("targets_stepped_view", outcome(guarded(|| {
            let ds: DatasetBase<ArrayView2<F>, ArrayView1<bool>> = DatasetBase::new(x.view(), yint.slice(s![..;2]));
            p().fit(&ds)
        })).map($wrap)));
        out.push(("counted_targets_owned", outcome(guarded(|| p().fit(&DatasetBase::new(x.clone(), CountedTargets::new(y.clone()))))).map($wrap)));
        out.push(("counted_targets_view_records", outcome(guarded(|| p().fit(&DatasetBase::new(x.view(), CountedTargets::new(y.clone()))))).map($wrap)));
        out.push(("counted_targets_reversed_view", outcome(guarded(|| p().fit(&DatasetBase::new(x.view(), CountedTargets::new(yrev.slice(s![..;-1])))))).map($wrap)));
        out.push(("with_labels", outcome(guarded(|| p().fit(&Dataset::new(x.clone(), y.clone()).with_labels(&[true, false])))).map($wrap)));
        out.push(("with_labels_from_reversed_target_view", outcome(guarded(|| p().fit(&DatasetBase::new(x.view(), yrev.slice(s![..;-1])).with_labels(&[true, false])))).map($wrap)));
        out.push(("map_targets_from_int", outcome(guarded(|| p().fit(&Dataset::new(x.clone(), yi.clone()).map_targets(|v| *v > 6)))).map($wrap)));
        out.push(("map_targets_from_reversed_int_view", outcome(guarded(|| p().fit(&DatasetBase::new(x.clone(), yirev.slice(s![..;-1])).map_targets(|v| *v > 6)))).map($wrap)));
        out.push(("reversed_feature_axis", outcome(guarded(|| {
            let ds: DatasetBase<ArrayView2<F>, ArrayView1<bool>> = DatasetBase::new(xfrev.slice(s![.., ..;-1]), y.view());
            p().fit(&ds)
        })).map($wrap)));
        out
    }};
}

macro_rules! cls_predict_forms {
    ($m:expr, $t:ty, $conv:expr, $x:expr, $xfrev:expr) => {{
        let (m, x, xfrev) = ($m, $x, $xfrev);
        let n = x.nrows();
        let all: Vec<usize> = (0..n).collect();
        let dummy: Array1<bool> = Array1::from_elem(n, true);
        let conv = $conv;
        let mut out: Vec<(String, Vec<f64>, Vec<usize>)> = Vec::new();
        let r: Array1<$t> = m.predict(&x.view());
        out.push(("ref_view_records".into(), conv(&r), all.clone()));
        let r: DatasetBase<Array2<F>, Array1<$t>> = m.predict(x.clone());
        out.push(("owned_records".into(), conv(r.targets()), all.clone()));
        let r: DatasetBase<Array2<F>, Array1<$t>> = m.predict(Dataset::new(x.clone(), dummy.clone()));
        out.push(("owned_dataset".into(), conv(r.targets()), all.clone()));
        let ds = Dataset::new(x.clone(), dummy.clone());
        let r: Array1<$t> = m.predict(&ds);
        out.push(("ref_dataset".into(), conv(&r), all.clone()));
        let r: DatasetBase<ArrayView2<F>, Array1<$t>> = m.predict(ds.view());
        out.push(("dataset_view".into(), conv(r.targets()), all.clone()));
        let r: Array1<$t> = m.predict(&xfrev.slice(s![.., ..;-1]));
        out.push(("reversed_feature_axis".into(), conv(&r), all.clone()));
        for i in [0, n - 1] {
            let one = x.slice(s![i..i + 1, ..]);
            let r: Array1<$t> = m.predict(&one);
            out.push((format!("one_row_view[{}]", i), conv(&r), vec![i]));
            let r: DatasetBase<Array2<F>, Array1<$t>> = m.predict(Dataset::new(one.to_owned(), Array1::from_elem(1, false)));
            out.push((format!("one_row_owned_dataset[{}]", i), conv(r.targets()), vec![i]));
        }
        out
    }};
}

pub fn run_typed<F: RegForms>(case: &Case, v: &mut Vec<Violation>) -> Counters {
    let mut cnt = Counters::default();
    let x: Array2<F> = to_arr(&case.x);
    let xp: Array2<F> = to_arr(&case.probes);
    let (n, d) = (x.nrows(), x.ncols());
    let xfrev: Array2<F> = Array2::from_shape_fn((n, d), |(i, j)| x[(i, d - 1 - j)]);
    let tag = case.problem.tag();
    let classification = matches!(case.problem, Problem::CSvc { .. } | Problem::NuSvc { .. });
    for shrink in [false, true] {
        for pr in [false, true] {
            if pr && !classification {
                continue;
            }
            let cj = |form: &str, op: &str| -> Value {
                let mut c = serde_json::to_value(case).unwrap();
                c.as_object_mut().unwrap().insert("at".into(), json!({"shrinking": shrink, "calibrated": pr, "form": form, "op": op}));
                c
            };
            // ---------------- fit forms ----------------
            let fits: Vec<(&'static str, Result<Model<F>, String>)> = match &case.problem {
                Problem::CSvc { .. } | Problem::NuSvc { .. } => {
                    let y = Array1::from(case.labels.clone());
                    if pr {
                        cls_fit_forms!(Pr, Model::Pr, case, shrink, &x, &xfrev, &y)
                    } else {
                        cls_fit_forms!(bool, Model::Bool, case, shrink, &x, &xfrev, &y)
                    }
                }
                Problem::OneClass { .. } => {
                    let p = || cls_params::<F, Pr>(case, shrink);
                    let unit: Array1<()> = Array1::from_elem(n, ());
                    let unit2: Array2<()> = Array2::from_elem((n, 1), ());
                    vec![
                        ("plain", outcome(guarded(|| p().fit(&Dataset::from(x.clone())))).map(Model::Bool)),
                        ("checked_params", outcome(guarded(|| p().check().unwrap().fit(&Dataset::from(x.clone())))).map(Model::Bool)),
                        ("view_dataset", outcome(guarded(|| p().fit(&DatasetBase::new(x.view(), unit.view())))).map(Model::Bool)),
                        ("two_dimensional_unit_targets", outcome(guarded(|| p().fit(&DatasetBase::new(x.clone(), unit2.clone())))).map(Model::Bool)),
                        ("counted_unit_targets", outcome(guarded(|| p().fit(&DatasetBase::new(x.clone(), CountedTargets::new(unit.clone()))))).map(Model::Bool)),
                        ("reversed_feature_axis", outcome(guarded(|| p().fit(&DatasetBase::new(xfrev.slice(s![.., ..;-1]), unit.view())))).map(Model::Bool)),
                    ]
                }
                Problem::EpsSvr { .. } | Problem::NuSvr { .. } => {
                    let y: Array1<F> = case.targets.iter().map(|&t| F::cast(t)).collect();
                    let p = || {
                        let p = with_kernel(Svm::<F, F>::params(), &case.kernel).eps(F::cast(case.eps)).shrinking(shrink);
                        match case.problem {
                            Problem::EpsSvr { c, eps_loss } => p.c_svr(F::cast(c), Some(F::cast(eps_loss))),
                            Problem::NuSvr { nu, c } => p.nu_svr(F::cast(nu), Some(F::cast(c))),
                            _ => unreachable!(),
                        }
                    };
                    F::fit_forms(&p, &x, &xfrev, &y).into_iter().map(|(k, r)| (k, r.map(Model::Reg))).collect()
                }
            };
            let obs = |m: &Result<Model<F>, String>| -> Result<Obs, String> {
                match m {
                    Ok(m) => observe_any(m, &x, &xp),
                    Err(e) => Err(e.clone()),
                }
            };
            let base_obs = obs(&fits[0].1);
            cnt.fits += fits.len() as u64;
            cnt.form_fits += fits.len() as u64;
            if base_obs.is_ok() {
                cnt.nontrivial += fits.len() as u64;
            }
            for (form, m) in fits.iter().skip(1) {
                let got = obs(m);
                let diff = match (&base_obs, &got) {
                    (Ok(a), Ok(b)) => obs_diff(a, b).map(|d| d.1),
                    (Err(a), Err(b)) => {
                        if a == b {
                            None
                        } else {
                            Some(format!("outcome {:?} vs {:?}", a, b))
                        }
                    }
                    (Ok(_), Err(b)) => Some(format!("the plain form fits, this form gives {}", b)),
                    (Err(a), Ok(_)) => Some(format!("the plain form gives {}, this form fits", a)),
                };
                if let Some(dd) = diff {
                    // closed form: the targets reach fit in a non-contiguous layout (a reversed / stepped view, or the
                    // owned array `map_targets` derives from one) and fit panics in `as_slice().unwrap()`
                    let strided_targets = ["targets_reversed_view", "targets_stepped_view", "counted_targets_reversed_view", "map_targets_from_reversed_int_view"].contains(form);
                    let sig = if strided_targets && dd.contains("panic: called `Option::unwrap()` on a `None` value") {
                        format!("{}.fit.panics_on_non_contiguous_targets", tag)
                    } else {
                        format!("{}.fit.calling_form_dependence", tag)
                    };
                    v.push(Violation::new(sig, format!("fit through form {:?} differs from params.fit(&Dataset::new(records, targets)): {}", form, dd), cj(form, "fit")));
                }
            }
            // ---------------- predict forms ----------------
            if let (Ok(m), Ok(bo)) = (&fits[0].1, &base_obs) {
                let r = guarded(|| -> (Vec<(String, Vec<f64>, Vec<usize>)>, Vec<f64>) {
                    match m {
                        Model::Bool(s) => (cls_predict_forms!(s, bool, |a: &Array1<bool>| a.iter().map(|&b| if b { 1.0 } else { 0.0 }).collect::<Vec<f64>>(), &x, &xfrev), bo.lab_train.iter().map(|&b| if b { 1.0 } else { 0.0 }).collect()),
                        Model::Pr(s) => (cls_predict_forms!(s, Pr, |a: &Array1<Pr>| a.iter().map(|p| **p as f64).collect::<Vec<f64>>(), &x, &xfrev), bo.pr_train.clone()),
                        Model::Reg(s) => (F::predict_forms(s, &x, &xfrev), bo.val_train.clone()),
                    }
                });
                match r {
                    Ok((forms, want)) => {
                        for (form, got, idx) in forms {
                            cnt.form_predicts += 1;
                            let w: Vec<f64> = idx.iter().map(|&i| want[i]).collect();
                            if got.len() != w.len() || got.iter().zip(&w).any(|(a, b)| a.to_bits() != b.to_bits()) {
                                v.push(Violation::new(
                                    format!("{}.predict.calling_form_dependence", tag),
                                    format!("predict through form {:?} gives {:?}, model.predict(&records) gives {:?} for the same rows", form, got, w),
                                    cj(&form, "predict"),
                                ));
                            }
                        }
                    }
                    Err(p) => v.push(Violation::new(format!("{}.predict.calling_form_dependence", tag), format!("a predict calling form panicked: {}", p), cj("?", "predict"))),
                }
            }
        }
    }
    let _ = f64of(F::zero());
    cnt
}
