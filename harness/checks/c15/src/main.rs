//! C15 — incremental fitting replays to the same model as batch fitting / its recurrence.
//! Explicit-state exploration (DESIGN.md §4 C15) of batch histories of the four incremental
//! learners of linfa: Gaussian / multinomial naive Bayes (every composition of the rows of a
//! dataset into ordered non-empty batches), mini-batch k-means and FTRL (every batch sequence up
//! to a length bound from a pool of tiny batches). Every transition is one real `fit_with` call,
//! stepped in lock-step with an own reference (textbook estimates / running-mean recurrence /
//! per-coordinate FTRL-proximal recurrence) written with plain Vec<f64> loops.

mod common;
mod ftrl;
mod harden;
mod km;
mod nb;

use common::Out;
use ftrl::FtrlCase;
use harden::HCase;
use km::KmCase;
use lvmc_core::enumerate as en;
use lvmc_core::{json, par_sweep, Ctx, Level, Value, Violation};
use nb::NbCase;
use serde::{Deserialize, Serialize};
use std::collections::BTreeMap;
use std::sync::atomic::{AtomicU64, Ordering};
use std::sync::Mutex;

#[derive(Clone, Debug, Serialize, Deserialize)]
#[serde(tag = "family")]
enum Case {
    #[serde(rename = "nb")]
    Nb(NbCase),
    #[serde(rename = "kmeans")]
    Km(KmCase),
    #[serde(rename = "ftrl")]
    Ftrl(FtrlCase),
    #[serde(rename = "harden")]
    Harden(HCase),
}

fn run_case(c: &Case, out: &mut Out) {
    match c {
        Case::Nb(c) => nb::run_nb(c, out),
        Case::Km(c) => km::run_km(c, out),
        Case::Ftrl(c) => ftrl::run_ftrl(c, out),
        Case::Harden(c) => harden::run_h(c, out),
    }
}

fn replay_value(v: &Value) -> Vec<Violation> {
    let c: Case = match serde_json::from_value(v.clone()) {
        Ok(c) => c,
        Err(e) => {
            println!("MACHINERY-ERROR replay case does not parse: {}", e);
            std::process::exit(2);
        }
    };
    let mut out = Out::default();
    run_case(&c, &mut out);
    // keep what belongs to the recorded history and operation
    let hist = v.get("only_history").cloned();
    let op = v.get("at").and_then(|a| a.get("op")).cloned();
    let query = v.get("at").and_then(|a| a.get("query")).cloned();
    out.viols
        .into_iter()
        .filter(|x| {
            (hist.is_none() || x.case.get("only_history").cloned() == hist)
                && (op.is_none() || x.case.get("at").and_then(|a| a.get("op")).cloned() == op)
                && (query.is_none() || x.case.get("at").and_then(|a| a.get("query")).cloned() == query)
        })
        .collect()
}

// ------------------------------------------------------------------------------------------------
// enumeration
// ------------------------------------------------------------------------------------------------

/// One naive-Bayes work item: a multiset of (feature vector, label) symbols; expanded inside the
/// sweep into row orders x model kinds x smoothing values.
struct NbItem {
    p: usize,
    symbols: Vec<usize>,
}

/// symbol -> (x, y); symbols are numbered label-major, so a sorted multiset is sorted by label
fn symbol(p: usize, s: usize) -> (Vec<f64>, usize) {
    let nx = 4usize.pow(p as u32);
    let y = s / nx;
    let mut r = s % nx;
    let mut x = vec![0.0; p];
    for j in (0..p).rev() {
        x[j] = (r % 4) as f64;
        r /= 4;
    }
    (x, y)
}

fn row_orders(rows: &[(Vec<f64>, usize)], n_orders: usize) -> Vec<Vec<(Vec<f64>, usize)>> {
    let mut out: Vec<Vec<(Vec<f64>, usize)>> = vec![rows.to_vec()];
    if n_orders >= 2 {
        // feature-major: classes interleave
        let mut r = rows.to_vec();
        r.sort_by(|a, b| a.0.partial_cmp(&b.0).unwrap().then(a.1.cmp(&b.1)));
        out.push(r);
    }
    if n_orders >= 3 {
        // riffle of the label-major order: first, last, second, last but one, ...
        let n = rows.len();
        let mut r = Vec::new();
        let (mut lo, mut hi) = (0usize, n);
        while lo < hi {
            r.push(rows[lo].clone());
            lo += 1;
            if lo < hi {
                hi -= 1;
                r.push(rows[hi].clone());
            }
        }
        out.push(r);
    }
    let mut ded: Vec<Vec<(Vec<f64>, usize)>> = Vec::new();
    for o in out {
        if !ded.contains(&o) {
            ded.push(o);
        }
    }
    ded
}

const GNB_SMOOTHING: [f64; 3] = [0.0, 1e-9, 1e-3];
const MNB_ALPHA: [f64; 3] = [0.0, 0.5, 1.0];

fn nb_cases_of(item: &NbItem, n_orders: usize) -> Vec<NbCase> {
    let rows: Vec<(Vec<f64>, usize)> = item.symbols.iter().map(|&s| symbol(item.p, s)).collect();
    let mut out = Vec::new();
    for o in row_orders(&rows, n_orders) {
        let x: Vec<Vec<f64>> = o.iter().map(|r| r.0.clone()).collect();
        let y: Vec<usize> = o.iter().map(|r| r.1).collect();
        for s in GNB_SMOOTHING {
            out.push(NbCase { kind: "gaussian".into(), x: x.clone(), y: y.clone(), smoothing: s, only_history: None });
        }
        for s in MNB_ALPHA {
            out.push(NbCase { kind: "multinomial".into(), x: x.clone(), y: y.clone(), smoothing: s, only_history: None });
        }
    }
    out
}

fn km_cases(max_len: usize) -> Vec<KmCase> {
    let j = |i: usize, k: usize| en::jitter(i, k);
    let lattice2: Vec<Vec<Vec<f64>>> = vec![
        vec![vec![0.0, 0.0], vec![2.0, 0.0]],
        vec![vec![4.0, 4.0], vec![4.0, 2.0], vec![2.0, 4.0]],
        vec![vec![1.0, 1.0]],
        vec![vec![2.0, 2.0], vec![2.0, 2.0], vec![6.0, 0.0], vec![0.0, 0.0]],
    ];
    let mut cnt = 0usize;
    let generic2: Vec<Vec<Vec<f64>>> = lattice2
        .iter()
        .map(|b| {
            b.iter()
                .map(|r| {
                    cnt += 1;
                    r.iter().enumerate().map(|(c, v)| v + j(cnt, c)).collect()
                })
                .collect()
        })
        .collect();
    let line1: Vec<Vec<Vec<f64>>> = vec![
        vec![vec![0.0], vec![1.0]],
        vec![vec![5.0], vec![6.0], vec![7.0]],
        vec![vec![3.0]],
        vec![vec![0.0], vec![10.0], vec![10.0], vec![3.0]],
    ];
    let cube3: Vec<Vec<Vec<f64>>> = vec![
        vec![vec![0.0, 0.0, 0.0], vec![1.0, 1.0, 1.0]],
        vec![vec![5.0, 5.0, 0.0]],
        vec![vec![1.0, 0.0, 0.0], vec![0.0, 1.0, 0.0], vec![0.0, 0.0, 1.0]],
        vec![vec![4.0, 4.0, 4.0], vec![4.0, 4.0, 5.0]],
    ];
    // the first pool also exercises a tolerance that the very first shift hits exactly (2.0)
    let pools: Vec<(&str, Vec<Vec<Vec<f64>>>, Vec<Vec<Vec<f64>>>)> = vec![
        (
            "lattice2d",
            lattice2,
            vec![
                vec![vec![0.0, 0.0], vec![4.0, 4.0], vec![6.0, 0.0]],
                vec![vec![1.0, 1.0], vec![1.0, 1.0], vec![3.0, 3.0]],
                vec![vec![2.0, 1.0], vec![3.0, 3.0], vec![0.0, 2.0]],
            ],
        ),
        (
            "generic2d",
            generic2,
            vec![
                vec![vec![0.1, -0.2], vec![4.2, 3.9], vec![6.3, 0.4]],
                vec![vec![1.0, 1.0], vec![1.0, 1.0], vec![3.0, 3.0]],
            ],
        ),
        ("line1d", line1, vec![vec![vec![0.0], vec![6.0], vec![10.0]], vec![vec![3.0], vec![3.0], vec![8.0]], vec![vec![-1.0], vec![1.0], vec![4.0]]]),
        ("cube3d", cube3, vec![vec![vec![0.0, 0.0, 0.0], vec![4.0, 4.0, 4.0], vec![1.0, 0.0, 0.0]]]),
    ];
    // tolerances below and above 1: tolerance and tolerance^2 straddle many observed shifts
    let tolerances = vec![1e-4, 0.5, 1.0, 2.0, 3.0, 100.0];
    let mut out = Vec::new();
    for metric in ["L2", "L1", "Linf", "Lp3"] {
    for (name, pool, inits) in &pools {
        for k in 1..=3usize {
            for ic in inits {
                out.push(KmCase {
                    pool_name: name.to_string(),
                    metric: metric.to_string(),
                    pool: pool.clone(),
                    k,
                    init: "precomputed".into(),
                    init_centroids: ic[..k].to_vec(),
                    seed: 0,
                    n_runs: 1,
                    tolerances: tolerances.clone(),
                    max_len,
                    replicate: vec![],
                    only_history: None,
                });
            }
            for init in ["kmeans++", "random"] {
                for (seed, n_runs) in [(42u64, 1usize), (7, 3), (1234567, 10)] {
                    out.push(KmCase {
                        pool_name: name.to_string(),
                        metric: metric.to_string(),
                        pool: pool.clone(),
                        k,
                        init: init.into(),
                        init_centroids: vec![],
                        seed,
                        n_runs,
                        tolerances: tolerances.clone(),
                        max_len,
                        replicate: vec![],
                        only_history: None,
                    });
                }
            }
        }
    }
    }
    // ---- replicated large-batch family: one fit_with batch of 1024 / 1025 / 2500 rows built
    // from four distinct points (cyclic or block layout), followed / preceded by a small batch;
    // every sequence of length <= 2 over {large, small} ----
    let pts = vec![vec![0.0, 0.0], vec![1.0, 0.0], vec![5.0, 5.0], vec![6.0, 4.0]];
    let small = vec![vec![2.0, 2.5], vec![7.0, 7.0], vec![0.5, 0.25]];
    let init2 = vec![vec![0.5, 0.25], vec![5.0, 4.0]];
    for metric in ["L2", "L1"] {
        for n in [1024usize, 1025, 2500, 4097] {
            for layout in ["cyclic", "blocks"] {
                for k in 1..=2usize {
                    for (init, seed, n_runs) in [("precomputed", 0u64, 1usize), ("kmeans++", 42, 1), ("random", 7, 3)] {
                        out.push(KmCase {
                            pool_name: format!("large_{}_{}", n, layout),
                            metric: metric.to_string(),
                            pool: vec![pts.clone(), small.clone()],
                            k,
                            init: init.into(),
                            init_centroids: if init == "precomputed" { init2[..k].to_vec() } else { vec![] },
                            seed,
                            n_runs,
                            tolerances: vec![1e-4, 1.0, 100.0],
                            max_len: 2,
                            replicate: vec![km::Replicate { batch: 0, n, layout: layout.into() }],
                            only_history: None,
                        });
                    }
                }
            }
        }
    }
    out
}

/// every assignment of the five layouts to the batches of a history of length l
fn layout_assignments(l: usize) -> Vec<Vec<usize>> {
    en::sequences(l, harden::NLAY)
}

fn harden_cases(thorough: bool) -> Vec<HCase> {
    let mut out = Vec::new();
    let floats = ["f64", "f32"];
    // ---------------- naive Bayes ----------------
    let d1x: Vec<Vec<f64>> = vec![vec![0.0, 1.0], vec![1.0, 3.0], vec![2.0, 0.0], vec![3.0, 2.0], vec![1.0, 1.0], vec![0.0, 3.0], vec![2.0, 2.0], vec![3.0, 0.0]];
    let d1y: Vec<usize> = vec![0, 1, 2, 0, 1, 2, 0, 1];
    let d2x: Vec<Vec<f64>> = vec![vec![0.0], vec![2.0], vec![1.0], vec![3.0], vec![3.0], vec![0.0], vec![1.0]];
    let d2y: Vec<usize> = vec![0, 0, 1, 1, 0, 1, 0];
    let q2: Vec<Vec<f64>> = vec![vec![0.0, 0.0], vec![1.0, 2.0], vec![3.0, 3.0], vec![2.0, 1.0], vec![0.0, 3.0], vec![3.0, 1.0]];
    let q1: Vec<Vec<f64>> = vec![vec![0.0], vec![1.0], vec![2.0], vec![3.0]];
    let split = |x: &Vec<Vec<f64>>, y: &Vec<usize>, comp: &[usize]| -> (Vec<Vec<Vec<f64>>>, Vec<Vec<usize>>) {
        let mut bx = Vec::new();
        let mut by = Vec::new();
        let mut j = 0;
        for &s in comp {
            bx.push(x[j..j + s].to_vec());
            by.push(y[j..j + s].to_vec());
            j += s;
        }
        (bx, by)
    };
    let nb_models: Vec<(&str, f64, bool)> = vec![("gaussian", 0.0, true), ("gaussian", 1e-9, false), ("gaussian", 1e-3, true), ("multinomial", 0.5, true), ("multinomial", 1.0, false)];
    for (x, y, q, comps) in [
        (&d1x, &d1y, &q2, vec![vec![8usize], vec![3, 5], vec![1, 2, 5], vec![4, 1, 3]]),
        (&d2x, &d2y, &q1, vec![vec![7usize], vec![2, 5], vec![1, 1, 5]]),
    ] {
        for comp in &comps {
            let (bx, by) = split(x, y, comp);
            for la in layout_assignments(comp.len()) {
                for (model, sm, with_f32) in &nb_models {
                    for fl in floats {
                        if fl == "f32" && !*with_f32 {
                            continue;
                        }
                        out.push(HCase { sub: "nb".into(), float: fl.into(), model: model.to_string(), batches: bx.clone(), labels: by.clone(), rows: vec![0; comp.len()], layouts: la.clone(), hyper: vec![*sm], init: vec![], queries: q.clone(), forms: vec![] });
                    }
                }
            }
        }
    }
    // large replicated batches: 1025 (quick) / 1025 and 4097 (thorough) rows, uniform layouts
    let big_ns: Vec<usize> = if thorough { vec![1025, 4097] } else { vec![1025] };
    for &n in &big_ns {
        for rows in [vec![n], vec![1024, n - 1024], vec![1, n - 1]] {
            let bx: Vec<Vec<Vec<f64>>> = rows.iter().map(|_| d1x.clone()).collect();
            let by: Vec<Vec<usize>> = rows.iter().map(|_| d1y.clone()).collect();
            for lay in 0..harden::NLAY {
                for (model, sm) in [("gaussian", 0.0), ("gaussian", 1e-3), ("multinomial", 1.0)] {
                    out.push(HCase { sub: "nb".into(), float: "f64".into(), model: model.into(), batches: bx.clone(), labels: by.clone(), rows: rows.clone(), layouts: vec![lay; rows.len()], hyper: vec![sm], init: vec![], queries: q2.clone(), forms: vec![] });
                }
            }
        }
    }
    // ---------------- mini-batch k-means ----------------
    let kpool: Vec<Vec<Vec<f64>>> = vec![
        vec![vec![0.1, -0.2], vec![2.05, 0.1]],
        vec![vec![4.2, 3.9], vec![4.1, 2.2], vec![2.3, 4.05]],
        vec![vec![1.07, 0.93]],
        vec![vec![2.1, 2.2], vec![2.15, 2.25], vec![6.3, 0.2], vec![0.05, 0.1]],
    ];
    let kinit: Vec<Vec<f64>> = vec![vec![0.3, 0.1], vec![4.0, 4.1], vec![6.2, 0.3]];
    let kq: Vec<Vec<f64>> = vec![vec![0.0, 0.0], vec![4.0, 4.0], vec![6.0, 0.0], vec![2.0, 1.0], vec![5.0, 2.5], vec![-1.0, 3.0], vec![3.3, 3.1]];
    let klen = if thorough { 3 } else { 2 };
    for len in 1..=klen {
        for seq in en::sequences(len, 4) {
            for la in layout_assignments(len) {
                for k in [2usize, 3] {
                    for (metric, fl) in [("L2", "f64"), ("L1", "f64"), ("L2", "f32")] {
                        out.push(HCase {
                            sub: "kmeans".into(),
                            float: fl.into(),
                            model: metric.into(),
                            batches: seq.iter().map(|&b| kpool[b].clone()).collect(),
                            labels: vec![],
                            rows: vec![0; len],
                            layouts: la.clone(),
                            hyper: vec![k as f64, 0.5],
                            init: kinit[..k].to_vec(),
                            queries: kq.clone(),
                            forms: vec![],
                        });
                    }
                }
            }
        }
    }
    for &n in &big_ns {
        for lay in 0..harden::NLAY {
            for k in [1usize, 2] {
                for order in [vec![3usize, 1], vec![1, 3]] {
                    let rows: Vec<usize> = order.iter().map(|&b| if b == 3 { n } else { 0 }).collect();
                    out.push(HCase {
                        sub: "kmeans".into(),
                        float: "f64".into(),
                        model: "L2".into(),
                        batches: order.iter().map(|&b| kpool[b].clone()).collect(),
                        labels: vec![],
                        rows,
                        layouts: vec![lay; 2],
                        hyper: vec![k as f64, 0.5],
                        init: kinit[..k].to_vec(),
                        queries: kq.clone(),
                            forms: vec![],
                    });
                }
            }
        }
    }
    // ---------------- FTRL ----------------
    let fx: Vec<Vec<Vec<f64>>> = vec![
        vec![vec![1.0, 0.0, 0.0], vec![0.0, 1.0, 0.0]],
        vec![vec![1.0, 1.0, 1.0]],
        vec![vec![2.0, 0.0, 1.0], vec![0.0, 0.0, 0.0], vec![1.0, 3.0, 0.0]],
        vec![vec![0.0, 2.0, 0.0], vec![1.0, 1.0, 0.0]],
        vec![vec![2.0, 0.0, 1.0], vec![1.0, 3.0, 0.0], vec![0.0, 1.0, 1.0], vec![1.0, 0.0, 2.0], vec![3.0, 1.0, 1.0]],
    ];
    let fy: Vec<Vec<usize>> = vec![vec![1, 0], vec![1], vec![0, 0, 1], vec![0, 1], vec![0, 1, 0, 1, 1]];
    let fq: Vec<Vec<f64>> = vec![vec![0.0, 0.0, 0.0], vec![1.0, 0.0, 2.0], vec![0.5, 1.5, 0.0], vec![3.0, 3.0, 3.0], vec![0.0, 1.0, 0.0]];
    let hypers: Vec<(Vec<f64>, bool)> = vec![(vec![0.5, 1.0, 0.5, 0.5], true), (vec![0.005, 0.0, 0.5, 0.5], false), (vec![1.0, 1.0, 0.0, 1.0], true)];
    for len in 1..=klen {
        for seq in en::sequences(len, 4) {
            for la in layout_assignments(len) {
                for (hy, with_f32) in &hypers {
                    for fl in floats {
                        if fl == "f32" && !*with_f32 {
                            continue;
                        }
                        out.push(HCase {
                            sub: "ftrl".into(),
                            float: fl.into(),
                            model: "ftrl".into(),
                            batches: seq.iter().map(|&b| fx[b].clone()).collect(),
                            labels: seq.iter().map(|&b| fy[b].clone()).collect(),
                            rows: vec![0; len],
                            layouts: la.clone(),
                            hyper: hy.clone(),
                            init: vec![],
                            queries: fq.clone(),
                            forms: vec![],
                        });
                    }
                }
            }
        }
    }
    for &n in &big_ns {
        for lay in 0..harden::NLAY {
            for (hy, _) in &hypers[..2] {
                // batch 4 (every row non-zero, so that no row of a large batch is gradient-neutral)
                // is the one that is blown up to n rows
                for order in [vec![4usize, 0], vec![3, 4]] {
                    let rows: Vec<usize> = order.iter().map(|&b| if b == 4 { n } else { 0 }).collect();
                    out.push(HCase {
                        sub: "ftrl".into(),
                        float: "f64".into(),
                        model: "ftrl".into(),
                        batches: order.iter().map(|&b| fx[b].clone()).collect(),
                        labels: order.iter().map(|&b| fy[b].clone()).collect(),
                        rows,
                        layouts: vec![lay; 2],
                        hyper: hy.clone(),
                        init: vec![],
                        queries: fq.clone(),
                            forms: vec![],
                    });
                }
            }
        }
    }
    // ---------------- k-means through every linfa-nn metric: feature counts, sub-unit scales ----------------
    let gen = |i: usize, j: usize, scale: f64| -> f64 { ((((i * 7 + j * 3 + i * j) % 5) as f64) + en::jitter(i, j)) * scale };
    for d in [1usize, 4, 5, 6, 7, 9] {
        for scale in [1.0, 0.125] {
            let row = |i: usize| -> Vec<f64> { (0..d).map(|j| gen(i, j, scale)).collect() };
            let b0: Vec<Vec<f64>> = (0..4).map(row).collect();
            let b1: Vec<Vec<f64>> = (4..7).map(row).collect();
            let b2: Vec<Vec<f64>> = vec![row(7)];
            let init: Vec<Vec<f64>> = vec![row(8), row(9)];
            let qs: Vec<Vec<f64>> = (10..16).map(row).collect();
            for (metric, fl) in [("L2", "f64"), ("L1", "f64"), ("Linf", "f64"), ("Lp3", "f64"), ("L2", "f32"), ("Linf", "f32")] {
                if fl == "f32" && scale != 1.0 {
                    continue;
                }
                for lay in 0..harden::NLAY {
                    out.push(HCase {
                        sub: "kmeans".into(),
                        float: fl.into(),
                        model: metric.into(),
                        batches: vec![b0.clone(), b1.clone(), b2.clone()],
                        labels: vec![],
                        rows: vec![0; 3],
                        layouts: vec![lay; 3],
                        hyper: vec![2.0, 0.5 * scale],
                        init: init.clone(),
                        queries: qs.clone(),
                        forms: vec![],
                    });
                }
            }
        }
    }
    // ---------------- core-crate routing: calling forms of fit / fit_with, target layouts, helpers ----------------
    let flen = if thorough { 3 } else { 2 };
    // third labelling: later batches lack a class the model already knows
    let d3y: Vec<usize> = vec![0, 1, 2, 2, 1, 0, 0, 1];
    for (x, y, comps) in [
        (&d1x, &d1y, vec![vec![8usize], vec![3, 5], vec![1, 2, 5]]),
        (&d2x, &d2y, vec![vec![7usize], vec![2, 5], vec![1, 1, 5]]),
        (&d1x, &d3y, vec![vec![4usize, 4], vec![3, 2, 3]]),
    ] {
        for comp in comps.iter().filter(|c| c.len() <= flen) {
            let (bx, by) = split(x, y, comp);
            for fa in en::sequences(comp.len(), harden::NFORMS) {
                for (model, sm) in [("gaussian", 0.0), ("gaussian", 1e-3), ("multinomial", 1.0)] {
                    out.push(HCase { sub: "core_nb".into(), float: "f64".into(), model: model.into(), batches: bx.clone(), labels: by.clone(), rows: vec![0; comp.len()], layouts: vec![], hyper: vec![sm], init: vec![], queries: vec![], forms: fa.clone() });
                }
            }
        }
    }
    for len in 1..=2usize {
        for seq in en::sequences(len, 4) {
            for fa in en::sequences(len, harden::NFORMS) {
                out.push(HCase {
                    sub: "core_ftrl".into(),
                    float: "f64".into(),
                    model: "ftrl".into(),
                    batches: seq.iter().map(|&b| fx[b].clone()).collect(),
                    labels: seq.iter().map(|&b| fy[b].clone()).collect(),
                    rows: vec![0; len],
                    layouts: vec![],
                    hyper: vec![0.5, 1.0, 0.5, 0.5],
                    init: vec![],
                    queries: vec![],
                    forms: fa.clone(),
                });
            }
        }
    }
    // ---------------- k-means: batch fit (several restarts) followed by mini-batch steps ----------------
    {
        let groups: [((f64, f64), usize); 5] = [((0.0, 0.0), 12), ((10.0, 1.0), 9), ((4.0, 9.0), 7), ((-8.0, 6.0), 5), ((-3.0, -9.0), 3)];
        let mut data: Vec<Vec<f64>> = Vec::new();
        for ((cx, cy), n) in groups.iter() {
            for i in 0..*n {
                data.push(vec![cx + en::jitter(i, 0) * 16.0 + 0.05 * i as f64, cy + en::jitter(i, 1) * 16.0 - 0.03 * i as f64]);
            }
        }
        let mb1: Vec<Vec<f64>> = vec![vec![0.5, 0.4], vec![9.0, 2.0], vec![3.5, 8.0], vec![-7.0, 5.0], vec![-2.0, -8.0], vec![1.0, -1.0], vec![11.0, 0.0], vec![5.0, 10.0]];
        let mb2: Vec<Vec<f64>> = vec![vec![-3.0, -8.5], vec![0.2, 0.1], vec![9.5, 1.5]];
        let nseeds = if thorough { 40 } else { 16 };
        for seed in 0..nseeds {
            for n_runs in [1usize, 2, 5] {
                for tail in [vec![mb1.clone()], vec![mb1.clone(), mb2.clone()], vec![mb2.clone(), mb1.clone()]] {
                    let mut batches = vec![data.clone()];
                    batches.extend(tail);
                    out.push(HCase { sub: "km_fit".into(), float: "f64".into(), model: "L2".into(), batches, labels: vec![], rows: vec![], layouts: vec![], hyper: vec![3.0, n_runs as f64, seed as f64, 1e-4], init: vec![], queries: vec![], forms: vec![] });
                }
            }
        }
    }
    // ---------------- builder history ----------------
    out.push(HCase { sub: "builder".into(), float: "f64".into(), model: "kmeans".into(), batches: vec![kpool[1].clone(), kpool[3].clone()], labels: vec![], rows: vec![], layouts: vec![], hyper: vec![], init: vec![], queries: vec![], forms: vec![] });
    out.push(HCase { sub: "builder".into(), float: "f64".into(), model: "ftrl".into(), batches: vec![fx[2].clone(), fx[3].clone()], labels: vec![fy[2].clone(), fy[3].clone()], rows: vec![], layouts: vec![], hyper: vec![], init: vec![], queries: vec![], forms: vec![] });
    let (bx, by) = split(&d1x, &d1y, &[3, 5]);
    out.push(HCase { sub: "builder".into(), float: "f64".into(), model: "gaussian_nb".into(), batches: bx.clone(), labels: by.clone(), rows: vec![], layouts: vec![], hyper: vec![], init: vec![], queries: vec![], forms: vec![] });
    out.push(HCase { sub: "builder".into(), float: "f64".into(), model: "multinomial_nb".into(), batches: bx, labels: by, rows: vec![], layouts: vec![], hyper: vec![], init: vec![], queries: vec![], forms: vec![] });
    out
}

fn ftrl_cases(max_len: usize) -> Vec<FtrlCase> {
    let pool_x: Vec<Vec<Vec<f64>>> = vec![
        vec![vec![1.0, 0.0, 0.0], vec![0.0, 1.0, 0.0]],
        vec![vec![1.0, 1.0, 1.0]],
        vec![vec![2.0, 0.0, 1.0], vec![0.0, 0.0, 0.0], vec![1.0, 3.0, 0.0]],
        vec![vec![0.0, 2.0, 0.0], vec![1.0, 1.0, 0.0]],
    ];
    let pool_y: Vec<Vec<bool>> = vec![vec![true, false], vec![true], vec![false, false, true], vec![false, true]];
    // what the default generator of the crate (Xoshiro256Plus seeded with 42) would draw
    let seeded: Vec<f64> = {
        use linfa::ParamGuard;
        use rand_xoshiro::rand_core::SeedableRng;
        let p = linfa_ftrl::FtrlParams::<f64, _>::default_with_rng(rand_xoshiro::Xoshiro256Plus::seed_from_u64(42)).check().unwrap();
        linfa_ftrl::Ftrl::new(p, 3).z().to_vec()
    };
    let z0s: Vec<Vec<f64>> = vec![vec![0.5, 0.0, 0.25], vec![0.75, 0.9375, 0.5], seeded];
    let mut out = Vec::new();
    for z0 in &z0s {
        for alpha in [0.005, 0.5, 1.0] {
            for beta in [0.0, 1.0] {
                for l1 in [0.0, 0.5, 1.0] {
                    for l2 in [0.0, 0.5, 1.0] {
                        out.push(FtrlCase { pool_x: pool_x.clone(), pool_y: pool_y.clone(), alpha, beta, l1, l2, z0: z0.clone(), max_len, only_history: None });
                    }
                }
            }
        }
    }
    out
}

// ------------------------------------------------------------------------------------------------

struct Agg {
    bumps: Mutex<BTreeMap<&'static str, u64>>,
    maxima: Mutex<BTreeMap<&'static str, f64>>,
    notes: Mutex<BTreeMap<&'static str, (f64, Value)>>,
    cases: AtomicU64,
}

fn flush(ctx: &Ctx, agg: &Agg, out: Out, ncases: u64) {
    ctx.evals(out.evals, out.nontrivial);
    ctx.add_states(out.states, out.transitions, out.traces);
    for _ in 0..out.indeterminate {
        ctx.indeterminate();
    }
    for _ in 0..out.out_of_domain {
        ctx.out_of_domain();
    }
    ctx.violations(out.viols);
    {
        let mut b = agg.bumps.lock().unwrap();
        for (k, v) in out.bumps {
            *b.entry(k).or_insert(0) += v;
        }
    }
    {
        let mut m = agg.maxima.lock().unwrap();
        for (k, v) in out.maxima {
            let e = m.entry(k).or_insert(0.0);
            if v > *e {
                *e = v;
            }
        }
    }
    {
        let mut m = agg.notes.lock().unwrap();
        for (k, v) in out.notes {
            // deterministic choice: larger score wins, ties by the smaller JSON text
            let better = match m.get(k) {
                None => true,
                Some(old) => v.0 > old.0 || (v.0 == old.0 && v.1.to_string() < old.1.to_string()),
            };
            if better {
                m.insert(k, v);
            }
        }
    }
    agg.cases.fetch_add(ncases, Ordering::Relaxed);
}

fn main() {
    let ctx = Ctx::new("C15", Level::ModelChecking);
    ctx.maybe_replay(&replay_value);
    ctx.set_rule(
        "explicit-state exploration of batch histories; one evaluation = one real fit_with call (one transition; k-means: one per tolerance; plus the fresh replays of every full-length k-means / FTRL history). \
         Naive Bayes: datasets = every multiset of n rows over the symbols (feature vector in {0,1,2,3}^p, label in {0,1,2}) for p=1 (n<=5 quick / n<=6 thorough) and p=2 (n<=3 / n<=4), fed in 1 / 3 row orders \
         (label-major, feature-major, riffle), x {gaussian var_smoothing 0, 1e-9, 1e-3; multinomial alpha 0, 0.5, 1}; per dataset EVERY composition of the rows into ordered non-empty batches \
         (prefix-sharing state graph: state = (rows consumed, sufficient statistics), transition = fit_with on the next s rows for every s; states with bit-identical statistics are merged). \
         k-means: distance function in {L2Dist, L1Dist, LInfDist, LpDist(3)} x 4 pools (2-d lattice, 2-d generic position, 1-d, 3-d) of 4 tiny batches, every batch sequence of length <= 3 / 4, k in {1,2,3}, precomputed initial centroids (incl. duplicated ones) / seeded k-means++ / seeded random, \
         tolerances {1e-4, 0.5, 1, 2, 3, 100}; plus a large-batch family: batches of 1024 / 1025 / 2500 / 4097 rows replicated from 4 distinct points (cyclic / block layout) combined with a 3-row batch in every sequence of length <= 2, k in {1,2}, precomputed / k-means++ / random init, L2 and L1. FTRL: pool of 4 batches (3 features), every sequence of length <= 3 / 4, alpha {0.005,0.5,1} x beta {0,1} x l1 {0,0.5,1} x l2 {0,0.5,1} x 3 initial z (two scripted, with |z| exactly on the l1 boundary, one as drawn by the crate's default generator). \
         non-trivial = the transition updates a non-empty previous model (a genuinely incremental step) or is a step of a fresh full-history replay.",
    );
    ctx.assume("oracle NB: own textbook estimates from the consumed rows (class frequencies; per-class mean and population variance + var_smoothing x largest population variance of a feature over all consumed rows; summed counts and (count+alpha)/(total+alpha*p)); class_count exact, prior 1e-12, theta / feature_log_prob relative 1e-9 (+1e-12 absolute), multinomial feature_count bit-exact");
    ctx.assume("Gaussian sigma of an INCREMENTAL model: textbook value up to 1e-9 relative + var_smoothing x (largest variance of any batch on the path or of all consumed rows): the subject's smoothing term is var_smoothing x largest variance of the CURRENT batch (DESIGN.md C15 open point), so only the unsmoothed part is pinned; sigma of a single fit is pinned to 1e-9 relative including the smoothing term");
    ctx.assume("predictions (incremental model, single fit on the same rows) must equal the arg-max of the own reference posterior on a query lattice wherever the margin between the two best classes exceeds max(1e-6, 1e-9 x largest |log posterior|); smaller margins are counted as indeterminate");
    ctx.assume("the incremental-vs-batch prediction comparison is ASSERTED for Gaussian var_smoothing <= 1e-9 and for the multinomial model; for var_smoothing = 1e-3 clear-margin label differences are only MEASURED (coverage key gnb_smoothing_1e-3_clear_margin_flips_measured); a panic of predict on an incrementally fitted model whose textbook variances are all positive is reported for every var_smoothing > 0");
    ctx.assume("domain: predictions are compared only where the reference posterior is defined (every textbook smoothed variance > 0; every multinomial feature probability > 0); other states count as out_of_domain (their statistics are still compared)");
    ctx.assume("non-finite statistics pass through the serde image as null: an observed non-finite value matches any expected non-finite value");
    ctx.assume("oracle k-means: from the previous state of the subject (checked before), assign every batch row to the nearest previous centroid (own reduced distance of the configured metric: squared Euclidean / sum of |d| / max |d|), then in row order count[c] += 1, c += (x - c)/count[c]; centroids 1e-12 (relative and absolute; 1e-9 for batches of more than 64 rows, where a different correct summation order legitimately differs by ~n x 1e-16), counts exact; centroids equidistant within 1e-12 relative are a choice (every admissible combination accepted, at most 256 combinations, else indeterminate); Ok iff own shift < tolerance, shift = distance of the configured metric between the old and new centroid MATRIX as the subject's Distance::distance defines it on 2-d views (Frobenius norm for L2, sum of all |differences| for L1, largest |difference| for Linf), the verdict is judged exactly (also at shift == tolerance) only where the reference shift is decided in exact arithmetic (previous centroids, batch rows, every quotient, every new centroid and, for L2, the square root are multiples of 2^-10 below 2^10 and every division / root is verified exact); otherwise shifts within 1e-9 relative (1e-6 for batches > 64 rows) of the tolerance are indeterminate, so no particular rounding of an algebraically equivalent update is demanded; inertia = mean reduced distance (squared for L2) of the batch rows to the nearest PREVIOUS centroid (1e-12)");
    ctx.assume("seeded k-means initialisation is not part of the property: the observed first model must follow by the recurrence from SOME choice of k rows of the first batch as initial centroids (k distinct rows for random, any k rows for k-means++); a random initialisation from a first batch with fewer than k rows is out of domain");
    ctx.assume("oracle FTRL: from the previous (z, n) of the subject: w = 0 if |z| <= l1 else (sign(z) l1 - z)/((sqrt(n)+beta)/alpha + l2); p_i = sigmoid(clamp(x_i.w, +-35)) rounded to f32; g = sum_i (p_i - y_i) x_i; sigma = (sqrt(n+g^2) - sqrt(n))/alpha; z' = z + g - sigma w; n' = n + g^2; tolerance 1e-6 x (1 + magnitude of the operands); get_weights() exactly 0 wherever |z| <= l1 (exact comparison on the subject's own z), else the closed form to 1e-12; states whose reference weights are not finite (beta = 0, l2 = 0, n = 0, |z| > l1) are out of domain");
    ctx.assume("the initial z of FTRL is drawn by the subject from a generator supplied by the check that replays chosen dyadic values (rand 0.8 uniform f64 = (u64 >> 12) / 2^52); Ftrl::new is checked to produce exactly these values");
    ctx.assume("hardening families (harden.rs): each batch of a history is handed to fit_with in one of five memory layouts (standard, column-major owned, transposed view of a feature-major array, reversed-row view of a reversed copy, every-second-row view of a larger array with NaN filler rows), every assignment of layouts to the batches of histories of length <= 2 / 3 (<= 3 for naive Bayes); the model after every batch must equal the standard-layout replay within the tolerances above (counts exact), prediction inputs go through the same five layouts; replicated batches of 1025 (quick) / 1025 and 4097 (thorough) rows through the same reference oracles (1e-9 relative); f32 runs of naive Bayes, k-means and FTRL with f32 tolerances (statistics 1e-4 relative, centroids 1e-4, FTRL 1e-3 x operand magnitude, margins 1e-2) against the f64 reference evaluated on the f32-rounded inputs");
    ctx.assume("cross-crate routing: k-means runs with every linfa-nn metric (L2, L1, Linf, Lp(3)) on generic-position points with 1, 4, 5, 6, 7, 9 features at scales 1 and 0.125 (tolerance 0.5 x scale) in six layouts incl. a reversed FEATURE axis; own reduced distance / matrix distance per metric as before. Core crate: every batch of a naive-Bayes / FTRL history is handed over in one of seven calling forms (plain; reversed target view; every-second-element target view with poison fillers; strided (n,1) 2-d target column + into_single_target; encoded labels + map_targets; foreign-label rows + with_labels (CountedTargets); column-major owned dataset + unchecked params through the ParamGuard blanket impl), every assignment of forms to the batches; the model must equal the plain-form replay (same tolerances), single batches also through Fit::fit; predict is called in every form (&Array2, ArrayView2, owned Array2, &DatasetBase, owned DatasetBase (records returned unchanged), predict_inplace, one-row views, for k-means also one observation) and must agree bit for bit");
    ctx.assume("k-means histories that START with a batch fit: five groups of 12/9/7/5/3 points, k = 3, Random init, n_runs in {1, 2, 5}, 16 / 40 seeds, default tolerance 1e-4, followed by 1-2 mini-batch steps: cluster_count after fit must equal the sizes of the clusters of the returned centroids (nearest returned centroid, rows within 1e-9 of equidistant make the case indeterminate) and every following fit_with step must be the running-mean recurrence from that state (1e-12, counts exact). An eighth fit_with calling form wraps the batch in CountedTargets whose cached label list names a class (already known to the model) that no record of the batch carries (counted, then one record relabelled in place through as_targets_mut)");
    ctx.assume("builder history: every order of the setters of KMeansParams (n_runs, tolerance, max_n_iterations, init_method; 24 orders) and FtrlParams (alpha, beta, l1_ratio, l2_ratio, rng; 120 orders), each also after decoy writes of other values, plus the alternative constructors and decoy-then-real writes of the single naive-Bayes setter, must give the same published getters and a bit-identical two-batch model history as the canonical order");
    ctx.assume("VERIF_SEED does not influence what is explored");

    let nb_p1_max = ctx.pick(5, 6);
    let nb_p2_max = ctx.pick(3, 4);
    let n_orders = ctx.pick(1, 3);
    let seq_len = ctx.pick(3, 4);

    // ---------------- naive Bayes ----------------
    let mut items: Vec<NbItem> = Vec::new();
    for n in 1..=nb_p1_max {
        for ms in en::multisets(12, n, n) {
            items.push(NbItem { p: 1, symbols: ms });
        }
    }
    for n in 1..=nb_p2_max {
        for ms in en::multisets(48, n, n) {
            items.push(NbItem { p: 2, symbols: ms });
        }
    }
    let nb_expected: u64 = items.iter().map(|it| nb_cases_of(it, n_orders).len() as u64).sum();
    ctx.extra("nb_datasets_multisets", json!(items.len()));
    ctx.extra("nb_cases_enumerated", json!(nb_expected));
    let agg = Agg { bumps: Mutex::new(BTreeMap::new()), maxima: Mutex::new(BTreeMap::new()), notes: Mutex::new(BTreeMap::new()), cases: AtomicU64::new(0) };
    let chunks: Vec<&[NbItem]> = items.chunks(32).collect();
    par_sweep(&ctx, "naive bayes", &chunks, |chunk| {
        let mut out = Out::default();
        let mut n = 0u64;
        for it in chunk.iter() {
            for c in nb_cases_of(it, n_orders) {
                nb::run_nb(&c, &mut out);
                n += 1;
                ctx.sample(|| json!({"family": "nb", "kind": c.kind, "x": c.x, "y": c.y, "smoothing": c.smoothing, "compositions": 1u64 << (c.x.len() - 1)}));
            }
        }
        flush(&ctx, &agg, out, n);
    });
    let nb_done = agg.cases.swap(0, Ordering::Relaxed);
    ctx.extra("nb_cases_completed", json!(nb_done));

    // ---------------- k-means ----------------
    let kc = km_cases(seq_len);
    ctx.extra("kmeans_cases_enumerated", json!(kc.len()));
    par_sweep(&ctx, "k-means", &kc, |c| {
        let mut out = Out::default();
        km::run_km(c, &mut out);
        ctx.sample(|| json!({"family": "kmeans", "metric": c.metric, "pool": c.pool_name, "k": c.k, "init": c.init, "init_centroids": c.init_centroids, "seed": c.seed, "tolerances": c.tolerances, "max_len": c.max_len}));
        flush(&ctx, &agg, out, 1);
    });
    let km_done = agg.cases.swap(0, Ordering::Relaxed);
    ctx.extra("kmeans_cases_completed", json!(km_done));

    // ---------------- FTRL ----------------
    let fc = ftrl_cases(seq_len);
    ctx.extra("ftrl_cases_enumerated", json!(fc.len()));
    par_sweep(&ctx, "ftrl", &fc, |c| {
        let mut out = Out::default();
        ftrl::run_ftrl(c, &mut out);
        ctx.sample(|| json!({"family": "ftrl", "alpha": c.alpha, "beta": c.beta, "l1": c.l1, "l2": c.l2, "z0": c.z0, "max_len": c.max_len}));
        flush(&ctx, &agg, out, 1);
    });
    let f_done = agg.cases.swap(0, Ordering::Relaxed);
    ctx.extra("ftrl_cases_completed", json!(f_done));

    // ---------------- hardening families: layouts, sizes, f32, builder history ----------------
    let hc = harden_cases(ctx.thorough());
    ctx.extra("harden_cases_enumerated", json!(hc.len()));
    for (k, sub, fl) in [("harden_cases_nb_f64", "nb", "f64"), ("harden_cases_nb_f32", "nb", "f32"), ("harden_cases_kmeans_f64", "kmeans", "f64"), ("harden_cases_kmeans_f32", "kmeans", "f32"), ("harden_cases_ftrl_f64", "ftrl", "f64"), ("harden_cases_ftrl_f32", "ftrl", "f32"), ("harden_cases_builder", "builder", "f64"), ("harden_cases_core_nb_calling_forms", "core_nb", "f64"), ("harden_cases_core_ftrl_calling_forms", "core_ftrl", "f64"), ("harden_cases_kmeans_fit_then_minibatch", "km_fit", "f64")] {
        ctx.extra(k, json!(hc.iter().filter(|c| c.sub == sub && c.float == fl).count()));
    }
    ctx.extra("harden_cases_with_a_non_standard_layout", json!(hc.iter().filter(|c| c.layouts.iter().any(|l| *l != 0)).count()));
    ctx.extra("harden_cases_with_a_batch_of_more_than_1024_rows", json!(hc.iter().filter(|c| c.rows.iter().any(|r| *r > 1024)).count()));
    let hchunks: Vec<&[HCase]> = hc.chunks(16).collect();
    par_sweep(&ctx, "hardening", &hchunks, |chunk| {
        let mut out = Out::default();
        for c in chunk.iter() {
            harden::run_h(c, &mut out);
            ctx.sample(|| json!({"family": "harden", "sub": c.sub, "float": c.float, "model": c.model, "rows": c.rows, "layouts": c.layouts, "hyper": c.hyper}));
        }
        flush(&ctx, &agg, out, chunk.len() as u64);
    });
    let h_done = agg.cases.swap(0, Ordering::Relaxed);
    ctx.extra("harden_cases_completed", json!(h_done));
    if h_done != hc.len() as u64 {
        ctx.capped("not every hardening case was completed");
    }

    if nb_done != nb_expected || km_done != kc.len() as u64 || f_done != fc.len() as u64 {
        ctx.capped("not every enumerated case was completed (see *_cases_enumerated vs *_cases_completed)");
    }
    for (k, v) in agg.bumps.lock().unwrap().iter() {
        ctx.extra(k, json!(v));
    }
    for (k, v) in agg.maxima.lock().unwrap().iter() {
        ctx.extra(k, json!(v));
    }
    for (k, v) in agg.notes.lock().unwrap().iter() {
        ctx.extra(k, v.1.clone());
    }
    {
        let b = agg.bumps.lock().unwrap();
        let exp = b.get("nb_compositions_expected").cloned().unwrap_or(0);
        let got = b.get("nb_compositions_walked_to_the_end").cloned().unwrap_or(0);
        if exp != got {
            println!("MACHINERY-ERROR naive Bayes exploration walked {} compositions to the end, {} exist", got, exp);
            std::process::exit(2);
        }
    }
    ctx.finish(&replay_value);
}
