//! Naive Bayes (Gaussian + multinomial): explicit-state exploration of every composition of the
//! rows of a dataset into ordered non-empty batches.
//!
//! State = (number of rows consumed, model). Transition = one real `fit_with` call on the next
//! `s` rows (every s in 1..=remaining). Compositions share prefixes, so the 2^(n-1) compositions
//! of n rows are covered by at most 2^n - 1 transitions; states whose sufficient statistics are
//! bit-identical are merged (they have identical futures, the statistics ARE the model).
//!
//! Oracle: own textbook estimates computed from the consumed rows with plain Vec / f64 loops.

use crate::common::*;
use linfa::traits::{Fit, FitWith, Predict};
use linfa::{Dataset, ParamGuard};
use linfa_bayes::{
    GaussianNb, GaussianNbParams, GaussianNbValidParams, MultinomialNb, MultinomialNbParams, MultinomialNbValidParams,
};
use lvmc_core::{guarded, json, Value, Violation};
use ndarray::{Array1, Array2};
use serde::{Deserialize, Serialize};
use std::collections::{BTreeMap, HashMap};

#[derive(Clone, Debug, Serialize, Deserialize)]
pub struct NbCase {
    /// "gaussian" | "multinomial"
    pub kind: String,
    /// rows in the order in which they are fed
    pub x: Vec<Vec<f64>>,
    pub y: Vec<usize>,
    /// var_smoothing (gaussian) or alpha (multinomial)
    pub smoothing: f64,
    /// replay only: follow just this history (batch sizes) instead of exploring the whole graph
    #[serde(default, skip_serializing_if = "Option::is_none")]
    pub only_history: Option<Vec<usize>>,
}

/// margin (difference of the two largest reference log-posteriors) below which a prediction is
/// not demanded; additionally scaled by the magnitude of the posteriors (terms of size 1e9 occur
/// when a class has zero variance and the smoothing is 1e-9)
pub const MARGIN_ABS: f64 = 1e-6;
pub const MARGIN_REL: f64 = 1e-9;
/// relative tolerance of a statistic against the textbook value
pub const STAT_REL: f64 = 1e-9;
pub const STAT_ABS: f64 = 1e-12;
/// var_smoothing up to which "incremental == batch prediction" is asserted (DESIGN.md C15)
pub const ASSERTED_SMOOTHING: f64 = 1e-9;

#[derive(Clone)]
enum Model {
    G(GaussianNb<f64, usize>),
    M(MultinomialNb<f64, usize>),
}

enum Params {
    G(GaussianNbValidParams<f64, usize>),
    M(MultinomialNbValidParams<f64, usize>),
}

enum Fail {
    Error(String),
    Panic(String),
}

fn dataset(x: &[Vec<f64>], y: &[usize]) -> Dataset<f64, usize, ndarray::Ix1> {
    let p = x[0].len();
    let xs = Array2::from_shape_fn((x.len(), p), |(i, j)| x[i][j]);
    let ys = Array1::from_vec(y.to_vec());
    Dataset::new(xs, ys)
}

impl Params {
    fn fit_with(&self, prev: Option<&Model>, x: &[Vec<f64>], y: &[usize]) -> Result<Model, Fail> {
        let d = dataset(x, y);
        match self {
            Params::G(p) => {
                let prev = prev.map(|m| match m {
                    Model::G(g) => g.clone(),
                    _ => unreachable!(),
                });
                match guarded(|| p.fit_with(prev, &d)) {
                    Ok(Ok(Some(m))) => Ok(Model::G(m)),
                    Ok(Ok(None)) => Err(Fail::Error("Ok(None)".into())),
                    Ok(Err(e)) => Err(Fail::Error(format!("{}", e))),
                    Err(p) => Err(Fail::Panic(p)),
                }
            }
            Params::M(p) => {
                let prev = prev.map(|m| match m {
                    Model::M(g) => g.clone(),
                    _ => unreachable!(),
                });
                match guarded(|| p.fit_with(prev, &d)) {
                    Ok(Ok(Some(m))) => Ok(Model::M(m)),
                    Ok(Ok(None)) => Err(Fail::Error("Ok(None)".into())),
                    Ok(Err(e)) => Err(Fail::Error(format!("{}", e))),
                    Err(p) => Err(Fail::Panic(p)),
                }
            }
        }
    }
    fn fit(&self, x: &[Vec<f64>], y: &[usize]) -> Result<Model, Fail> {
        let d = dataset(x, y);
        match self {
            Params::G(p) => match guarded(|| p.fit(&d)) {
                Ok(Ok(m)) => Ok(Model::G(m)),
                Ok(Err(e)) => Err(Fail::Error(format!("{}", e))),
                Err(p) => Err(Fail::Panic(p)),
            },
            Params::M(p) => match guarded(|| p.fit(&d)) {
                Ok(Ok(m)) => Ok(Model::M(m)),
                Ok(Err(e)) => Err(Fail::Error(format!("{}", e))),
                Err(p) => Err(Fail::Panic(p)),
            },
        }
    }
}

impl Model {
    fn predict(&self, q: &Array2<f64>) -> Result<Vec<usize>, String> {
        match self {
            Model::G(m) => guarded(|| m.predict(q).to_vec()),
            Model::M(m) => guarded(|| m.predict(q).to_vec()),
        }
    }
    fn image(&self) -> Value {
        match self {
            Model::G(m) => serde_json::to_value(m).unwrap_or(Value::Null),
            Model::M(m) => serde_json::to_value(m).unwrap_or(Value::Null),
        }
    }
}

/// Sufficient statistics of one class as stored by the subject (read through the serde image) or
/// as computed by the reference. `a` = theta | feature_count, `b` = sigma | feature_log_prob.
#[derive(Clone, Debug, PartialEq)]
pub(crate) struct ClassStats {
    pub count: u64,
    pub prior: f64,
    pub a: Vec<f64>,
    pub b: Vec<f64>,
}
pub(crate) type Stats = BTreeMap<usize, ClassStats>;

pub(crate) fn arr(v: &Value) -> Option<Vec<f64>> {
    // ndarray serde image: {"v":1,"dim":[p],"data":[..]}; non-finite floats arrive as null
    let d = v.get("data")?.as_array()?;
    Some(d.iter().map(|x| x.as_f64().unwrap_or(f64::NAN)).collect())
}

fn stats_of(m: &Model) -> Option<Stats> {
    let img = m.image();
    stats_from_image(&img, matches!(m, Model::G(_)))
}

pub(crate) fn stats_from_image(img: &Value, gaussian: bool) -> Option<Stats> {
    let (ka, kb) = if gaussian { ("theta", "sigma") } else { ("feature_count", "feature_log_prob") };
    let mut out = Stats::new();
    for (k, v) in img.get("class_info")?.as_object()? {
        let label: usize = k.parse().ok()?;
        out.insert(
            label,
            ClassStats {
                count: v.get("class_count")?.as_u64()?,
                prior: v.get("prior")?.as_f64().unwrap_or(f64::NAN),
                a: arr(v.get(ka)?)?,
                b: arr(v.get(kb)?)?,
            },
        );
    }
    Some(out)
}

fn canon(j: usize, s: &Stats) -> Vec<u8> {
    let mut out = Vec::with_capacity(64);
    out.extend_from_slice(&(j as u64).to_le_bytes());
    for (k, c) in s {
        out.extend_from_slice(&(*k as u64).to_le_bytes());
        out.extend_from_slice(&c.count.to_le_bytes());
        bits(&[c.prior], &mut out);
        bits(&c.a, &mut out);
        bits(&c.b, &mut out);
    }
    out
}

/// Textbook estimates from the rows (x, y): class frequencies; per-class mean and population
/// variance (+ var_smoothing * largest population variance of any feature over all rows), or
/// summed counts and additively smoothed feature frequencies. Also returns the unsmoothed
/// per-class variances and the largest feature variance (gaussian).
pub(crate) struct Textbook {
    pub stats: Stats,
    pub var: BTreeMap<usize, Vec<f64>>,
    pub maxvar: f64,
}

pub(crate) fn pop_var_max(x: &[Vec<f64>]) -> f64 {
    let n = x.len() as f64;
    let p = x[0].len();
    let mut best = 0.0f64;
    for j in 0..p {
        let mean = x.iter().map(|r| r[j]).sum::<f64>() / n;
        let v = x.iter().map(|r| (r[j] - mean) * (r[j] - mean)).sum::<f64>() / n;
        best = best.max(v);
    }
    best
}

pub(crate) fn textbook(gaussian: bool, x: &[Vec<f64>], y: &[usize], smoothing: f64) -> Textbook {
    let n = x.len();
    let p = x[0].len();
    let maxvar = pop_var_max(x);
    let mut stats = Stats::new();
    let mut var = BTreeMap::new();
    let mut labels: Vec<usize> = y.to_vec();
    labels.sort();
    labels.dedup();
    for c in labels {
        let rows: Vec<&Vec<f64>> = (0..n).filter(|&i| y[i] == c).map(|i| &x[i]).collect();
        let cnt = rows.len() as f64;
        let prior = cnt / n as f64;
        if gaussian {
            let mut theta = vec![0.0; p];
            let mut v = vec![0.0; p];
            for j in 0..p {
                theta[j] = rows.iter().map(|r| r[j]).sum::<f64>() / cnt;
                v[j] = rows.iter().map(|r| (r[j] - theta[j]) * (r[j] - theta[j])).sum::<f64>() / cnt;
            }
            let sigma: Vec<f64> = v.iter().map(|s| s + smoothing * maxvar).collect();
            var.insert(c, v);
            stats.insert(c, ClassStats { count: rows.len() as u64, prior, a: theta, b: sigma });
        } else {
            let fc: Vec<f64> = (0..p).map(|j| rows.iter().map(|r| r[j]).sum::<f64>()).collect();
            let tot: f64 = fc.iter().map(|f| f + smoothing).sum();
            let flp: Vec<f64> = fc.iter().map(|f| (f + smoothing).ln() - tot.ln()).collect();
            stats.insert(c, ClassStats { count: rows.len() as u64, prior, a: fc, b: flp });
        }
    }
    Textbook { stats, var, maxvar }
}

/// Reference log-posterior (up to the common evidence term) of every class for one query.
pub(crate) fn posterior(gaussian: bool, s: &Stats, q: &[f64]) -> Vec<(usize, f64)> {
    s.iter()
        .map(|(c, st)| {
            let mut lp = st.prior.ln();
            if gaussian {
                for j in 0..q.len() {
                    lp += -0.5 * (2.0 * std::f64::consts::PI * st.b[j]).ln();
                    lp += -0.5 * (q[j] - st.a[j]) * (q[j] - st.a[j]) / st.b[j];
                }
            } else {
                for j in 0..q.len() {
                    lp += q[j] * st.b[j];
                }
            }
            (*c, lp)
        })
        .collect()
}

/// Is the reference posterior defined (finite) for every query? Gaussian: every smoothed variance
/// strictly positive. Multinomial: every feature log-probability finite.
pub(crate) fn posterior_defined(gaussian: bool, s: &Stats) -> bool {
    s.values().all(|c| {
        c.prior > 0.0
            && c.b.iter().all(|&v| if gaussian { v > 0.0 && v.is_finite() } else { v.is_finite() })
    })
}

/// (expected label, clear?) — clear iff the margin between the two largest posteriors exceeds
/// max(MARGIN_ABS, MARGIN_REL * largest |posterior|).
fn expected(post: &[(usize, f64)]) -> (usize, bool, f64) {
    let mut v = post.to_vec();
    v.sort_by(|a, b| b.1.partial_cmp(&a.1).unwrap_or(std::cmp::Ordering::Equal));
    if v.iter().any(|x| x.1.is_nan()) {
        return (v[0].0, false, 0.0);
    }
    if v.len() == 1 {
        return (v[0].0, true, f64::INFINITY);
    }
    let margin = v[0].1 - v[1].1;
    let scale = v.iter().map(|x| x.1.abs()).filter(|x| x.is_finite()).fold(0.0f64, f64::max);
    (v[0].0, margin > MARGIN_ABS.max(MARGIN_REL * scale), margin)
}

pub fn queries(gaussian: bool, p: usize) -> Vec<Vec<f64>> {
    let mut out = Vec::new();
    if gaussian {
        if p == 1 {
            for v in [-1.0, 0.0, 0.5, 1.0, 1.5, 2.0, 2.5, 3.0, 4.0] {
                out.push(vec![v]);
            }
        } else {
            let g = [0.0, 1.0, 1.5, 2.0, 3.0];
            for a in g {
                for b in g {
                    out.push(vec![a, b]);
                }
            }
            out.push(vec![-1.0, -1.0]);
            out.push(vec![4.0, 4.0]);
            out.push(vec![0.5, 2.5]);
        }
    } else {
        for pt in lvmc_core::enumerate::lattice_points(p, 4) {
            out.push(pt.iter().map(|&v| v as f64).collect());
        }
    }
    out
}

fn cmp_stats(
    tag: &str,
    what: &str,
    got: &Stats,
    want: &Stats,
    gaussian: bool,
    b_extra_abs: f64,
    viols: &mut Vec<Violation>,
    case: &dyn Fn() -> Value,
    out_max: &mut Option<f64>,
) -> bool {
    let (na, nb) = if gaussian { ("theta", "sigma") } else { ("feature_count", "feature_log_prob") };
    let gk: Vec<usize> = got.keys().cloned().collect();
    let wk: Vec<usize> = want.keys().cloned().collect();
    if gk != wk {
        viols.push(Violation::new(
            format!("{}.class_set_wrong", tag),
            format!("{}: classes in the model {:?}, classes seen so far {:?}", what, gk, wk),
            case(),
        ));
        return false;
    }
    for (c, w) in want {
        let g = &got[c];
        if g.count != w.count {
            viols.push(Violation::new(
                format!("{}.class_count_wrong", tag),
                format!("{}: class {} class_count = {}, rows of that class seen so far = {}", what, c, g.count, w.count),
                case(),
            ));
            return false;
        }
        if !close(g.prior, w.prior, 1e-12, 0.0) {
            viols.push(Violation::new(
                format!("{}.prior_wrong", tag),
                format!("{}: class {} prior = {}, class frequency = {}", what, c, g.prior, w.prior),
                case(),
            ));
            return false;
        }
        if g.a.len() != w.a.len() || g.b.len() != w.b.len() {
            viols.push(Violation::new(
                format!("{}.shape_wrong", tag),
                format!("{}: class {} has {} / {} entries, expected {}", what, c, g.a.len(), g.b.len(), w.a.len()),
                case(),
            ));
            return false;
        }
        for j in 0..w.a.len() {
            let ok = if gaussian { close(g.a[j], w.a[j], STAT_REL, STAT_ABS) } else { g.a[j] == w.a[j] };
            if !ok {
                viols.push(Violation::new(
                    format!("{}.{}_wrong", tag, na),
                    format!("{}: class {} {}[{}] = {:e}, textbook = {:e}", what, c, na, j, g.a[j], w.a[j]),
                    case(),
                ));
                return false;
            }
        }
        for j in 0..w.b.len() {
            // non-finite values pass through the serde image as null -> NaN: any non-finite
            // observed value matches any non-finite expected value
            let ok = if !w.b[j].is_finite() {
                !g.b[j].is_finite()
            } else {
                close(g.b[j], w.b[j], STAT_REL, STAT_ABS + b_extra_abs)
            };
            if gaussian && w.b[j].is_finite() && g.b[j].is_finite() {
                let d = (g.b[j] - w.b[j]).abs();
                *out_max = Some(out_max.unwrap_or(0.0).max(d));
            }
            if !ok {
                viols.push(Violation::new(
                    format!("{}.{}_wrong", tag, nb),
                    format!(
                        "{}: class {} {}[{}] = {:e}, textbook = {:e} (allowed deviation {:e} + {:e} relative)",
                        what,
                        c,
                        nb,
                        j,
                        g.b[j],
                        w.b[j],
                        STAT_ABS + b_extra_abs,
                        STAT_REL
                    ),
                    case(),
                ));
                return false;
            }
        }
    }
    true
}

struct St {
    j: usize,
    model: Option<Model>,
    hist: Vec<usize>,
    /// gaussian only: the smoothing part e_c that the batch-local epsilon bookkeeping of the
    /// subject leaves in sigma (own model of that recurrence, used ONLY to give an observed
    /// failure a narrow signature, never as an oracle)
    eps_part: BTreeMap<usize, f64>,
    /// largest batch-local "largest feature variance" seen on the path
    max_batch_var: f64,
    /// number of distinct histories (compositions of the first j rows) that lead to this state
    mult: u64,
}

/// What the batch model of a prefix looks like (does not depend on the history): cached per prefix.
struct Prefix {
    tb: Textbook,
    defined: bool,
    /// per query: (expected label, clear margin?, margin)
    exp: Vec<(usize, bool, f64)>,
    batch_pred: Option<Vec<usize>>,
    batch_stats: Option<Stats>,
}

pub fn run_nb(case: &NbCase, out: &mut Out) {
    let gaussian = case.kind == "gaussian";
    let tag = if gaussian { "gaussian_nb" } else { "multinomial_nb" };
    let n = case.x.len();
    let p = case.x[0].len();
    let params = if gaussian {
        Params::G(GaussianNbParams::new().var_smoothing(case.smoothing).check().expect("valid smoothing"))
    } else {
        Params::M(MultinomialNbParams::new().alpha(case.smoothing).check().expect("valid alpha"))
    };
    let qs = queries(gaussian, p);
    let qarr = Array2::from_shape_fn((qs.len(), p), |(i, j)| qs[i][j]);
    let cj = |hist: &[usize], extra: Value| -> Value {
        let mut c = case.clone();
        c.only_history = Some(hist.to_vec());
        // rows after the end of the history play no role: keep the artefact minimal
        let used: usize = hist.iter().sum();
        c.x.truncate(used);
        c.y.truncate(used);
        let mut v = serde_json::to_value(&c).unwrap();
        let o = v.as_object_mut().unwrap();
        o.insert("family".into(), json!("nb"));
        o.insert("at".into(), extra);
        v
    };
    let asserted = !gaussian || case.smoothing <= ASSERTED_SMOOTHING;

    let mut prefixes: Vec<Option<Prefix>> = (0..=n).map(|_| None).collect();
    // states grouped by the number of rows consumed; a transition strictly increases that number,
    // so processing the levels in ascending order sees every state after all its predecessors
    // (needed to count how many compositions each merged state stands for)
    let mut levels: Vec<Vec<St>> = (0..=n).map(|_| Vec::new()).collect();
    let mut seen: HashMap<Vec<u8>, usize> = HashMap::new();
    levels[0].push(St { j: 0, model: None, hist: vec![], eps_part: BTreeMap::new(), max_batch_var: 0.0, mult: 1 });
    out.states += 1;
    let mut lost_paths = false;
    let mut walked = 0u64;

    for level in 0..=n {
        let here = std::mem::take(&mut levels[level]);
        for st in here {
        if st.j == n {
            walked += st.mult;
            continue;
        }
        for s in 1..=(n - st.j) {
            if let Some(only) = &case.only_history {
                if only.get(st.hist.len()) != Some(&s) {
                    continue;
                }
            }
            let j2 = st.j + s;
            let bx = &case.x[st.j..j2];
            let by = &case.y[st.j..j2];
            let mut hist = st.hist.clone();
            hist.push(s);
            out.transitions += 1;
            out.evals += 1;
            if st.j > 0 {
                out.nontrivial += 1;
            }
            let mut blabels: Vec<usize> = by.to_vec();
            blabels.sort();
            blabels.dedup();
            let mut all_labels: Vec<usize> = case.y[..j2].to_vec();
            all_labels.sort();
            all_labels.dedup();
            if st.j > 0 && blabels.len() < all_labels.len() {
                out.bump("nb_transitions_with_class_incomplete_batch", 1);
            }
            if s == 1 && st.j > 0 {
                out.bump("nb_transitions_with_single_row_batch", 1);
            }
            let model = match params.fit_with(st.model.as_ref(), bx, by) {
                Ok(m) => m,
                Err(Fail::Error(e)) => {
                    out.viols.push(Violation::new(
                        format!("{}.fit_with.unexpected_error", tag),
                        format!("fit_with on batch {:?} / {:?} after history {:?} returned Err({})", bx, by, st.hist, e),
                        cj(&hist, json!({"op": "fit_with"})),
                    ));
                    lost_paths = true;
                    continue;
                }
                Err(Fail::Panic(e)) => {
                    out.viols.push(Violation::new(
                        format!("{}.fit_with.panic", tag),
                        format!("fit_with on batch {:?} / {:?} after history {:?} panicked: {}", bx, by, st.hist, e),
                        cj(&hist, json!({"op": "fit_with"})),
                    ));
                    lost_paths = true;
                    continue;
                }
            };
            let Some(stats) = stats_of(&model) else {
                out.viols.push(Violation::new(
                    format!("{}.serde_image_unreadable", tag),
                    "the serde image of the model does not have the expected fields".to_string(),
                    cj(&hist, json!({"op": "fit_with"})),
                ));
                lost_paths = true;
                continue;
            };
            // ---- lock-step: own estimates from the rows consumed so far ----
            if prefixes[j2].is_none() {
                prefixes[j2] = Some(make_prefix(&params, case, gaussian, tag, j2, &qs, &qarr, out, &cj, &hist));
            }
            let batch_maxvar = pop_var_max(bx);
            let max_batch_var = st.max_batch_var.max(batch_maxvar);
            let pf = prefixes[j2].as_ref().unwrap();
            // the smoothing term of the subject is var_smoothing x (largest variance of a batch),
            // so sigma may deviate from the textbook value by at most var_smoothing x the largest
            // such variance (DESIGN.md C15, open point); 0 for var_smoothing = 0
            let b_extra = if gaussian { case.smoothing * max_batch_var.max(pf.tb.maxvar) * (1.0 + 1e-9) } else { 0.0 };
            let mut dev = None;
            let ok = cmp_stats(
                &format!("{}.fit_with", tag),
                &format!("after history {:?}", hist),
                &stats,
                &pf.tb.stats,
                gaussian,
                b_extra,
                &mut out.viols,
                &|| cj(&hist, json!({"op": "fit_with"})),
                &mut dev,
            );
            if let Some(d) = dev {
                if gaussian && case.smoothing == 0.0 {
                    out.maxi("gnb_max_abs_sigma_deviation_smoothing_0", d);
                } else if gaussian && case.smoothing <= ASSERTED_SMOOTHING {
                    out.maxi("gnb_max_abs_sigma_deviation_smoothing_1e-9", d);
                } else if gaussian {
                    out.maxi("gnb_max_abs_sigma_deviation_smoothing_1e-3", d);
                }
            }
            // own model of the subject's epsilon bookkeeping (signature classification only)
            let mut eps_part = st.eps_part.clone();
            if gaussian {
                let eps_b = case.smoothing * batch_maxvar;
                for &c in &blabels {
                    let n_new = by.iter().filter(|&&l| l == c).count() as f64;
                    let n_old = case.y[..st.j].iter().filter(|&&l| l == c).count() as f64;
                    let e = match eps_part.get(&c) {
                        Some(&e_old) if n_old > 0.0 => (n_old / (n_old + n_new)) * (e_old - eps_b) + eps_b,
                        _ => eps_b,
                    };
                    eps_part.insert(c, e);
                }
            }
            if !ok {
                // a wrong statistic makes everything downstream meaningless: do not expand
                lost_paths = true;
                continue;
            }
            let key = canon(j2, &stats);
            if let Some(&ix) = seen.get(&key) {
                out.bump("nb_transitions_into_an_already_known_state", 1);
                levels[j2][ix].mult += st.mult;
                continue;
            }
            seen.insert(key, levels[j2].len());
            out.states += 1;
            // ---- per state: predictions of the incremental model vs batch model vs reference ----
            check_state(case, gaussian, tag, asserted, pf, &model, &stats, &eps_part, &qs, &qarr, &hist, out, &cj);
            levels[j2].push(St { j: j2, model: Some(model), hist, eps_part, max_batch_var, mult: st.mult });
        }
        }
    }
    // every composition of the n rows must have been walked to its end (measured, not claimed)
    out.traces += walked;
    if case.only_history.is_none() && !lost_paths {
        out.bump("nb_compositions_expected", 1u64 << (n - 1));
        out.bump("nb_compositions_walked_to_the_end", walked);
    }
    if case.only_history.is_none() && lost_paths {
        out.bump("nb_cases_with_histories_cut_short_by_a_violation", 1);
    }
}

#[allow(clippy::too_many_arguments)]
fn make_prefix(
    params: &Params,
    case: &NbCase,
    gaussian: bool,
    tag: &str,
    j: usize,
    qs: &[Vec<f64>],
    qarr: &Array2<f64>,
    out: &mut Out,
    cj: &dyn Fn(&[usize], Value) -> Value,
    hist: &[usize],
) -> Prefix {
    let x = &case.x[..j];
    let y = &case.y[..j];
    let tb = textbook(gaussian, x, y, case.smoothing);
    let defined = posterior_defined(gaussian, &tb.stats);
    let exp: Vec<(usize, bool, f64)> = if defined {
        qs.iter().map(|q| expected(&posterior(gaussian, &tb.stats, q))).collect()
    } else {
        vec![]
    };
    let single = vec![j];
    let _ = hist;
    let mut batch_pred = None;
    let mut batch_stats = None;
    out.bump("nb_single_fits", 1);
    match params.fit(x, y) {
        Ok(m) => {
            if let Some(s) = stats_of(&m) {
                let mut dev = None;
                let ok = cmp_stats(
                    &format!("{}.fit", tag),
                    &format!("single fit on the first {} rows", j),
                    &s,
                    &tb.stats,
                    gaussian,
                    0.0,
                    &mut out.viols,
                    &|| cj(&single, json!({"op": "fit"})),
                    &mut dev,
                );
                if ok {
                    batch_stats = Some(s);
                    if defined {
                        match m.predict(qarr) {
                            Ok(pr) => {
                                for (i, (e, clear, margin)) in exp.iter().enumerate() {
                                    if *clear && pr[i] != *e {
                                        out.viols.push(Violation::new(
                                            format!("{}.fit.prediction_not_argmax_posterior", tag),
                                            format!(
                                                "single fit on the first {} rows: query {:?} predicted {}, reference posterior arg-max {} (margin {:e})",
                                                j, qs[i], pr[i], e, margin
                                            ),
                                            cj(&single, json!({"op": "fit", "query": qs[i]})),
                                        ));
                                        break;
                                    }
                                }
                                batch_pred = Some(pr);
                            }
                            Err(p) => out.viols.push(Violation::new(
                                format!("{}.fit.predict_panic", tag),
                                format!("single fit on the first {} rows: predict panicked although every reference variance / probability is positive: {}", j, p),
                                cj(&single, json!({"op": "fit"})),
                            )),
                        }
                    }
                }
            }
        }
        Err(Fail::Error(e)) => out.viols.push(Violation::new(
            format!("{}.fit.unexpected_error", tag),
            format!("fit on the first {} rows returned Err({})", j, e),
            cj(&single, json!({"op": "fit"})),
        )),
        Err(Fail::Panic(e)) => out.viols.push(Violation::new(
            format!("{}.fit.panic", tag),
            format!("fit on the first {} rows panicked: {}", j, e),
            cj(&single, json!({"op": "fit"})),
        )),
    }
    Prefix { tb, defined, exp, batch_pred, batch_stats }
}

#[allow(clippy::too_many_arguments)]
fn check_state(
    case: &NbCase,
    gaussian: bool,
    tag: &str,
    asserted: bool,
    pf: &Prefix,
    model: &Model,
    stats: &Stats,
    eps_part: &BTreeMap<usize, f64>,
    qs: &[Vec<f64>],
    qarr: &Array2<f64>,
    hist: &[usize],
    out: &mut Out,
    cj: &dyn Fn(&[usize], Value) -> Value,
) {
    let multi = hist.len() >= 2;
    // multinomial: all arithmetic on counts is exact, so incremental and batch statistics must
    // agree to the last bit in the counts (and 1e-12 in the log-probabilities, checked above)
    if !gaussian {
        if let Some(bs) = &pf.batch_stats {
            for (c, b) in bs {
                if let Some(g) = stats.get(c) {
                    if g.a.iter().zip(&b.a).any(|(u, v)| u.to_bits() != v.to_bits()) {
                        out.viols.push(Violation::new(
                            format!("{}.fit_with.feature_count_differs_from_batch", tag),
                            format!("history {:?}: class {} feature_count {:?}, single fit {:?}", hist, c, g.a, b.a),
                            cj(hist, json!({"op": "state"})),
                        ));
                        return;
                    }
                }
            }
        }
    }
    if gaussian && multi {
        // measured: how far is the incremental sigma from the batch sigma, relative
        if let Some(bs) = &pf.batch_stats {
            for (c, b) in bs {
                if let Some(g) = stats.get(c) {
                    for j in 0..b.b.len() {
                        if b.b[j] > 0.0 {
                            let r = (g.b[j] - b.b[j]).abs() / b.b[j];
                            let k = if case.smoothing == 0.0 {
                                "gnb_max_rel_sigma_incremental_vs_batch_smoothing_0"
                            } else if case.smoothing <= ASSERTED_SMOOTHING {
                                "gnb_max_rel_sigma_incremental_vs_batch_smoothing_1e-9"
                            } else {
                                "gnb_max_rel_sigma_incremental_vs_batch_smoothing_1e-3"
                            };
                            out.maxi(k, r);
                        }
                    }
                }
            }
        }
    }
    if !pf.defined {
        // reference posterior undefined (a zero variance with no smoothing, or a zero feature
        // probability with alpha = 0): predictions are outside the domain of the statement
        out.out_of_domain += 1;
        return;
    }
    out.bump("nb_states_with_prediction_comparison", 1);
    let pred = model.predict(qarr);
    let pred = match pred {
        Ok(p) => p,
        Err(pm) => {
            // the incremental model cannot predict although the textbook model can
            let zero_sigma: Vec<(usize, usize)> = stats
                .iter()
                .flat_map(|(c, s)| s.b.iter().enumerate().filter(|(_, v)| gaussian && !(**v > 0.0)).map(move |(j, _)| (*c, j)))
                .collect();
            let explained = gaussian
                && !zero_sigma.is_empty()
                && zero_sigma.iter().all(|(c, j)| {
                    eps_part.get(c).map_or(false, |e| *e == 0.0) && pf.tb.var.get(c).map_or(false, |v| v[*j] == 0.0)
                });
            let sig = if explained {
                format!("{}.fit_with.zero_sigma_from_zero_spread_batches.predict_panic", tag)
            } else {
                format!("{}.fit_with.predict_panic", tag)
            };
            let tbs: Vec<String> = zero_sigma
                .iter()
                .map(|(c, j)| format!("class {} feature {}: sigma = {:e}, textbook (single fit) sigma = {:e}", c, j, stats[c].b[*j], pf.tb.stats[c].b[*j]))
                .collect();
            out.viols.push(Violation::new(
                sig,
                format!(
                    "history {:?} (var_smoothing / alpha = {:e}): predict on the incrementally fitted model panicked ({}); the single fit on the same rows predicts fine. {}",
                    hist,
                    case.smoothing,
                    pm,
                    tbs.join("; ")
                ),
                cj(hist, json!({"op": "predict"})),
            ));
            return;
        }
    };
    let mut reported = false;
    for (i, (e, clear, margin)) in pf.exp.iter().enumerate() {
        out.bump("nb_prediction_comparisons", 1);
        if !*clear {
            out.indeterminate += 1;
            continue;
        }
        out.bump("nb_prediction_comparisons_clear_margin", 1);
        if pred[i] == *e {
            continue;
        }
        let zero_var = gaussian && pf.tb.var.values().any(|v| v.iter().any(|x| *x == 0.0));
        if !asserted {
            // large-smoothing regime of the Gaussian model: measured, not asserted
            out.bump("gnb_smoothing_1e-3_clear_margin_flips_measured", 1);
            out.maxi("gnb_smoothing_1e-3_largest_margin_of_a_flip", *margin);
            if !zero_var {
                out.bump("gnb_smoothing_1e-3_clear_margin_flips_measured_all_class_variances_positive", 1);
                out.maxi("gnb_smoothing_1e-3_largest_margin_of_a_flip_all_class_variances_positive", *margin);
                let better = out.notes.get("gnb_smoothing_1e-3_flip_with_all_class_variances_positive").map_or(true, |(m, _)| *margin > *m);
                if better {
                    out.notes.insert(
                        "gnb_smoothing_1e-3_flip_with_all_class_variances_positive",
                        (
                            *margin,
                            json!({"x": case.x, "y": case.y, "var_smoothing": case.smoothing, "history": hist, "query": qs[i],
                                   "incremental_predicts": pred[i], "single_fit_predicts": pf.batch_pred.as_ref().map(|b| b[i]), "reference_argmax": e, "reference_margin": margin}),
                        ),
                    );
                }
            }
            continue;
        }
        if gaussian {
            if zero_var {
                out.bump("gnb_default_smoothing_flips_with_a_zero_variance_class_feature", 1);
            } else {
                out.bump("gnb_default_smoothing_flips_with_all_class_variances_positive", 1);
            }
        }
        if reported {
            continue;
        }
        reported = true;
        // does the subject's batch-local epsilon bookkeeping explain the label? (own model of
        // that bookkeeping: sigma = textbook variance + e_c; explained iff the observed label is
        // the arg-max, or within the tie margin of the arg-max, of the posterior under it)
        let mut sig = format!("{}.fit_with.prediction_not_argmax_posterior", tag);
        if gaussian {
            let mut alt = pf.tb.stats.clone();
            for (c, s) in alt.iter_mut() {
                let e_c = eps_part.get(c).cloned().unwrap_or(0.0);
                for j in 0..s.b.len() {
                    s.b[j] = pf.tb.var[c][j] + e_c;
                }
            }
            if posterior_defined(true, &alt) {
                let post = posterior(true, &alt, &qs[i]);
                let top = post.iter().map(|x| x.1).fold(f64::NEG_INFINITY, f64::max);
                let scale = post.iter().map(|x| x.1.abs()).fold(0.0f64, f64::max);
                let mine = post.iter().find(|x| x.0 == pred[i]).map(|x| x.1);
                if let Some(m) = mine {
                    if top - m <= MARGIN_ABS.max(MARGIN_REL * scale) {
                        sig = format!("{}.fit_with.prediction_flip_from_batch_local_epsilon", tag);
                    }
                }
            }
        }
        let bp = pf.batch_pred.as_ref().map(|b| b[i]);
        out.viols.push(Violation::new(
            sig,
            format!(
                "history {:?} (var_smoothing / alpha = {:e}): query {:?} predicted {} by the incremental model, single fit predicts {:?}, reference posterior arg-max {} with margin {:e}; incremental stats {:?}, textbook {:?}",
                hist, case.smoothing, qs[i], pred[i], bp, e, margin, stats, pf.tb.stats
            ),
            cj(hist, json!({"op": "predict", "query": qs[i]})),
        ));
    }
}
