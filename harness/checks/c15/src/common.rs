//! Shared bookkeeping of the three C15 families.

use lvmc_core::Violation;
use std::collections::BTreeMap;

/// Everything one case reports back to the sweep (kept out of `Ctx` so that `run_case` stays a pure
/// function of the case and can be replayed).
#[derive(Default)]
pub struct Out {
    pub viols: Vec<Violation>,
    pub evals: u64,
    pub nontrivial: u64,
    pub states: u64,
    pub transitions: u64,
    pub traces: u64,
    pub indeterminate: u64,
    pub out_of_domain: u64,
    pub bumps: BTreeMap<&'static str, u64>,
    /// largest observed deviations (name -> value), reported as measured numbers in the evidence
    pub maxima: BTreeMap<&'static str, f64>,
    /// best-scoring example per key (score, example), reported in the evidence
    pub notes: BTreeMap<&'static str, (f64, serde_json::Value)>,
}

impl Out {
    pub fn bump(&mut self, k: &'static str, n: u64) {
        *self.bumps.entry(k).or_insert(0) += n;
    }
    pub fn maxi(&mut self, k: &'static str, v: f64) {
        if v.is_finite() {
            let e = self.maxima.entry(k).or_insert(0.0);
            if v > *e {
                *e = v;
            }
        }
    }
}

pub fn bits(v: &[f64], out: &mut Vec<u8>) {
    for x in v {
        out.extend_from_slice(&x.to_bits().to_le_bytes());
    }
}

/// |a - b| <= abs + rel * max(|a|, |b|); NaN only equals NaN, infinities only themselves.
pub fn close(a: f64, b: f64, rel: f64, abs: f64) -> bool {
    lvmc_core::close(a, b, rel, abs)
}
