//! FTRL-proximal: explicit-state exploration of every batch sequence of length <= L from a pool of
//! tiny labelled batches. State = (z, n). Transition = one real `fit_with`, stepped in lock-step
//! with an own per-coordinate recurrence that starts from the previous state.

use crate::common::*;
use linfa::traits::FitWith;
use linfa::{Dataset, ParamGuard};
use linfa_ftrl::{Ftrl, FtrlParams};
use lvmc_core::{guarded, json, Value, Violation};
use ndarray::{Array1, Array2};
use rand::{Error, RngCore};
use serde::{Deserialize, Serialize};
use std::collections::{HashMap, VecDeque};

#[derive(Clone, Debug, Serialize, Deserialize)]
pub struct FtrlCase {
    pub pool_x: Vec<Vec<Vec<f64>>>,
    pub pool_y: Vec<Vec<bool>>,
    pub alpha: f64,
    pub beta: f64,
    pub l1: f64,
    pub l2: f64,
    /// The initial z is drawn by the subject from its random generator (uniform on [0,1)); the
    /// check hands it a generator that replays these values (dyadic rationals k / 2^52), so that
    /// initial states with |z| exactly on the l1 boundary are part of the enumeration.
    pub z0: Vec<f64>,
    pub max_len: usize,
    #[serde(default, skip_serializing_if = "Option::is_none")]
    pub only_history: Option<Vec<usize>>,
}

/// tolerance of z, n against the own recurrence, relative to the magnitude of the operands
/// (the subject rounds the predicted probabilities to f32; the reference does the same rounding,
/// so the usual deviation is ~1e-16; the looser bound is the one stated in DESIGN.md)
pub const FTRL_TOL: f64 = 1e-6;

/// Replays a fixed list of u64 words (cyclically).
#[derive(Clone, Debug)]
pub struct ScriptRng {
    words: Vec<u64>,
    i: usize,
}

impl ScriptRng {
    /// `rand 0.8` draws a uniform f64 in [0,1) as `(next_u64 >> 12) * 2^-52`
    pub fn for_uniform(vals: &[f64]) -> ScriptRng {
        ScriptRng { words: vals.iter().map(|v| ((v * 4503599627370496.0) as u64) << 12).collect(), i: 0 }
    }
}

impl RngCore for ScriptRng {
    fn next_u32(&mut self) -> u32 {
        (self.next_u64() >> 32) as u32
    }
    fn next_u64(&mut self) -> u64 {
        let w = self.words[self.i % self.words.len()];
        self.i += 1;
        w
    }
    fn fill_bytes(&mut self, dest: &mut [u8]) {
        for chunk in dest.chunks_mut(8) {
            let w = self.next_u64().to_le_bytes();
            chunk.copy_from_slice(&w[..chunk.len()]);
        }
    }
    fn try_fill_bytes(&mut self, dest: &mut [u8]) -> Result<(), Error> {
        self.fill_bytes(dest);
        Ok(())
    }
}

#[derive(Clone, Debug, PartialEq)]
pub(crate) struct FState {
    pub z: Vec<f64>,
    pub n: Vec<f64>,
}

fn canon(s: &FState) -> Vec<u8> {
    let mut out = Vec::new();
    bits(&s.z, &mut out);
    bits(&s.n, &mut out);
    out
}

fn state_of(m: &Ftrl<f64>) -> FState {
    FState { z: m.z().to_vec(), n: m.n().to_vec() }
}

/// per-coordinate closed form of the FTRL-proximal weight
pub(crate) fn prox(z: f64, n: f64, c: &FtrlCase) -> f64 {
    if z.abs() <= c.l1 {
        0.0
    } else {
        let sign = if z < 0.0 { -1.0 } else { 1.0 };
        (sign * c.l1 - z) / ((n.sqrt() + c.beta) / c.alpha + c.l2)
    }
}

fn sigmoid35(t: f64) -> f64 {
    let t = t.min(35.0).max(-35.0);
    if t < 0.0 {
        let e = t.exp();
        e / (e + 1.0)
    } else {
        1.0 / (1.0 + (-t).exp())
    }
}

pub(crate) struct RefStep {
    pub z: Vec<f64>,
    pub n: Vec<f64>,
    pub tol_z: Vec<f64>,
    pub tol_n: Vec<f64>,
    /// z as it would be if the proximal weights were recomputed AFTER adding the gradient
    z_new_weights: Vec<f64>,
}

pub(crate) fn ref_step(prev: &FState, x: &[Vec<f64>], y: &[bool], c: &FtrlCase) -> Option<RefStep> {
    let p = prev.z.len();
    let w: Vec<f64> = (0..p).map(|j| prox(prev.z[j], prev.n[j], c)).collect();
    if w.iter().any(|v| !v.is_finite()) {
        return None;
    }
    let mut g = vec![0.0; p];
    for (i, row) in x.iter().enumerate() {
        let t: f64 = row.iter().zip(&w).map(|(a, b)| a * b).sum();
        let pr = sigmoid35(t) as f32 as f64;
        let truth = if y[i] { 1.0 } else { 0.0 };
        for j in 0..p {
            g[j] += (pr - truth) * row[j];
        }
    }
    let mut z = vec![0.0; p];
    let mut n = vec![0.0; p];
    let mut tol_z = vec![0.0; p];
    let mut tol_n = vec![0.0; p];
    let mut zalt = vec![0.0; p];
    for j in 0..p {
        let sigma = ((prev.n[j] + g[j] * g[j]).sqrt() - prev.n[j].sqrt()) / c.alpha;
        z[j] = prev.z[j] + g[j] - sigma * w[j];
        n[j] = prev.n[j] + g[j] * g[j];
        tol_z[j] = FTRL_TOL * (1.0 + prev.z[j].abs() + g[j].abs() + (sigma * w[j]).abs());
        tol_n[j] = FTRL_TOL * (1.0 + prev.n[j] + g[j] * g[j]);
        let w2 = prox(prev.z[j] + g[j], prev.n[j], c);
        zalt[j] = prev.z[j] + g[j] - sigma * w2;
    }
    Some(RefStep { z, n, tol_z, tol_n, z_new_weights: zalt })
}

type Model = Ftrl<f64>;

enum Step {
    Ok(Model),
    Error(String),
    Panic(String),
}

struct Node {
    model: Option<Model>,
    st: FState,
    hist: Vec<usize>,
}

pub fn run_ftrl(case: &FtrlCase, out: &mut Out) {
    let cj = |hist: &[usize], extra: Value| -> Value {
        let mut c = case.clone();
        c.only_history = Some(hist.to_vec());
        let mut v = serde_json::to_value(&c).unwrap();
        let o = v.as_object_mut().unwrap();
        o.insert("family".into(), json!("ftrl"));
        o.insert("at".into(), extra);
        v
    };
    let p = case.pool_x[0][0].len();
    let rng = ScriptRng::for_uniform(&case.z0);
    let params = FtrlParams::new(case.alpha, case.beta, case.l1, case.l2, rng).check().expect("valid ftrl parameters");
    let real_step = |prev: Option<&Model>, b: usize| -> Step {
        let bx = &case.pool_x[b];
        let x = Array2::from_shape_fn((bx.len(), p), |(i, j)| bx[i][j]);
        let y = Array1::from_vec(case.pool_y[b].clone());
        let ds = Dataset::new(x, y);
        let prev = prev.cloned();
        match guarded(|| params.fit_with(prev, &ds)) {
            Ok(Ok(m)) => Step::Ok(m),
            Ok(Err(e)) => Step::Error(format!("{}", e)),
            Err(pn) => Step::Panic(pn),
        }
    };
    // ---- the initial state, as the subject constructs it ----
    let m0 = match guarded(|| Ftrl::new(params.clone(), p)) {
        Ok(m) => m,
        Err(e) => {
            out.viols.push(Violation::new("ftrl.new.panic", format!("Ftrl::new panicked: {}", e), cj(&[], json!({"op": "new"}))));
            return;
        }
    };
    let s0 = state_of(&m0);
    if s0.z != case.z0 || s0.n.iter().any(|v| *v != 0.0) {
        // the scripted generator did not produce the intended start (would be a harness problem,
        // or a changed initialisation): report, never silently explore something else
        out.viols.push(Violation::new(
            "ftrl.new.unexpected_initial_state",
            format!("Ftrl::new gave z = {:?}, n = {:?}; the scripted generator encodes z = {:?}, n must be 0", s0.z, s0.n, case.z0),
            cj(&[], json!({"op": "new"})),
        ));
        return;
    }
    let nb = case.pool_x.len();
    let mut nodes: Vec<Node> = vec![Node { model: None, st: s0.clone(), hist: vec![] }];
    let mut index: HashMap<Vec<u8>, usize> = HashMap::new();
    let mut edges: HashMap<(usize, usize), usize> = HashMap::new();
    let mut q: VecDeque<usize> = VecDeque::new();
    q.push_back(0);
    out.states += 1;
    if !check_weights(case, &m0, &s0, &[], out, &cj) {
        return;
    }
    while let Some(id) = q.pop_front() {
        let depth = nodes[id].hist.len();
        if depth >= case.max_len {
            continue;
        }
        for b in 0..nb {
            if let Some(only) = &case.only_history {
                if only.get(depth) != Some(&b) {
                    continue;
                }
            }
            let mut hist = nodes[id].hist.clone();
            hist.push(b);
            let Some(rf) = ref_step(&nodes[id].st, &case.pool_x[b], &case.pool_y[b], case) else {
                // beta = 0, l2 = 0 and n = 0 on a coordinate with |z| > l1: the proximal weight
                // is x / 0 — outside the domain of the recurrence
                out.out_of_domain += 1;
                continue;
            };
            out.transitions += 1;
            out.evals += 1;
            if depth > 0 {
                out.nontrivial += 1;
            }
            let m = match real_step(nodes[id].model.as_ref(), b) {
                Step::Ok(m) => m,
                Step::Error(e) => {
                    out.viols.push(Violation::new("ftrl.fit_with.unexpected_error", format!("history {:?}: Err({})", hist, e), cj(&hist, json!({"op": "fit_with"}))));
                    continue;
                }
                Step::Panic(e) => {
                    out.viols.push(Violation::new("ftrl.fit_with.panic", format!("history {:?}: panicked: {}", hist, e), cj(&hist, json!({"op": "fit_with"}))));
                    continue;
                }
            };
            let got = state_of(&m);
            if depth == 0 {
                // fit_with(None, ..) must be fit_with(Some(Ftrl::new(..)), ..)
                if let Step::Ok(m2) = real_step(Some(&m0), b) {
                    if canon(&state_of(&m2)) != canon(&got) {
                        out.viols.push(Violation::new(
                            "ftrl.fit_with.none_differs_from_fresh_model",
                            format!("batch {}: fit_with(None) gives z = {:?}, fit_with(Some(Ftrl::new)) gives z = {:?}", b, got.z, m2.z().to_vec()),
                            cj(&hist, json!({"op": "fit_with"})),
                        ));
                        continue;
                    }
                }
            }
            let mut bad = false;
            for j in 0..p {
                let dz = (got.z[j] - rf.z[j]).abs();
                let dn = (got.n[j] - rf.n[j]).abs();
                out.maxi("ftrl_max_abs_deviation_of_z_from_own_recurrence", dz);
                out.maxi("ftrl_max_abs_deviation_of_n_from_own_recurrence", dn);
                if !(dn <= rf.tol_n[j]) {
                    out.viols.push(Violation::new(
                        "ftrl.fit_with.n_not_sum_of_squared_gradients",
                        format!("history {:?}: n[{}] = {:e}, own recurrence n + g^2 = {:e} (previous n = {:e})", hist, j, got.n[j], rf.n[j], nodes[id].st.n[j]),
                        cj(&hist, json!({"op": "fit_with"})),
                    ));
                    bad = true;
                    break;
                }
                if !(dz <= rf.tol_z[j]) {
                    let sig = if (got.z[j] - rf.z_new_weights[j]).abs() <= rf.tol_z[j] {
                        "ftrl.fit_with.z_update_uses_weights_of_the_new_z"
                    } else {
                        "ftrl.fit_with.z_not_ftrl_proximal_recurrence"
                    };
                    out.viols.push(Violation::new(
                        sig,
                        format!(
                            "history {:?}: z[{}] = {:e}, own recurrence z + g - sigma*w = {:e} (previous z = {:e}, n = {:e})",
                            hist, j, got.z[j], rf.z[j], nodes[id].st.z[j], nodes[id].st.n[j]
                        ),
                        cj(&hist, json!({"op": "fit_with"})),
                    ));
                    bad = true;
                    break;
                }
            }
            if bad {
                continue;
            }
            if !check_weights(case, &m, &got, &hist, out, &cj) {
                continue;
            }
            let key = canon(&got);
            let tgt = match index.get(&key) {
                Some(&t) => {
                    out.bump("ftrl_transitions_into_an_already_known_state", 1);
                    t
                }
                None => {
                    let t = nodes.len();
                    nodes.push(Node { model: Some(m), st: got, hist: hist.clone() });
                    index.insert(key, t);
                    out.states += 1;
                    q.push_back(t);
                    t
                }
            };
            edges.insert((id, b), tgt);
        }
    }
    // ---- same history => same model, bit for bit (fresh folds, no shared prefixes) ----
    let seqs = match &case.only_history {
        Some(h) => vec![h.clone()],
        None => lvmc_core::enumerate::sequences(case.max_len, nb),
    };
    for seq in seqs {
        let mut m: Option<Model> = None;
        let mut id = 0usize;
        let mut okp = true;
        for (d, &b) in seq.iter().enumerate() {
            let Some(&t) = edges.get(&(id, b)) else {
                okp = false;
                break;
            };
            let r = match real_step(m.as_ref(), b) {
                Step::Ok(x) => x,
                _ => {
                    okp = false;
                    break;
                }
            };
            out.evals += 1;
            out.nontrivial += 1;
            if canon(&state_of(&r)) != canon(&nodes[t].st) {
                out.viols.push(Violation::new(
                    "ftrl.fit_with.same_history_different_model",
                    format!("history {:?}: a fresh replay reaches a different (z, n) than the first exploration", &seq[..=d]),
                    cj(&seq[..=d], json!({"op": "fresh_replay"})),
                ));
                okp = false;
                break;
            }
            m = Some(r);
            id = t;
        }
        if okp {
            out.traces += 1;
        }
    }
}

/// weights == closed-form proximal step of the model's own (z, n); exactly 0 wherever |z| <= l1
fn check_weights(case: &FtrlCase, m: &Model, st: &FState, hist: &[usize], out: &mut Out, cj: &dyn Fn(&[usize], Value) -> Value) -> bool {
    let w = match guarded(|| m.get_weights().to_vec()) {
        Ok(w) => w,
        Err(e) => {
            out.viols.push(Violation::new("ftrl.get_weights.panic", format!("history {:?}: {}", hist, e), cj(hist, json!({"op": "get_weights"}))));
            return false;
        }
    };
    for j in 0..st.z.len() {
        out.bump("ftrl_weight_checks", 1);
        if st.z[j].abs() <= case.l1 {
            out.bump("ftrl_weights_inside_l1_ball", 1);
            if st.z[j].abs() == case.l1 {
                out.bump("ftrl_weights_with_abs_z_exactly_l1", 1);
            }
            if !(w[j] == 0.0) {
                out.viols.push(Violation::new(
                    "ftrl.get_weights.nonzero_although_abs_z_within_l1",
                    format!("history {:?}: z[{}] = {:e}, l1 = {:e}, n = {:e}: weight = {:e}, must be exactly 0", hist, j, st.z[j], case.l1, st.n[j], w[j]),
                    cj(hist, json!({"op": "get_weights"})),
                ));
                return false;
            }
        } else {
            let want = prox(st.z[j], st.n[j], case);
            if want.is_finite() && !close(w[j], want, 1e-12, 0.0) {
                out.viols.push(Violation::new(
                    "ftrl.get_weights.not_proximal_formula",
                    format!("history {:?}: z[{}] = {:e}, n = {:e}: weight = {:e}, closed form (sign(z) l1 - z) / ((sqrt(n) + beta)/alpha + l2) = {:e}", hist, j, st.z[j], st.n[j], w[j], want),
                    cj(hist, json!({"op": "get_weights"})),
                ));
                return false;
            }
        }
    }
    true
}
