//! Hardening families of C15 (widen the enumerated space, oracles unchanged):
//!  (a) memory layouts: every batch of a history is handed to `fit_with` in one of five layouts
//!      (standard, column-major owned, transposed view of a feature-major array, reversed-row
//!      view of a reversed copy, every-second-row view of a larger array whose filler rows are
//!      NaN); each batch has its own layout; the replayed model must equal the standard-layout
//!      replay after every batch; prediction inputs go through the same five layouts;
//!  (b) sizes: replicated batches of 1025 / 4097 rows through the same oracles;
//!  (c) f32 for the learners that are generic in the float type (f32 tolerances);
//!  (d) builder history: every order of the setters of the params types (and decoy-then-real
//!      writes) must give the same published getters and the same model history.
//! A case = one history with one layout assignment. The all-standard assignment is checked
//! against the reference (textbook / recurrences of nb.rs, km.rs, ftrl.rs); every other
//! assignment is checked against the standard-layout replay of the same history.

use crate::common::*;
use crate::ftrl::{FState, FtrlCase};
use crate::km::{KState, Metric};
use crate::nb::Stats;
use linfa::dataset::Pr;
use linfa::traits::{FitWith, Predict};
use linfa::{DatasetBase, ParamGuard};
use linfa_bayes::{GaussianNb, GaussianNbParams, MultinomialNb, MultinomialNbParams};
use linfa_clustering::{IncrKMeansError, KMeans, KMeansInit};
use linfa_ftrl::{Ftrl, FtrlParams};
use linfa_nn::distance::{Distance, L1Dist, L2Dist, LInfDist, LpDist};
use lvmc_core::{guarded, json, Value, Violation};
use ndarray::{s, Array1, Array2, ArrayView2, ShapeBuilder};
use rand_xoshiro::rand_core::SeedableRng;
use rand_xoshiro::Xoshiro256Plus;
use serde::{Deserialize, Serialize};

#[derive(Clone, Debug, Serialize, Deserialize)]
pub struct HCase {
    /// "nb" | "kmeans" | "ftrl" | "builder"
    pub sub: String,
    /// "f64" | "f32"
    pub float: String,
    /// nb: "gaussian" | "multinomial"; kmeans: "L2" | "L1"; builder: which params type
    pub model: String,
    /// distinct rows of every batch of the history
    pub batches: Vec<Vec<Vec<f64>>>,
    /// nb: class labels per row; ftrl: 0 / 1 targets; kmeans: empty
    pub labels: Vec<Vec<usize>>,
    /// rows of every batch after cyclic replication of its distinct rows (0 = as listed)
    pub rows: Vec<usize>,
    /// memory layout of every batch (0 standard, 1 column-major owned, 2 transposed view of a
    /// feature-major array, 3 reversed-row view of a reversed copy, 4 every second row of a
    /// twice as large array with NaN filler rows)
    pub layouts: Vec<usize>,
    /// nb: [smoothing]; kmeans: [k, tolerance]; ftrl: [alpha, beta, l1, l2]
    pub hyper: Vec<f64>,
    /// kmeans: precomputed initial centroids
    #[serde(default)]
    pub init: Vec<Vec<f64>>,
    pub queries: Vec<Vec<f64>>,
    /// core-routing families: the calling form of fit_with for every batch (see FORM_NAMES)
    #[serde(default, skip_serializing_if = "Vec::is_empty")]
    pub forms: Vec<usize>,
}

pub const NFORMS: usize = 8;
pub const FORM_NAMES: [&str; NFORMS] = [
    "view records + owned 1-d targets, checked params",
    "reversed-row records view + reversed 1-d target view",
    "every-second-row records view + every-second-element target view (poison fillers)",
    "owned dataset with a strided (n,1) 2-d target column, into_single_target()",
    "reversed-feature-axis records view + reversed target view of encoded labels, map_targets() decodes",
    "owned dataset with extra rows of a foreign label, with_labels() filters them (CountedTargets)",
    "column-major owned dataset, UNCHECKED params (ParamGuard blanket impl)",
    "CountedTargets counted before one record is relabelled in place (as_targets_mut): the cached label list names a class that no record of the batch carries",
];

/// Every calling form of `predict` on the same standard-layout query matrix, each converted to a
/// Vec<f64>: (form name, values). For a one-row form the per-row results are concatenated.
macro_rules! predict_forms {
    ($m:expr, $q:expr, $conv:expr, $old:expr) => {{
        use linfa::traits::PredictInplace;
        let m = $m;
        let q = $q;
        let conv = $conv;
        let mut forms: Vec<(&'static str, Vec<f64>)> = Vec::new();
        forms.push(("predict(&Array2)", m.predict(q).iter().map(&conv).collect()));
        forms.push(("predict(ArrayView2)", m.predict(q.view()).targets.iter().map(&conv).collect()));
        forms.push(("predict(Array2)", m.predict(q.clone()).targets.iter().map(&conv).collect()));
        let ds = DatasetBase::new(q.clone(), $old);
        forms.push(("predict(&DatasetBase)", m.predict(&ds).iter().map(&conv).collect()));
        let back = m.predict(ds);
        if back.records != *q {
            forms.push(("predict(DatasetBase) returned other records", vec![f64::NAN]));
        }
        forms.push(("predict(DatasetBase)", back.targets.iter().map(&conv).collect()));
        let mut y = m.default_target(q);
        m.predict_inplace(q, &mut y);
        forms.push(("predict_inplace", y.iter().map(&conv).collect()));
        let mut rows = Vec::new();
        for i in 0..q.nrows() {
            let one = q.slice(s![i..i + 1, ..]);
            let r = m.predict(&one);
            if r.len() != 1 {
                rows.push(f64::NAN);
            }
            rows.extend(r.iter().map(&conv));
        }
        forms.push(("predict(&one-row view) row by row", rows));
        let mut rows = Vec::new();
        for i in 0..q.nrows() {
            let one = DatasetBase::new(q.slice(s![i..i + 1, ..]).to_owned(), $old.slice(s![0..1]).to_owned());
            rows.extend(m.predict(one).targets.iter().map(&conv));
        }
        forms.push(("predict(owned one-row DatasetBase) row by row", rows));
        forms
    }};
}

fn check_forms(tag: &str, forms: Result<Vec<(&'static str, Vec<f64>)>, String>, c: &HCase, out: &mut Out) {
    match forms {
        Err(e) => out.viols.push(Violation::new(format!("{}.predict.calling_form_dependence", tag), format!("a calling form of predict panicked: {}", e), case_json(c, json!({"op": "predict_forms"})))),
        Ok(f) => {
            for (name, v) in f.iter().skip(1) {
                out.evals += 1;
                out.nontrivial += 1;
                let same = v.len() == f[0].1.len() && v.iter().zip(&f[0].1).all(|(a, b)| a.to_bits() == b.to_bits());
                if !same {
                    out.viols.push(Violation::new(
                        format!("{}.predict.calling_form_dependence", tag),
                        format!("{} gives {:?}, {} gives {:?} on the same model and query matrix", name, v, f[0].0, f[0].1),
                        case_json(c, json!({"op": "predict_forms", "form": name})),
                    ));
                    return;
                }
            }
            out.bump("harden_predict_calling_forms_compared", f.len() as u64 - 1);
        }
    }
}

pub const NLAY: usize = 6;
pub const LAYOUT_NAMES: [&str; NLAY] = ["standard", "column_major_owned", "transposed_view", "reversed_rows_view", "every_second_row_view", "reversed_feature_axis_view"];

pub trait Fl: linfa::Float + serde::Serialize {
    const F32: bool;
}
impl Fl for f64 {
    const F32: bool = false;
}
impl Fl for f32 {
    const F32: bool = true;
}

fn to64<F: Fl>(v: F) -> f64 {
    v.to_f64().unwrap()
}

/// the value as the subject sees it after conversion to F
fn round_f<F: Fl>(v: f64) -> f64 {
    to64(F::cast(v))
}

struct Laid<F> {
    backing: Array2<F>,
    kind: usize,
}

impl<F: Fl> Laid<F> {
    fn new(rows: &[Vec<f64>], kind: usize) -> Self {
        let n = rows.len();
        let p = rows[0].len();
        let g = |i: usize, j: usize| F::cast(rows[i][j]);
        let backing = match kind {
            0 => Array2::from_shape_fn((n, p), |(i, j)| g(i, j)),
            1 => Array2::from_shape_fn((n, p).f(), |(i, j)| g(i, j)),
            2 => Array2::from_shape_fn((p, n), |(j, i)| g(i, j)),
            3 => Array2::from_shape_fn((n, p), |(i, j)| g(n - 1 - i, j)),
            4 => Array2::from_shape_fn((2 * n, p), |(i, j)| if i % 2 == 0 { g(i / 2, j) } else { F::nan() }),
            5 => Array2::from_shape_fn((n, p), |(i, j)| g(i, p - 1 - j)),
            _ => panic!("unknown layout"),
        };
        Laid { backing, kind }
    }
    fn view(&self) -> ArrayView2<'_, F> {
        match self.kind {
            0 | 1 => self.backing.view(),
            2 => self.backing.t(),
            3 => self.backing.slice(s![..;-1, ..]),
            5 => self.backing.slice(s![.., ..;-1]),
            _ => self.backing.slice(s![..;2, ..]),
        }
    }
}

fn expand(c: &HCase, i: usize) -> (Vec<Vec<f64>>, Vec<usize>) {
    let b = &c.batches[i];
    let l = c.labels.get(i).cloned().unwrap_or_default();
    let n = c.rows.get(i).cloned().unwrap_or(0);
    if n == 0 {
        return (b.clone(), l);
    }
    let m = b.len();
    ((0..n).map(|r| b[r % m].clone()).collect(), if l.is_empty() { vec![] } else { (0..n).map(|r| l[r % m]).collect() })
}

fn case_json(c: &HCase, at: Value) -> Value {
    let mut v = serde_json::to_value(c).unwrap();
    let o = v.as_object_mut().unwrap();
    o.insert("family".into(), json!("harden"));
    o.insert("at".into(), at);
    v
}

fn variant(c: &HCase) -> &'static str {
    if c.float == "f32" {
        "f32"
    } else if c.rows.iter().any(|r| *r > 64) {
        "large_batch"
    } else {
        "f64"
    }
}

pub fn run_h(c: &HCase, out: &mut Out) {
    match (c.sub.as_str(), c.float.as_str(), c.model.as_str()) {
        ("nb", "f64", "gaussian") => run_nb_h::<f64, GaussianNb<f64, usize>>(c, out),
        ("nb", "f32", "gaussian") => run_nb_h::<f32, GaussianNb<f32, usize>>(c, out),
        ("nb", "f64", "multinomial") => run_nb_h::<f64, MultinomialNb<f64, usize>>(c, out),
        ("nb", "f32", "multinomial") => run_nb_h::<f32, MultinomialNb<f32, usize>>(c, out),
        ("kmeans", "f64", "L2") => run_km_h::<f64, _>(c, L2Dist, Metric::L2, out),
        ("kmeans", "f32", "L2") => run_km_h::<f32, _>(c, L2Dist, Metric::L2, out),
        ("kmeans", "f64", "L1") => run_km_h::<f64, _>(c, L1Dist, Metric::L1, out),
        ("kmeans", "f32", "L1") => run_km_h::<f32, _>(c, L1Dist, Metric::L1, out),
        ("kmeans", "f64", "Linf") => run_km_h::<f64, _>(c, LInfDist, Metric::LInf, out),
        ("kmeans", "f32", "Linf") => run_km_h::<f32, _>(c, LInfDist, Metric::LInf, out),
        ("kmeans", "f64", "Lp3") => run_km_h::<f64, _>(c, LpDist(3.0f64), Metric::Lp(3.0), out),
        ("kmeans", "f32", "Lp3") => run_km_h::<f32, _>(c, LpDist(3.0f32), Metric::Lp(3.0), out),
        ("core_nb", _, "gaussian") => core_nb_gaussian(c, out),
        ("core_nb", _, "multinomial") => core_nb_multinomial(c, out),
        ("core_ftrl", _, _) => core_ftrl(c, out),
        ("km_fit", _, _) => km_fit_then_minibatch(c, out),
        ("ftrl", "f64", _) => run_ftrl_h::<f64>(c, out),
        ("ftrl", "f32", _) => run_ftrl_h::<f32>(c, out),
        ("builder", _, "kmeans") => builder_kmeans(c, out),
        ("builder", _, "ftrl") => builder_ftrl(c, out),
        ("builder", _, "gaussian_nb") | ("builder", _, "multinomial_nb") => builder_nb(c, out),
        _ => panic!("unknown hardening case"),
    }
}

// ------------------------------------------------------------------------------------------------
// naive Bayes
// ------------------------------------------------------------------------------------------------

trait NbM<F: Fl>: Clone + serde::Serialize {
    const GAUSSIAN: bool;
    fn step(prev: Option<Self>, smoothing: f64, x: ArrayView2<F>, y: &[usize]) -> Result<Self, String>;
    fn pred(&self, q: ArrayView2<F>) -> Result<Vec<usize>, String>;
    fn pred_forms(&self, q: &Array2<F>) -> Result<Vec<(&'static str, Vec<f64>)>, String>;
}

impl<F: Fl> NbM<F> for GaussianNb<F, usize> {
    const GAUSSIAN: bool = true;
    fn step(prev: Option<Self>, smoothing: f64, x: ArrayView2<F>, y: &[usize]) -> Result<Self, String> {
        let p = GaussianNbParams::<F, usize>::new().var_smoothing(F::cast(smoothing)).check().map_err(|e| e.to_string())?;
        let ds = DatasetBase::new(x, Array1::from_vec(y.to_vec()));
        match guarded(|| p.fit_with(prev, &ds)) {
            Ok(Ok(Some(m))) => Ok(m),
            Ok(Ok(None)) => Err("Ok(None)".into()),
            Ok(Err(e)) => Err(format!("Err({})", e)),
            Err(p) => Err(format!("panic: {}", p)),
        }
    }
    fn pred(&self, q: ArrayView2<F>) -> Result<Vec<usize>, String> {
        guarded(|| self.predict(&q).to_vec())
    }
    fn pred_forms(&self, q: &Array2<F>) -> Result<Vec<(&'static str, Vec<f64>)>, String> {
        guarded(|| predict_forms!(self, q, |v: &usize| *v as f64, Array1::<usize>::zeros(q.nrows())))
    }
}

impl<F: Fl> NbM<F> for MultinomialNb<F, usize> {
    const GAUSSIAN: bool = false;
    fn step(prev: Option<Self>, smoothing: f64, x: ArrayView2<F>, y: &[usize]) -> Result<Self, String> {
        let p = MultinomialNbParams::<F, usize>::new().alpha(F::cast(smoothing)).check().map_err(|e| e.to_string())?;
        let ds = DatasetBase::new(x, Array1::from_vec(y.to_vec()));
        match guarded(|| p.fit_with(prev, &ds)) {
            Ok(Ok(Some(m))) => Ok(m),
            Ok(Ok(None)) => Err("Ok(None)".into()),
            Ok(Err(e)) => Err(format!("Err({})", e)),
            Err(p) => Err(format!("panic: {}", p)),
        }
    }
    fn pred(&self, q: ArrayView2<F>) -> Result<Vec<usize>, String> {
        guarded(|| self.predict(&q).to_vec())
    }
    fn pred_forms(&self, q: &Array2<F>) -> Result<Vec<(&'static str, Vec<f64>)>, String> {
        guarded(|| predict_forms!(self, q, |v: &usize| *v as f64, Array1::<usize>::zeros(q.nrows())))
    }
}

fn stats_diff(a: &Stats, b: &Stats, rel: f64, abs: f64, b_extra: f64, exact_counts: bool) -> Option<String> {
    let ka: Vec<_> = a.keys().collect();
    let kb: Vec<_> = b.keys().collect();
    if ka != kb {
        return Some(format!("classes {:?} vs {:?}", ka, kb));
    }
    for (c, x) in a {
        let y = &b[c];
        if x.count != y.count {
            return Some(format!("class {} class_count {} vs {}", c, x.count, y.count));
        }
        if !close(x.prior, y.prior, rel.max(1e-12), 0.0) {
            return Some(format!("class {} prior {:e} vs {:e}", c, x.prior, y.prior));
        }
        if x.a.len() != y.a.len() || x.b.len() != y.b.len() {
            return Some(format!("class {} shapes differ", c));
        }
        for j in 0..x.a.len() {
            let ok = if exact_counts { x.a[j] == y.a[j] } else { close(x.a[j], y.a[j], rel, abs) };
            if !ok {
                return Some(format!("class {} theta / feature_count[{}] {:e} vs {:e}", c, j, x.a[j], y.a[j]));
            }
        }
        for j in 0..x.b.len() {
            let ok = if !y.b[j].is_finite() { !x.b[j].is_finite() } else { close(x.b[j], y.b[j], rel, abs + b_extra) };
            if !ok {
                return Some(format!("class {} sigma / feature_log_prob[{}] {:e} vs {:e}", c, j, x.b[j], y.b[j]));
            }
        }
    }
    None
}

fn run_nb_h<F: Fl, M: NbM<F>>(c: &HCase, out: &mut Out) {
    let gaussian = M::GAUSSIAN;
    let tag = if gaussian { "gaussian_nb" } else { "multinomial_nb" };
    let smoothing = c.hyper[0];
    let (rel, abs) = if F::F32 { (1e-4, 1e-5) } else { (1e-9, 1e-12) };
    let nonstd = c.layouts.iter().any(|l| *l != 0);
    let mut std: Option<M> = None;
    let mut lay: Option<M> = None;
    let mut cx: Vec<Vec<f64>> = Vec::new();
    let mut cy: Vec<usize> = Vec::new();
    let mut max_batch_var = 0.0f64;
    for i in 0..c.batches.len() {
        let (bx, by) = expand(c, i);
        let bx: Vec<Vec<f64>> = bx.iter().map(|r| r.iter().map(|v| round_f::<F>(*v)).collect()).collect();
        out.evals += 1;
        out.transitions += 1;
        if i > 0 {
            out.nontrivial += 1;
        }
        let l0 = Laid::<F>::new(&bx, 0);
        std = match M::step(std.take(), smoothing, l0.view(), &by) {
            Ok(m) => Some(m),
            Err(e) => {
                out.viols.push(Violation::new(format!("{}.fit_with.unexpected_failure", tag), format!("batch {} (standard layout, {}): {}", i, c.float, e), case_json(c, json!({"op": "fit_with", "batch": i}))));
                return;
            }
        };
        max_batch_var = max_batch_var.max(crate::nb::pop_var_max(&bx));
        cx.extend(bx.iter().cloned());
        cy.extend(by.iter().cloned());
        let img = serde_json::to_value(std.as_ref().unwrap()).unwrap_or(Value::Null);
        let Some(s_std) = crate::nb::stats_from_image(&img, gaussian) else {
            out.viols.push(Violation::new(format!("{}.serde_image_unreadable", tag), "serde image".to_string(), case_json(c, json!({"op": "fit_with", "batch": i}))));
            return;
        };
        if !nonstd {
            // the standard-layout replay against the textbook estimates of the consumed rows
            let smoothing_f = round_f::<F>(smoothing);
            let tb = crate::nb::textbook(gaussian, &cx, &cy, smoothing_f);
            let extra = if gaussian { smoothing_f * max_batch_var.max(tb.maxvar) * (1.0 + 1e-9) } else { 0.0 };
            if let Some(d) = stats_diff(&s_std, &tb.stats, rel, abs, extra, !gaussian && !F::F32) {
                out.viols.push(Violation::new(
                    format!("{}.fit_with.not_textbook_{}", tag, variant(c)),
                    format!("after batch {} of rows {:?} ({}): model vs textbook: {}", i, c.rows, c.float, d),
                    case_json(c, json!({"op": "fit_with", "batch": i})),
                ));
                return;
            }
            out.bump("harden_nb_steps_checked_against_textbook", 1);
        } else {
            let ll = Laid::<F>::new(&bx, c.layouts[i]);
            lay = match M::step(lay.take(), smoothing, ll.view(), &by) {
                Ok(m) => Some(m),
                Err(e) => {
                    out.viols.push(Violation::new(
                        format!("{}.layout_dependence", tag),
                        format!("batch {} in layout {} ({}): fit_with fails ({}) although the standard-layout batch is accepted", i, LAYOUT_NAMES[c.layouts[i]], c.float, e),
                        case_json(c, json!({"op": "fit_with", "batch": i})),
                    ));
                    return;
                }
            };
            let img = serde_json::to_value(lay.as_ref().unwrap()).unwrap_or(Value::Null);
            let s_lay = crate::nb::stats_from_image(&img, gaussian).unwrap_or_default();
            if let Some(d) = stats_diff(&s_lay, &s_std, rel, abs, 0.0, !gaussian) {
                out.viols.push(Violation::new(
                    format!("{}.layout_dependence", tag),
                    format!("layouts {:?} ({}): after batch {} the model differs from the standard-layout replay: {}", c.layouts.iter().map(|l| LAYOUT_NAMES[*l]).collect::<Vec<_>>(), c.float, i, d),
                    case_json(c, json!({"op": "fit_with", "batch": i})),
                ));
                return;
            }
            if s_lay == s_std {
                out.bump("harden_layout_steps_bit_identical_to_standard", 1);
            }
            out.bump("harden_layout_steps_compared", 1);
        }
    }
    // ---- predictions of the final model, query matrix in all five layouts ----
    let fin = if nonstd { lay.unwrap() } else { std.unwrap() };
    let tb = crate::nb::textbook(gaussian, &cx, &cy, round_f::<F>(smoothing));
    if !crate::nb::posterior_defined(gaussian, &tb.stats) {
        out.out_of_domain += 1;
        return;
    }
    let qs: Vec<Vec<f64>> = c.queries.iter().map(|r| r.iter().map(|v| round_f::<F>(*v)).collect()).collect();
    let clear: Vec<(usize, bool)> = qs
        .iter()
        .map(|q| {
            let mut post = crate::nb::posterior(gaussian, &tb.stats, q);
            post.sort_by(|a, b| b.1.partial_cmp(&a.1).unwrap_or(std::cmp::Ordering::Equal));
            if post.len() == 1 {
                return (post[0].0, true);
            }
            let scale = post.iter().map(|x| x.1.abs()).fold(0.0f64, f64::max);
            let thr = if F::F32 { (1e-2f64).max(1e-4 * scale) } else { (1e-6f64).max(1e-9 * scale) };
            (post[0].0, post[0].1 - post[1].1 > thr)
        })
        .collect();
    let mut preds: Vec<Vec<usize>> = Vec::new();
    for k in 0..NLAY {
        let lq = Laid::<F>::new(&qs, k);
        out.evals += 1;
        out.nontrivial += 1;
        match fin.pred(lq.view()) {
            Ok(p) => preds.push(p),
            Err(e) => {
                out.viols.push(Violation::new(
                    if k == 0 { format!("{}.predict.panic", tag) } else { format!("{}.predict.layout_dependence", tag) },
                    format!("predict on a query matrix in layout {} ({}) panicked: {}", LAYOUT_NAMES[k], c.float, e),
                    case_json(c, json!({"op": "predict", "query_layout": k})),
                ));
                return;
            }
        }
    }
    for (i, (e, cl)) in clear.iter().enumerate() {
        if !*cl {
            out.indeterminate += 1;
            continue;
        }
        if preds[0][i] != *e {
            out.viols.push(Violation::new(
                format!("{}.fit_with.prediction_not_argmax_posterior_{}", tag, variant(c)),
                format!("query {:?} ({}): predicted {}, reference posterior arg-max {}", qs[i], c.float, preds[0][i], e),
                case_json(c, json!({"op": "predict", "query": i})),
            ));
            return;
        }
        for k in 1..NLAY {
            if preds[k][i] != preds[0][i] {
                out.viols.push(Violation::new(
                    format!("{}.predict.layout_dependence", tag),
                    format!("query {:?} ({}): predicted {} from a {} query matrix, {} from the standard layout", qs[i], c.float, preds[k][i], LAYOUT_NAMES[k], preds[0][i]),
                    case_json(c, json!({"op": "predict", "query": i, "query_layout": k})),
                ));
                return;
            }
        }
    }
    out.bump("harden_predict_layout_comparisons", (NLAY as u64 - 1) * clear.len() as u64);
    let q0 = Laid::<F>::new(&qs, 0).backing;
    let forms = fin.pred_forms(&q0);
    check_forms(tag, forms, c, out);
}

// ------------------------------------------------------------------------------------------------
// mini-batch k-means
// ------------------------------------------------------------------------------------------------

fn km_step<F: Fl, D: Distance<F> + std::fmt::Debug + 'static>(c: &HCase, dist: D, prev: Option<KMeans<F, D>>, x: ArrayView2<F>) -> Result<(bool, KMeans<F, D>), String> {
    let k = c.hyper[0] as usize;
    let p = c.init[0].len();
    let init = Array2::from_shape_fn((k, p), |(i, j)| F::cast(c.init[i][j]));
    let params = KMeans::params_with(k, Xoshiro256Plus::seed_from_u64(1), dist)
        .tolerance(F::cast(c.hyper[1]))
        .init_method(KMeansInit::Precomputed(init))
        .check()
        .map_err(|e| e.to_string())?;
    let ds = DatasetBase::from(x);
    match guarded(|| params.fit_with(prev, &ds)) {
        Ok(Ok(m)) => Ok((true, m)),
        Ok(Err(IncrKMeansError::NotConverged(m))) => Ok((false, m)),
        Ok(Err(e)) => Err(format!("Err({})", e)),
        Err(p) => Err(format!("panic: {}", p)),
    }
}

fn kstate<F: Fl, D: Distance<F>>(m: &KMeans<F, D>) -> KState {
    KState { c: m.centroids().rows().into_iter().map(|r| r.iter().map(|v| to64(*v)).collect()).collect(), cnt: m.cluster_count().iter().map(|v| to64(*v)).collect() }
}

fn run_km_h<F: Fl, D: Distance<F> + std::fmt::Debug + 'static>(c: &HCase, dist: D, metric: Metric, out: &mut Out) {
    let k = c.hyper[0] as usize;
    let tol = round_f::<F>(c.hyper[1]);
    let nonstd = c.layouts.iter().any(|l| *l != 0);
    let mut std: Option<KMeans<F, D>> = None;
    let mut lay: Option<KMeans<F, D>> = None;
    let mut prev_state = KState { c: c.init[..k].iter().map(|r| r.iter().map(|v| round_f::<F>(*v)).collect()).collect(), cnt: vec![0.0; k] };
    for i in 0..c.batches.len() {
        let (bx, _) = expand(c, i);
        let bx: Vec<Vec<f64>> = bx.iter().map(|r| r.iter().map(|v| round_f::<F>(*v)).collect()).collect();
        let large = bx.len() > 64;
        let (ctol, vband) = if F::F32 { (1e-4, 1e-3) } else if large { (1e-9, 1e-6) } else { (1e-12, 1e-9) };
        out.evals += 1;
        out.transitions += 1;
        if i > 0 {
            out.nontrivial += 1;
        }
        let l0 = Laid::<F>::new(&bx, 0);
        let (ok_std, m_std) = match km_step(c, dist.clone(), std.take(), l0.view()) {
            Ok(r) => r,
            Err(e) => {
                out.viols.push(Violation::new("kmeans.fit_with.unexpected_failure", format!("batch {} ({}): {}", i, c.float, e), case_json(c, json!({"op": "fit_with", "batch": i}))));
                return;
            }
        };
        let s_std = kstate(&m_std);
        let shift = crate::km::matrix_dist(metric, &prev_state.c, &s_std.c);
        let near = (shift - tol).abs() <= vband * shift.max(tol);
        if !nonstd {
            match crate::km::ref_step(metric, &prev_state, &bx) {
                None => out.indeterminate += 1,
                Some((cands, _)) => {
                    let m = cands.iter().find(|r| r.st.cnt == s_std.cnt && r.st.c.iter().flatten().zip(s_std.c.iter().flatten()).all(|(a, b)| close(*a, *b, ctol, ctol)));
                    match m {
                        None => {
                            let cnt_ok = cands.iter().any(|r| r.st.cnt == s_std.cnt);
                            out.viols.push(Violation::new(
                                format!("kmeans.fit_with.{}_{}", if cnt_ok { "centroids_not_running_mean" } else { "cluster_count_not_cumulative" }, variant(c)),
                                format!("batch {} of {} rows ({}, {:?}): model centroids {:?} counts {:?}; own recurrence {:?} / {:?}", i, bx.len(), c.float, metric, s_std.c, s_std.cnt, cands[0].st.c, cands[0].st.cnt),
                                case_json(c, json!({"op": "fit_with", "batch": i})),
                            ));
                            return;
                        }
                        Some(r) => {
                            let decided = (r.exact && !F::F32) || (r.shift - tol).abs() > vband * r.shift.max(tol);
                            if !decided {
                                out.indeterminate += 1;
                            } else if ok_std != (r.shift < tol) {
                                out.viols.push(Violation::new(
                                    format!("kmeans.fit_with.wrong_verdict_{}", variant(c)),
                                    format!("batch {} ({}): shift {:e}, tolerance {:e}, got {}", i, c.float, r.shift, tol, if ok_std { "Ok" } else { "NotConverged" }),
                                    case_json(c, json!({"op": "fit_with", "batch": i})),
                                ));
                                return;
                            }
                            if !close(r.inertia, to64(m_std.inertia()), ctol, ctol) {
                                out.viols.push(Violation::new(
                                    format!("kmeans.fit_with.inertia_not_mean_min_distance_of_batch_{}", variant(c)),
                                    format!("batch {} ({}): inertia {:e}, own {:e}", i, c.float, to64(m_std.inertia()), r.inertia),
                                    case_json(c, json!({"op": "fit_with", "batch": i})),
                                ));
                                return;
                            }
                        }
                    }
                    out.bump("harden_kmeans_steps_checked_against_recurrence", 1);
                }
            }
        } else {
            let ll = Laid::<F>::new(&bx, c.layouts[i]);
            let (ok_lay, m_lay) = match km_step(c, dist.clone(), lay.take(), ll.view()) {
                Ok(r) => r,
                Err(e) => {
                    out.viols.push(Violation::new("kmeans.layout_dependence", format!("batch {} in layout {} ({}): fit_with fails ({})", i, LAYOUT_NAMES[c.layouts[i]], c.float, e), case_json(c, json!({"op": "fit_with", "batch": i}))));
                    return;
                }
            };
            let s_lay = kstate(&m_lay);
            let same = s_lay.cnt == s_std.cnt
                && s_lay.c.iter().flatten().zip(s_std.c.iter().flatten()).all(|(a, b)| close(*a, *b, ctol, ctol))
                && close(to64(m_lay.inertia()), to64(m_std.inertia()), ctol, ctol)
                && (near || ok_lay == ok_std);
            if !same {
                out.viols.push(Violation::new(
                    "kmeans.layout_dependence",
                    format!(
                        "layouts {:?} ({}, {:?}): after batch {} centroids {:?} counts {:?} inertia {:e} verdict {}; standard-layout replay: {:?} / {:?} / {:e} / {}",
                        c.layouts.iter().map(|l| LAYOUT_NAMES[*l]).collect::<Vec<_>>(),
                        c.float,
                        metric,
                        i,
                        s_lay.c,
                        s_lay.cnt,
                        to64(m_lay.inertia()),
                        ok_lay,
                        s_std.c,
                        s_std.cnt,
                        to64(m_std.inertia()),
                        ok_std
                    ),
                    case_json(c, json!({"op": "fit_with", "batch": i})),
                ));
                return;
            }
            if s_lay == s_std {
                out.bump("harden_layout_steps_bit_identical_to_standard", 1);
            }
            out.bump("harden_layout_steps_compared", 1);
            lay = Some(m_lay);
        }
        prev_state = s_std;
        std = Some(m_std);
    }
    let fin = if nonstd { lay.unwrap() } else { std.unwrap() };
    let qs: Vec<Vec<f64>> = c.queries.iter().map(|r| r.iter().map(|v| round_f::<F>(*v)).collect()).collect();
    let mut preds: Vec<Vec<usize>> = Vec::new();
    for kq in 0..NLAY {
        let lq = Laid::<F>::new(&qs, kq);
        out.evals += 1;
        out.nontrivial += 1;
        match guarded(|| fin.predict(&lq.view()).to_vec()) {
            Ok(p) => preds.push(p),
            Err(e) => {
                out.viols.push(Violation::new("kmeans.predict.layout_dependence", format!("predict on a {} query matrix panicked: {}", LAYOUT_NAMES[kq], e), case_json(c, json!({"op": "predict", "query_layout": kq}))));
                return;
            }
        }
    }
    // nearest centroid by the own distance, near ties excluded
    let fs = kstate(&fin);
    for (i, q) in qs.iter().enumerate() {
        let mut d: Vec<(f64, usize)> = (0..k).map(|cc| (crate::km::rdist(metric, &fs.c[cc], q), cc)).collect();
        d.sort_by(|a, b| a.0.partial_cmp(&b.0).unwrap());
        let thr = if F::F32 { 1e-4 } else { 1e-9 };
        if d.len() > 1 && d[1].0 - d[0].0 <= thr * (1.0 + d[1].0) {
            out.indeterminate += 1;
            continue;
        }
        for kq in 0..NLAY {
            if preds[kq][i] != d[0].1 {
                out.viols.push(Violation::new(
                    if kq == 0 { "kmeans.predict.not_nearest_centroid".to_string() } else { "kmeans.predict.layout_dependence".to_string() },
                    format!("query {:?} in a {} matrix ({}): predicted cluster {}, nearest centroid {}", q, LAYOUT_NAMES[kq], c.float, preds[kq][i], d[0].1),
                    case_json(c, json!({"op": "predict", "query": i, "query_layout": kq})),
                ));
                return;
            }
        }
    }
    out.bump("harden_predict_layout_comparisons", (NLAY as u64 - 1) * qs.len() as u64);
    let q0 = Laid::<F>::new(&qs, 0).backing;
    let forms = guarded(|| {
        let mut f = predict_forms!(&fin, &q0, |v: &usize| *v as f64, Array1::<usize>::zeros(q0.nrows()));
        // the one-observation form: predict(&ArrayView1) -> usize
        let single: Vec<f64> = (0..q0.nrows()).map(|i| fin.predict(&q0.row(i)) as f64).collect();
        f.push(("predict(&ArrayView1) observation by observation", single));
        f
    });
    check_forms("kmeans", forms, c, out);
}

// ------------------------------------------------------------------------------------------------
// FTRL
// ------------------------------------------------------------------------------------------------

fn fstate<F: Fl>(m: &Ftrl<F>) -> FState {
    FState { z: m.z().iter().map(|v| to64(*v)).collect(), n: m.n().iter().map(|v| to64(*v)).collect() }
}

fn run_ftrl_h<F: Fl>(c: &HCase, out: &mut Out) {
    let p = c.batches[0][0].len();
    let hy: Vec<f64> = c.hyper.iter().map(|v| round_f::<F>(*v)).collect();
    let params = match FtrlParams::new(F::cast(c.hyper[0]), F::cast(c.hyper[1]), F::cast(c.hyper[2]), F::cast(c.hyper[3]), Xoshiro256Plus::seed_from_u64(42)).check() {
        Ok(p) => p,
        Err(e) => panic!("invalid ftrl parameters {}", e),
    };
    let refcase = FtrlCase { pool_x: vec![], pool_y: vec![], alpha: hy[0], beta: hy[1], l1: hy[2], l2: hy[3], z0: vec![], max_len: 0, only_history: None };
    let nonstd = c.layouts.iter().any(|l| *l != 0);
    let m0 = Ftrl::new(params.clone(), p);
    let mut prev_state = fstate(&m0);
    let mut std: Option<Ftrl<F>> = None;
    let mut lay: Option<Ftrl<F>> = None;
    let scale = if F::F32 { 1e3 } else { 1.0 };
    for i in 0..c.batches.len() {
        let (bx, by) = expand(c, i);
        let bx: Vec<Vec<f64>> = bx.iter().map(|r| r.iter().map(|v| round_f::<F>(*v)).collect()).collect();
        let yb: Vec<bool> = by.iter().map(|v| *v == 1).collect();
        out.evals += 1;
        out.transitions += 1;
        if i > 0 {
            out.nontrivial += 1;
        }
        let rf = crate::ftrl::ref_step(&prev_state, &bx, &yb, &refcase);
        if rf.is_none() {
            out.out_of_domain += 1;
            return;
        }
        let rf = rf.unwrap();
        let l0 = Laid::<F>::new(&bx, 0);
        let ds = DatasetBase::new(l0.view(), Array1::from_vec(yb.clone()));
        let prev = std.take();
        let m_std = match guarded(|| params.fit_with(prev, &ds)) {
            Ok(Ok(m)) => m,
            other => {
                out.viols.push(Violation::new("ftrl.fit_with.unexpected_failure", format!("batch {} ({}): {:?}", i, c.float, other.map(|r| r.map(|_| ()).map_err(|e| e.to_string()))), case_json(c, json!({"op": "fit_with", "batch": i}))));
                return;
            }
        };
        let s_std = fstate(&m_std);
        if !nonstd {
            for j in 0..p {
                if !((s_std.n[j] - rf.n[j]).abs() <= rf.tol_n[j] * scale) || !((s_std.z[j] - rf.z[j]).abs() <= rf.tol_z[j] * scale) {
                    out.viols.push(Violation::new(
                        format!("ftrl.fit_with.not_ftrl_proximal_recurrence_{}", variant(c)),
                        format!("batch {} of {} rows ({}): z[{}] = {:e}, n[{}] = {:e}; own recurrence z = {:e}, n = {:e}", i, bx.len(), c.float, j, s_std.z[j], j, s_std.n[j], rf.z[j], rf.n[j]),
                        case_json(c, json!({"op": "fit_with", "batch": i})),
                    ));
                    return;
                }
            }
            out.bump("harden_ftrl_steps_checked_against_recurrence", 1);
        } else {
            let ll = Laid::<F>::new(&bx, c.layouts[i]);
            let ds = DatasetBase::new(ll.view(), Array1::from_vec(yb.clone()));
            let prev = lay.take();
            let m_lay = match guarded(|| params.fit_with(prev, &ds)) {
                Ok(Ok(m)) => m,
                _ => {
                    out.viols.push(Violation::new("ftrl.layout_dependence", format!("batch {} in layout {} ({}): fit_with fails", i, LAYOUT_NAMES[c.layouts[i]], c.float), case_json(c, json!({"op": "fit_with", "batch": i}))));
                    return;
                }
            };
            let s_lay = fstate(&m_lay);
            for j in 0..p {
                if !((s_lay.n[j] - s_std.n[j]).abs() <= rf.tol_n[j] * scale) || !((s_lay.z[j] - s_std.z[j]).abs() <= rf.tol_z[j] * scale) {
                    out.viols.push(Violation::new(
                        "ftrl.layout_dependence",
                        format!("layouts {:?} ({}): after batch {} z = {:?}, n = {:?}; standard-layout replay z = {:?}, n = {:?}", c.layouts.iter().map(|l| LAYOUT_NAMES[*l]).collect::<Vec<_>>(), c.float, i, s_lay.z, s_lay.n, s_std.z, s_std.n),
                        case_json(c, json!({"op": "fit_with", "batch": i})),
                    ));
                    return;
                }
            }
            if s_lay == s_std {
                out.bump("harden_layout_steps_bit_identical_to_standard", 1);
            }
            out.bump("harden_layout_steps_compared", 1);
            lay = Some(m_lay);
        }
        prev_state = s_std;
        std = Some(m_std);
    }
    let fin = if nonstd { lay.unwrap() } else { std.unwrap() };
    let qs: Vec<Vec<f64>> = c.queries.iter().map(|r| r.iter().map(|v| round_f::<F>(*v)).collect()).collect();
    let mut preds: Vec<Vec<f64>> = Vec::new();
    for kq in 0..NLAY {
        let lq = Laid::<F>::new(&qs, kq);
        out.evals += 1;
        out.nontrivial += 1;
        match guarded(|| fin.predict(&lq.view()).iter().map(|p: &Pr| **p as f64).collect::<Vec<f64>>()) {
            Ok(p) => preds.push(p),
            Err(e) => {
                out.viols.push(Violation::new("ftrl.predict.layout_dependence", format!("predict on a {} query matrix panicked: {}", LAYOUT_NAMES[kq], e), case_json(c, json!({"op": "predict", "query_layout": kq}))));
                return;
            }
        }
    }
    // own probabilities from the model's own (z, n)
    let fs = fstate(&fin);
    let w: Vec<f64> = (0..p).map(|j| crate::ftrl::prox(fs.z[j], fs.n[j], &refcase)).collect();
    let ptol = if F::F32 { 1e-4 } else { 1e-6 };
    for (i, q) in qs.iter().enumerate() {
        if w.iter().any(|v| !v.is_finite()) {
            out.out_of_domain += 1;
            break;
        }
        let t: f64 = q.iter().zip(&w).map(|(a, b)| a * b).sum::<f64>().min(35.0).max(-35.0);
        let want = 1.0 / (1.0 + (-t).exp());
        for kq in 0..NLAY {
            if !((preds[kq][i] - want).abs() <= ptol) {
                out.viols.push(Violation::new(
                    if kq == 0 { "ftrl.predict.not_sigmoid_of_weights".to_string() } else { "ftrl.predict.layout_dependence".to_string() },
                    format!("query {:?} in a {} matrix ({}): probability {:e}, sigmoid(x.w) = {:e}", q, LAYOUT_NAMES[kq], c.float, preds[kq][i], want),
                    case_json(c, json!({"op": "predict", "query": i, "query_layout": kq})),
                ));
                return;
            }
        }
    }
    out.bump("harden_predict_layout_comparisons", (NLAY as u64 - 1) * qs.len() as u64);
    let q0 = Laid::<F>::new(&qs, 0).backing;
    let forms = guarded(|| predict_forms!(&fin, &q0, |p: &Pr| **p as f64, Array1::<bool>::from_elem(q0.nrows(), false)));
    check_forms("ftrl", forms, c, out);
}

// ------------------------------------------------------------------------------------------------
// builder history
// ------------------------------------------------------------------------------------------------

fn batch_arr(b: &[Vec<f64>]) -> Array2<f64> {
    Array2::from_shape_fn((b.len(), b[0].len()), |(i, j)| b[i][j])
}

fn builder_kmeans(c: &HCase, out: &mut Out) {
    type P = linfa_clustering::KMeansParams<f64, Xoshiro256Plus, L2Dist>;
    let apply = |p: P, id: usize, decoy: bool| -> P {
        match (id, decoy) {
            (0, false) => p.n_runs(3),
            (0, true) => p.n_runs(9),
            (1, false) => p.tolerance(0.5),
            (1, true) => p.tolerance(9.0),
            (2, false) => p.max_n_iterations(7),
            (2, true) => p.max_n_iterations(99),
            (3, false) => p.init_method(KMeansInit::Random),
            _ => p.init_method(KMeansInit::KMeansPara),
        }
    };
    let observe = |p: P| -> Result<String, String> {
        let v = p.check().map_err(|e| e.to_string())?;
        let mut s = format!("n_runs={} tolerance={:e} max_n_iterations={} n_clusters={} init={:?}", v.n_runs(), v.tolerance(), v.max_n_iterations(), v.n_clusters(), v.init_method());
        let mut m: Option<KMeans<f64, L2Dist>> = None;
        for b in &c.batches {
            let ds = DatasetBase::from(batch_arr(b));
            let (ok, mm) = match guarded(|| v.fit_with(m.take(), &ds)) {
                Ok(Ok(mm)) => (true, mm),
                Ok(Err(IncrKMeansError::NotConverged(mm))) => (false, mm),
                Ok(Err(e)) => return Err(e.to_string()),
                Err(p) => return Err(p),
            };
            s += &format!(" | {} {:?} {:?} {:e}", ok, mm.centroids().iter().map(|x| x.to_bits()).collect::<Vec<_>>(), mm.cluster_count().to_vec(), mm.inertia());
            m = Some(mm);
        }
        Ok(s)
    };
    let fresh = || KMeans::<f64, L2Dist>::params_with(2, Xoshiro256Plus::seed_from_u64(11), L2Dist);
    let canonical = observe((0..4).fold(fresh(), |p, id| apply(p, id, false)));
    let mut orders: Vec<(Vec<usize>, bool)> = Vec::new();
    for perm in lvmc_core::enumerate::permutations(4) {
        orders.push((perm.clone(), false));
        orders.push((perm, true));
    }
    for (perm, decoy) in orders {
        out.evals += 1;
        out.nontrivial += 1;
        let mut p = fresh();
        if decoy {
            for &id in perm.iter().rev() {
                p = apply(p, id, true);
            }
        }
        for &id in &perm {
            p = apply(p, id, false);
        }
        let got = observe(p);
        if got != canonical {
            out.viols.push(Violation::new(
                "kmeans.params.builder_order_dependence",
                format!("setters (0 n_runs, 1 tolerance, 2 max_n_iterations, 3 init_method) in order {:?}{}: getters / model history {:?}; canonical order: {:?}", perm, if decoy { " after decoy writes" } else { "" }, got, canonical),
                case_json(c, json!({"op": "builder", "order": perm, "decoy": decoy})),
            ));
            return;
        }
    }
    // the two constructors must agree as well
    out.evals += 1;
    let a = observe((0..4).fold(KMeans::<f64, L2Dist>::params_with_rng(2, Xoshiro256Plus::seed_from_u64(11)), |p, id| apply(p, id, false)));
    if a != canonical {
        out.viols.push(Violation::new("kmeans.params.builder_order_dependence", format!("params_with_rng vs params_with(.., L2Dist): {:?} vs {:?}", a, canonical), case_json(c, json!({"op": "builder", "constructor": "params_with_rng"}))));
    }
}

fn builder_ftrl(c: &HCase, out: &mut Out) {
    type P = FtrlParams<f64, Xoshiro256Plus>;
    let apply = |p: P, id: usize, decoy: bool| -> P {
        match (id, decoy) {
            (0, false) => p.alpha(0.5),
            (0, true) => p.alpha(0.9),
            (1, false) => p.beta(1.0),
            (1, true) => p.beta(0.3),
            (2, false) => p.l1_ratio(0.25),
            (2, true) => p.l1_ratio(0.9),
            (3, false) => p.l2_ratio(0.75),
            (3, true) => p.l2_ratio(0.1),
            (4, false) => p.rng(Xoshiro256Plus::seed_from_u64(7)),
            _ => p.rng(Xoshiro256Plus::seed_from_u64(99)),
        }
    };
    let nfeat = c.batches[0][0].len();
    let observe = |p: P| -> Result<String, String> {
        let v = p.check().map_err(|e| e.to_string())?;
        let mut s = format!("alpha={:e} beta={:e} l1={:e} l2={:e}", v.alpha(), v.beta(), v.l1_ratio(), v.l2_ratio());
        let m0 = Ftrl::new(v.clone(), nfeat);
        s += &format!(" | new: z={:?} model alpha={:e} beta={:e} l1={:e} l2={:e}", m0.z().iter().map(|x| x.to_bits()).collect::<Vec<_>>(), m0.alpha(), m0.beta(), m0.l1_ratio(), m0.l2_ratio());
        let mut m: Option<Ftrl<f64>> = None;
        for (i, b) in c.batches.iter().enumerate() {
            let y: Vec<bool> = c.labels[i].iter().map(|v| *v == 1).collect();
            let ds = DatasetBase::new(batch_arr(b), Array1::from_vec(y));
            let mm = match guarded(|| v.fit_with(m.take(), &ds)) {
                Ok(Ok(mm)) => mm,
                Ok(Err(e)) => return Err(e.to_string()),
                Err(p) => return Err(p),
            };
            s += &format!(" | z={:?} n={:?}", mm.z().iter().map(|x| x.to_bits()).collect::<Vec<_>>(), mm.n().iter().map(|x| x.to_bits()).collect::<Vec<_>>());
            m = Some(mm);
        }
        Ok(s)
    };
    let canonical = observe((0..5).fold(Ftrl::<f64>::params(), |p, id| apply(p, id, false)));
    for perm in lvmc_core::enumerate::permutations(5) {
        for decoy in [false, true] {
            out.evals += 1;
            out.nontrivial += 1;
            let mut p = Ftrl::<f64>::params();
            if decoy {
                for &id in perm.iter().rev() {
                    p = apply(p, id, true);
                }
            }
            for &id in &perm {
                p = apply(p, id, false);
            }
            let got = observe(p);
            if got != canonical {
                out.viols.push(Violation::new(
                    "ftrl.params.builder_order_dependence",
                    format!("setters (0 alpha, 1 beta, 2 l1_ratio, 3 l2_ratio, 4 rng) in order {:?}{}: getters / model history {:?}; canonical order: {:?}", perm, if decoy { " after decoy writes" } else { "" }, got, canonical),
                    case_json(c, json!({"op": "builder", "order": perm, "decoy": decoy})),
                ));
                return;
            }
        }
    }
    // FtrlParams::new with all values at once
    out.evals += 1;
    let a = observe(FtrlParams::new(0.5, 1.0, 0.25, 0.75, Xoshiro256Plus::seed_from_u64(7)));
    if a != canonical {
        out.viols.push(Violation::new("ftrl.params.builder_order_dependence", format!("FtrlParams::new(..) vs setters: {:?} vs {:?}", a, canonical), case_json(c, json!({"op": "builder", "constructor": "new"}))));
    }
}

fn builder_nb(c: &HCase, out: &mut Out) {
    let gaussian = c.model == "gaussian_nb";
    let tag = if gaussian { "gaussian_nb" } else { "multinomial_nb" };
    // variants: 0 = set once, 1 = decoy then real, 2 = via Model::params(), 3 = real written twice
    let observe = |variant: usize| -> Result<String, String> {
        let mut s;
        let mut hist = String::new();
        if gaussian {
            let p = match variant {
                0 => GaussianNbParams::<f64, usize>::new().var_smoothing(1e-3),
                1 => GaussianNbParams::<f64, usize>::new().var_smoothing(0.5).var_smoothing(1e-3),
                2 => GaussianNb::<f64, usize>::params().var_smoothing(1e-3),
                _ => GaussianNbParams::<f64, usize>::default().var_smoothing(1e-3).var_smoothing(1e-3),
            };
            let v = p.check().map_err(|e| e.to_string())?;
            s = format!("var_smoothing={:e}", v.var_smoothing());
            let mut m = None;
            for (i, b) in c.batches.iter().enumerate() {
                let ds = DatasetBase::new(batch_arr(b), Array1::from_vec(c.labels[i].clone()));
                m = match guarded(|| v.fit_with(m.take(), &ds)) {
                    Ok(Ok(mm)) => mm,
                    Ok(Err(e)) => return Err(e.to_string()),
                    Err(p) => return Err(p),
                };
                let st = crate::nb::stats_from_image(&serde_json::to_value(m.as_ref().unwrap()).unwrap(), true);
                hist += &format!(" | {:?}", st);
            }
        } else {
            let p = match variant {
                0 => MultinomialNbParams::<f64, usize>::new().alpha(0.5),
                1 => MultinomialNbParams::<f64, usize>::new().alpha(3.0).alpha(0.5),
                2 => MultinomialNb::<f64, usize>::params().alpha(0.5),
                _ => MultinomialNbParams::<f64, usize>::default().alpha(0.5).alpha(0.5),
            };
            let v = p.check().map_err(|e| e.to_string())?;
            s = format!("alpha={:e}", v.alpha());
            let mut m = None;
            for (i, b) in c.batches.iter().enumerate() {
                let ds = DatasetBase::new(batch_arr(b), Array1::from_vec(c.labels[i].clone()));
                m = match guarded(|| v.fit_with(m.take(), &ds)) {
                    Ok(Ok(mm)) => mm,
                    Ok(Err(e)) => return Err(e.to_string()),
                    Err(p) => return Err(p),
                };
                let st = crate::nb::stats_from_image(&serde_json::to_value(m.as_ref().unwrap()).unwrap(), false);
                hist += &format!(" | {:?}", st);
            }
        }
        s += &hist;
        Ok(s)
    };
    let canonical = observe(0);
    for v in 1..4 {
        out.evals += 1;
        out.nontrivial += 1;
        let got = observe(v);
        if got != canonical {
            out.viols.push(Violation::new(
                format!("{}.params.builder_order_dependence", tag),
                format!("builder variant {} (1 decoy then real, 2 via Model::params(), 3 written twice): {:?}; set once: {:?}", v, got, canonical),
                case_json(c, json!({"op": "builder", "variant": v})),
            ));
            return;
        }
    }
}

// ------------------------------------------------------------------------------------------------
// core-crate routing: calling forms of fit / fit_with, target layouts, dataset helpers
// ------------------------------------------------------------------------------------------------

/// Builds the dataset of one batch in the given calling form and evaluates `$body` with `$ds`
/// bound to a reference to it and `$unchecked` to "use the unchecked params".
/// `$poison`: filler label; `$enc` / `$dec`: stored encoding of the labels for the map_targets form;
/// `$extra`: Some(label) adds foreign rows that with_labels has to filter out; `$keep`: the
/// label list handed to with_labels.
macro_rules! with_form {
    ($form:expr, $bx:expr, $by:expr, $poison:expr, $enc:expr, $dec:expr, $extra:expr, $keep:expr, $absent:expr, $ds:ident, $unchecked:ident => $body:expr) => {{
        let bx: &Vec<Vec<f64>> = $bx;
        let by = $by;
        let n = bx.len();
        let p = bx[0].len();
        match $form {
            0 => {
                let l = Laid::<f64>::new(bx, 0);
                let d = DatasetBase::new(l.view(), Array1::from_vec(by.clone()));
                let $ds = &d;
                let $unchecked = false;
                $body
            }
            1 => {
                let l = Laid::<f64>::new(bx, 3);
                let t = Array1::from_shape_fn(n, |i| by[n - 1 - i].clone());
                let d = DatasetBase::new(l.view(), t.slice(s![..;-1]));
                let $ds = &d;
                let $unchecked = false;
                $body
            }
            2 => {
                let l = Laid::<f64>::new(bx, 4);
                let t = Array1::from_shape_fn(2 * n, |i| if i % 2 == 0 { by[i / 2].clone() } else { $poison(&by[i / 2]) });
                let d = DatasetBase::new(l.view(), t.slice(s![..;2]));
                let $ds = &d;
                let $unchecked = false;
                $body
            }
            3 => {
                let rec = Laid::<f64>::new(bx, 0).backing;
                let t2 = Array2::from_shape_fn((n, 2), |(i, j)| if j == 1 { by[i].clone() } else { $poison(&by[i]) });
                let d = linfa::Dataset::new(rec, t2.slice_move(s![.., 1..2])).into_single_target();
                let $ds = &d;
                let $unchecked = false;
                $body
            }
            4 => {
                let l = Laid::<f64>::new(bx, 5);
                let t = Array1::from_shape_fn(n, |i| $enc(&by[n - 1 - i]));
                let d = DatasetBase::new(l.view(), t.slice(s![..;-1])).map_targets($dec);
                let $ds = &d;
                let $unchecked = false;
                $body
            }
            5 => {
                let mut rows: Vec<Vec<f64>> = Vec::new();
                let mut labs = Vec::new();
                for i in 0..n {
                    rows.push(bx[i].clone());
                    labs.push(by[i].clone());
                    if let Some(e) = $extra {
                        if i % 2 == 1 || n == 1 {
                            rows.push(vec![77.0; p]);
                            labs.push(e);
                        }
                    }
                }
                let rec = Laid::<f64>::new(&rows, 0).backing;
                let full = DatasetBase::new(rec, Array1::from_vec(labs));
                let d = full.with_labels($keep);
                let $ds = &d;
                let $unchecked = false;
                $body
            }
            7 => {
                use linfa::dataset::{AsTargetsMut, CountedTargets};
                let rec = Laid::<f64>::new(bx, 0).backing;
                let mut y = by.clone();
                let mut retag = None;
                if let Some(z) = $absent {
                    // mis-tag one record of a class that keeps at least one other record
                    if let Some(i) = (0..n).find(|&i| by.iter().filter(|l| **l == by[i]).count() >= 2) {
                        y[i] = z;
                        retag = Some((i, by[i].clone()));
                    }
                }
                let mut d = DatasetBase::new(rec, CountedTargets::new(Array1::from_vec(y)));
                if let Some((i, l)) = retag {
                    d.as_targets_mut()[i] = l;
                }
                let $ds = &d;
                let $unchecked = false;
                $body
            }
            _ => {
                let rec = Laid::<f64>::new(bx, 1).backing;
                let d = DatasetBase::new(rec, Array1::from_vec(by.clone()));
                let $ds = &d;
                let $unchecked = true;
                $body
            }
        }
    }};
}

macro_rules! core_nb_runner {
    ($fname:ident, $Params:ident, $Model:ident, $setter:ident, $gaussian:expr, $tag:expr) => {
        fn $fname(c: &HCase, out: &mut Out) {
            use linfa::dataset::{AsSingleTargets, Labels};
            use linfa::traits::Fit;
            use ndarray::{ArrayBase, Data, Ix2};
            type M = $Model<f64, usize>;
            fn fitw<D: Data<Elem = f64>, T: AsSingleTargets<Elem = usize> + Labels<Elem = usize>>(prev: Option<M>, s: f64, ds: &DatasetBase<ArrayBase<D, Ix2>, T>, unchecked: bool) -> Result<M, String> {
                let p = $Params::<f64, usize>::new().$setter(s);
                let r = if unchecked {
                    guarded(|| p.fit_with(prev, ds).map_err(|e| e.to_string()))
                } else {
                    let v = p.check().map_err(|e| e.to_string())?;
                    guarded(|| v.fit_with(prev, ds).map_err(|e| e.to_string()))
                };
                match r {
                    Ok(Ok(Some(m))) => Ok(m),
                    Ok(Ok(None)) => Err("Ok(None)".into()),
                    Ok(Err(e)) => Err(format!("Err({})", e)),
                    Err(p) => Err(format!("panic: {}", p)),
                }
            }
            fn fit1<D: Data<Elem = f64>, T: AsSingleTargets<Elem = usize> + Labels<Elem = usize>>(s: f64, ds: &DatasetBase<ArrayBase<D, Ix2>, T>, unchecked: bool) -> Result<M, String> {
                let p = $Params::<f64, usize>::new().$setter(s);
                let r = if unchecked {
                    guarded(|| p.fit(ds).map_err(|e| e.to_string()))
                } else {
                    let v = p.check().map_err(|e| e.to_string())?;
                    guarded(|| v.fit(ds).map_err(|e| e.to_string()))
                };
                match r {
                    Ok(Ok(m)) => Ok(m),
                    Ok(Err(e)) => Err(format!("Err({})", e)),
                    Err(p) => Err(format!("panic: {}", p)),
                }
            }
            fn step(prev: Option<M>, s: f64, bx: &Vec<Vec<f64>>, by: &Vec<usize>, form: usize, seen: &[usize]) -> Result<M, String> {
                let mut keep: Vec<usize> = by.clone();
                keep.sort();
                keep.dedup();
                // a class the model already knows but this batch lacks
                let absent: Option<usize> = seen.iter().cloned().find(|z| !by.contains(z));
                with_form!(form, bx, by, |_l: &usize| 99usize, |l: &usize| *l + 100, |l: &usize| *l - 100, Some(7usize), &keep, absent, ds, unchecked => fitw(prev, s, ds, unchecked))
            }
            fn single(s: f64, bx: &Vec<Vec<f64>>, by: &Vec<usize>, form: usize) -> Result<M, String> {
                let mut keep: Vec<usize> = by.clone();
                keep.sort();
                keep.dedup();
                with_form!(form, bx, by, |_l: &usize| 99usize, |l: &usize| *l + 100, |l: &usize| *l - 100, Some(7usize), &keep, None::<usize>, ds, unchecked => fit1(s, ds, unchecked))
            }
            let gaussian: bool = $gaussian;
            let tag: &str = $tag;
            let sm = c.hyper[0];
            let all_std = c.forms.iter().all(|f| *f == 0);
            let mut std: Option<M> = None;
            let mut lay: Option<M> = None;
            let mut cx: Vec<Vec<f64>> = Vec::new();
            let mut cy: Vec<usize> = Vec::new();
            let mut max_batch_var = 0.0f64;
            let stats = |m: &M| crate::nb::stats_from_image(&serde_json::to_value(m).unwrap_or(Value::Null), gaussian).unwrap_or_default();
            for i in 0..c.batches.len() {
                let (bx, by) = expand(c, i);
                out.evals += 1;
                out.transitions += 1;
                if i > 0 {
                    out.nontrivial += 1;
                }
                let seen = cy.clone();
                if c.forms.get(i) == Some(&7) && seen.iter().any(|z| !by.contains(z)) && (0..by.len()).any(|r| by.iter().filter(|l| **l == by[r]).count() >= 2) {
                    out.bump("harden_batches_whose_label_list_names_an_absent_class", 1);
                }
                std = match step(std.take(), sm, &bx, &by, 0, &seen) {
                    Ok(m) => Some(m),
                    Err(e) => {
                        out.viols.push(Violation::new(format!("{}.fit_with.unexpected_failure", tag), format!("batch {}: {}", i, e), case_json(c, json!({"op": "fit_with", "batch": i}))));
                        return;
                    }
                };
                max_batch_var = max_batch_var.max(crate::nb::pop_var_max(&bx));
                cx.extend(bx.iter().cloned());
                cy.extend(by.iter().cloned());
                let s_std = stats(std.as_ref().unwrap());
                if all_std {
                    let tb = crate::nb::textbook(gaussian, &cx, &cy, sm);
                    let extra = if gaussian { sm * max_batch_var.max(tb.maxvar) * (1.0 + 1e-9) } else { 0.0 };
                    if let Some(d) = stats_diff(&s_std, &tb.stats, 1e-9, 1e-12, extra, !gaussian) {
                        out.viols.push(Violation::new(format!("{}.fit_with.not_textbook_f64", tag), format!("after batch {}: {}", i, d), case_json(c, json!({"op": "fit_with", "batch": i}))));
                        return;
                    }
                } else {
                    lay = match step(lay.take(), sm, &bx, &by, c.forms[i], &seen) {
                        Ok(m) => Some(m),
                        Err(e) => {
                            out.viols.push(Violation::new(
                                format!("{}.fit_with.calling_form_dependence", tag),
                                format!("batch {} as [{}]: fit_with fails ({}) although the plain form is accepted", i, FORM_NAMES[c.forms[i]], e),
                                case_json(c, json!({"op": "fit_with", "batch": i})),
                            ));
                            return;
                        }
                    };
                    let s_lay = stats(lay.as_ref().unwrap());
                    if let Some(d) = stats_diff(&s_lay, &s_std, 1e-9, 1e-12, 0.0, !gaussian) {
                        out.viols.push(Violation::new(
                            format!("{}.fit_with.calling_form_dependence", tag),
                            format!("forms {:?}: after batch {} the model differs from the plain-form replay: {}", c.forms.iter().map(|f| FORM_NAMES[*f]).collect::<Vec<_>>(), i, d),
                            case_json(c, json!({"op": "fit_with", "batch": i})),
                        ));
                        return;
                    }
                    out.bump("harden_calling_form_steps_compared", 1);
                }
            }
            // a single batch is also fed through Fit::fit in the same form
            if c.batches.len() == 1 {
                let (bx, by) = expand(c, 0);
                out.evals += 1;
                match single(sm, &bx, &by, c.forms[0]) {
                    Ok(m) => {
                        if let Some(d) = stats_diff(&stats(&m), &stats(std.as_ref().unwrap()), 1e-9, 1e-12, 0.0, !gaussian) {
                            out.viols.push(Violation::new(
                                format!("{}.fit.calling_form_dependence", tag),
                                format!("fit as [{}] differs from fit_with(None) in the plain form: {}", FORM_NAMES[c.forms[0]], d),
                                case_json(c, json!({"op": "fit"})),
                            ));
                        }
                    }
                    Err(e) => out.viols.push(Violation::new(format!("{}.fit.calling_form_dependence", tag), format!("fit as [{}] fails: {}", FORM_NAMES[c.forms[0]], e), case_json(c, json!({"op": "fit"})))),
                }
            }
        }
    };
}

core_nb_runner!(core_nb_gaussian, GaussianNbParams, GaussianNb, var_smoothing, true, "gaussian_nb");
core_nb_runner!(core_nb_multinomial, MultinomialNbParams, MultinomialNb, alpha, false, "multinomial_nb");

fn core_ftrl(c: &HCase, out: &mut Out) {
    use linfa::dataset::AsSingleTargets;
    use ndarray::{ArrayBase, Data, Ix2};
    type M = Ftrl<f64>;
    let hy = c.hyper.clone();
    fn go<D: Data<Elem = f64>, T: AsSingleTargets<Elem = bool>>(prev: Option<M>, hy: &[f64], ds: &DatasetBase<ArrayBase<D, Ix2>, T>, unchecked: bool) -> Result<M, String> {
        let p = FtrlParams::new(hy[0], hy[1], hy[2], hy[3], Xoshiro256Plus::seed_from_u64(42));
        let r = if unchecked {
            guarded(|| p.fit_with(prev, ds).map_err(|e| e.to_string()))
        } else {
            let v = p.check().map_err(|e| e.to_string())?;
            guarded(|| v.fit_with(prev, ds).map_err(|e| e.to_string()))
        };
        match r {
            Ok(Ok(m)) => Ok(m),
            Ok(Err(e)) => Err(format!("Err({})", e)),
            Err(p) => Err(format!("panic: {}", p)),
        }
    }
    fn step(prev: Option<M>, hy: &[f64], bx: &Vec<Vec<f64>>, by: &Vec<bool>, form: usize) -> Result<M, String> {
        let keep = [false, true];
        with_form!(form, bx, by, |l: &bool| !*l, |l: &bool| if *l { 9usize } else { 2usize }, |x: &usize| *x > 6, None::<bool>, &keep, None::<bool>, ds, unchecked => go(prev, hy, ds, unchecked))
    }
    let mut std: Option<M> = None;
    let mut lay: Option<M> = None;
    for i in 0..c.batches.len() {
        let (bx, by) = expand(c, i);
        let yb: Vec<bool> = by.iter().map(|v| *v == 1).collect();
        out.evals += 1;
        out.transitions += 1;
        if i > 0 {
            out.nontrivial += 1;
        }
        std = match step(std.take(), &hy, &bx, &yb, 0) {
            Ok(m) => Some(m),
            Err(e) => {
                out.viols.push(Violation::new("ftrl.fit_with.unexpected_failure", format!("batch {}: {}", i, e), case_json(c, json!({"op": "fit_with", "batch": i}))));
                return;
            }
        };
        lay = match step(lay.take(), &hy, &bx, &yb, c.forms[i]) {
            Ok(m) => Some(m),
            Err(e) => {
                out.viols.push(Violation::new("ftrl.fit_with.calling_form_dependence", format!("batch {} as [{}]: fit_with fails ({})", i, FORM_NAMES[c.forms[i]], e), case_json(c, json!({"op": "fit_with", "batch": i}))));
                return;
            }
        };
        let (a, b) = (fstate(lay.as_ref().unwrap()), fstate(std.as_ref().unwrap()));
        let ok = a.z.iter().zip(&b.z).all(|(x, y)| (x - y).abs() <= 1e-6 * (1.0 + y.abs())) && a.n.iter().zip(&b.n).all(|(x, y)| (x - y).abs() <= 1e-6 * (1.0 + y.abs()));
        if !ok {
            out.viols.push(Violation::new(
                "ftrl.fit_with.calling_form_dependence",
                format!("forms {:?}: after batch {} z = {:?}, n = {:?}; plain-form replay z = {:?}, n = {:?}", c.forms.iter().map(|f| FORM_NAMES[*f]).collect::<Vec<_>>(), i, a.z, a.n, b.z, b.n),
                case_json(c, json!({"op": "fit_with", "batch": i})),
            ));
            return;
        }
        out.bump("harden_calling_form_steps_compared", 1);
    }
}


// ------------------------------------------------------------------------------------------------
// k-means: a history that STARTS with a batch `fit` (several restarts) and continues with
// mini-batch steps
// ------------------------------------------------------------------------------------------------

/// hyper = [k, n_runs, seed, tolerance]; batches[0] = data of the batch fit, batches[1..] = the
/// mini-batches. Oracle: cluster_count after `fit` == sizes of the clusters of the RETURNED
/// centroids (every row assigned to its nearest returned centroid; a row within 1e-9 of
/// equidistant makes the case indeterminate), and every following fit_with step == the running
/// mean recurrence from (returned centroids, those counts) / from the previous state.
fn km_fit_then_minibatch(c: &HCase, out: &mut Out) {
    use linfa::traits::Fit;
    let k = c.hyper[0] as usize;
    let params = match KMeans::params_with(k, Xoshiro256Plus::seed_from_u64(c.hyper[2] as u64), L2Dist)
        .n_runs(c.hyper[1] as usize)
        .tolerance(c.hyper[3])
        .init_method(KMeansInit::Random)
        .check()
    {
        Ok(p) => p,
        Err(e) => panic!("invalid parameters {}", e),
    };
    let data = &c.batches[0];
    let ds = DatasetBase::from(batch_arr(data));
    out.evals += 1;
    out.transitions += 1;
    let model = match guarded(|| params.fit(&ds)) {
        Ok(Ok(m)) => m,
        Ok(Err(e)) => {
            out.viols.push(Violation::new("kmeans.fit.unexpected_error", e.to_string(), case_json(c, json!({"op": "fit"}))));
            return;
        }
        Err(p) => {
            out.viols.push(Violation::new("kmeans.fit.panic", p, case_json(c, json!({"op": "fit"}))));
            return;
        }
    };
    let st = kstate(&model);
    let mut want = vec![0.0; k];
    for x in data {
        let mut d: Vec<(f64, usize)> = (0..k).map(|cc| (crate::km::rdist(Metric::L2, &st.c[cc], x), cc)).collect();
        d.sort_by(|a, b| a.0.partial_cmp(&b.0).unwrap());
        if d.len() > 1 && d[1].0 - d[0].0 <= 1e-9 * (1.0 + d[1].0) {
            out.indeterminate += 1;
            return;
        }
        want[d[0].1] += 1.0;
    }
    if st.cnt != want {
        out.viols.push(Violation::new(
            "kmeans.fit.cluster_count_not_sizes_of_returned_clusters",
            format!("fit with n_runs = {}, seed {}: cluster_count {:?}, but the returned centroids {:?} own {:?} of the {} training rows", c.hyper[1], c.hyper[2], st.cnt, st.c, want, data.len()),
            case_json(c, json!({"op": "fit"})),
        ));
        return;
    }
    out.bump("harden_kmeans_fit_counts_checked", 1);
    let mut prev_state = st;
    let mut m = Some(model);
    for (i, b) in c.batches.iter().enumerate().skip(1) {
        out.evals += 1;
        out.transitions += 1;
        out.nontrivial += 1;
        let dsb = DatasetBase::from(batch_arr(b));
        let pm = m.take();
        let (ok, nm) = match guarded(|| params.fit_with(pm, &dsb)) {
            Ok(Ok(x)) => (true, x),
            Ok(Err(IncrKMeansError::NotConverged(x))) => (false, x),
            other => {
                out.viols.push(Violation::new("kmeans.fit_with.unexpected_failure", format!("step {} after fit: {:?}", i, other.map(|_| ()).map_err(|e| e)), case_json(c, json!({"op": "fit_with", "batch": i}))));
                return;
            }
        };
        let got = kstate(&nm);
        match crate::km::ref_step(Metric::L2, &prev_state, b) {
            None => {
                out.indeterminate += 1;
                return;
            }
            Some((cands, _)) => {
                let hit = cands.iter().find(|r| r.st.cnt == got.cnt && r.st.c.iter().flatten().zip(got.c.iter().flatten()).all(|(a, b)| close(*a, *b, 1e-12, 1e-12)));
                match hit {
                    None => {
                        let cnt_ok = cands.iter().any(|r| r.st.cnt == got.cnt);
                        out.viols.push(Violation::new(
                            if cnt_ok { "kmeans.fit_with.centroids_not_running_mean_after_fit" } else { "kmeans.fit_with.cluster_count_not_cumulative_after_fit" },
                            format!("mini-batch step {} after a batch fit: centroids {:?} counts {:?}; own recurrence from the fitted state {:?}: {:?} / {:?}", i, got.c, got.cnt, prev_state, cands[0].st.c, cands[0].st.cnt),
                            case_json(c, json!({"op": "fit_with", "batch": i})),
                        ));
                        return;
                    }
                    Some(r) => {
                        let tol = c.hyper[3];
                        if (r.shift - tol).abs() > 1e-9 * r.shift.max(tol) && ok != (r.shift < tol) {
                            out.viols.push(Violation::new("kmeans.fit_with.wrong_verdict_after_fit", format!("step {}: shift {:e}, tolerance {:e}, got {}", i, r.shift, tol, ok), case_json(c, json!({"op": "fit_with", "batch": i}))));
                            return;
                        }
                    }
                }
            }
        }
        out.bump("harden_kmeans_minibatch_steps_after_fit_checked", 1);
        prev_state = got;
        m = Some(nm);
    }
}
