//! Mini-batch k-means: explicit-state exploration of every batch sequence of length <= L from a
//! pool of tiny batches. State = (centroids, cumulative cluster_count). Transition = one real
//! `fit_with` call (repeated for every tolerance of the case), stepped in lock-step with an own
//! running-mean recurrence that starts from the previous state.

use crate::common::*;
use linfa::traits::FitWith;
use linfa::{DatasetBase, ParamGuard};
use linfa_clustering::{IncrKMeansError, KMeans, KMeansInit, KMeansValidParams};
use linfa_nn::distance::{Distance, L1Dist, L2Dist, LInfDist, LpDist};
use lvmc_core::{guarded, json, Value, Violation};
use ndarray::Array2;
use rand_xoshiro::rand_core::SeedableRng;
use rand_xoshiro::Xoshiro256Plus;
use serde::{Deserialize, Serialize};
use std::collections::{HashMap, VecDeque};

#[derive(Clone, Debug, Serialize, Deserialize)]
pub struct KmCase {
    pub pool_name: String,
    /// "L2" | "L1" | "Linf": the distance function handed to KMeans::params_with
    #[serde(default = "default_metric")]
    pub metric: String,
    /// the pool of batches (each a list of rows)
    pub pool: Vec<Vec<Vec<f64>>>,
    pub k: usize,
    /// "precomputed" | "kmeans++" | "random"
    pub init: String,
    /// for "precomputed": the k initial centroids
    #[serde(default)]
    pub init_centroids: Vec<Vec<f64>>,
    pub seed: u64,
    pub n_runs: usize,
    pub tolerances: Vec<f64>,
    pub max_len: usize,
    /// large-batch family: the listed pool entries hold a few distinct points and are blown up to
    /// `n` rows when the case is run ("cyclic": row i = point i mod m; "blocks": all copies of
    /// point 0, then of point 1, ...; the last point takes the remainder)
    #[serde(default, skip_serializing_if = "Vec::is_empty")]
    pub replicate: Vec<Replicate>,
    #[serde(default, skip_serializing_if = "Option::is_none")]
    pub only_history: Option<Vec<usize>>,
}

#[derive(Clone, Debug, Serialize, Deserialize)]
pub struct Replicate {
    pub batch: usize,
    pub n: usize,
    pub layout: String,
}

/// batches with more rows than this are compared with the looser LARGE tolerances
const LARGE_BATCH: usize = 64;
/// centroids / inertia of a large batch: relative 1e-9 (a different but correct summation order
/// over thousands of rows differs from the per-row recurrence by ~n * 1e-16)
pub const KM_TOL_LARGE: f64 = 1e-9;
/// relative half-width of the band around the tolerance inside which the converged / not-converged
/// verdict is not judged (unless the shift is decided in exact arithmetic)
pub const VERDICT_BAND: f64 = 1e-9;
pub const VERDICT_BAND_LARGE: f64 = 1e-6;

fn expand_pool(case: &KmCase) -> Vec<Vec<Vec<f64>>> {
    let mut pool = case.pool.clone();
    for r in &case.replicate {
        let pts = case.pool[r.batch].clone();
        let m = pts.len();
        let mut rows = Vec::with_capacity(r.n);
        if r.layout == "cyclic" {
            for i in 0..r.n {
                rows.push(pts[i % m].clone());
            }
        } else {
            let per = r.n / m;
            for (pi, p) in pts.iter().enumerate() {
                let cnt = if pi == m - 1 { r.n - per * (m - 1) } else { per };
                for _ in 0..cnt {
                    rows.push(p.clone());
                }
            }
        }
        pool[r.batch] = rows;
    }
    pool
}

/// exactly representable "small dyadic rational": multiple of 2^-10 below 2^10 in magnitude; sums,
/// differences, squares and products with small integers of such numbers are exact in f64
fn on_grid(v: f64) -> bool {
    v.is_finite() && v.abs() < 1024.0 && (v * 1024.0).fract() == 0.0
}

fn default_metric() -> String {
    "L2".to_string()
}

pub const KM_TOL: f64 = 1e-12;
const TIE_COMBO_CAP: usize = 256;

type Model<D> = KMeans<f64, D>;
type Params<D> = KMeansValidParams<f64, Xoshiro256Plus, D>;

/// Own definition of the three metrics. `rdist` is what the subject documents for the
/// nearest-centroid assignment and the inertia (`Distance::rdistance`: squared Euclidean for L2,
/// the plain distance otherwise); `matrix_dist` is the distance of the metric applied to the whole
/// centroid matrix (`Distance::distance` on 2-d views), which is the shift compared with the
/// tolerance: Frobenius norm / sum of all |differences| / largest |difference|.
#[derive(Clone, Copy, PartialEq, Debug)]
pub(crate) enum Metric {
    L2,
    L1,
    LInf,
    /// Minkowski distance (sum |d|^p)^(1/p); `rdistance` is the plain distance
    Lp(f64),
}

pub(crate) fn metric_of(s: &str) -> Metric {
    match s {
        "L2" => Metric::L2,
        "L1" => Metric::L1,
        "Linf" => Metric::LInf,
        "Lp3" => Metric::Lp(3.0),
        "Lp1.5" => Metric::Lp(1.5),
        _ => panic!("unknown metric"),
    }
}

pub(crate) fn rdist(m: Metric, a: &[f64], b: &[f64]) -> f64 {
    match m {
        Metric::L2 => a.iter().zip(b).map(|(x, y)| (x - y) * (x - y)).sum(),
        Metric::L1 => a.iter().zip(b).map(|(x, y)| (x - y).abs()).sum(),
        Metric::LInf => a.iter().zip(b).map(|(x, y)| (x - y).abs()).fold(0.0, f64::max),
        Metric::Lp(p) => a.iter().zip(b).map(|(x, y)| (x - y).abs().powf(p)).sum::<f64>().powf(1.0 / p),
    }
}

pub(crate) fn matrix_dist(m: Metric, a: &[Vec<f64>], b: &[Vec<f64>]) -> f64 {
    let fa: Vec<f64> = a.iter().flatten().cloned().collect();
    let fb: Vec<f64> = b.iter().flatten().cloned().collect();
    match m {
        Metric::L2 => rdist(Metric::L2, &fa, &fb).sqrt(),
        _ => rdist(m, &fa, &fb),
    }
}

#[derive(Clone, Debug, PartialEq)]
pub(crate) struct KState {
    pub c: Vec<Vec<f64>>,
    pub cnt: Vec<f64>,
}

fn params<D: Distance<f64>>(case: &KmCase, tol: f64, dist_fn: D) -> Params<D> {
    let init = match case.init.as_str() {
        "precomputed" => {
            let p = case.init_centroids[0].len();
            KMeansInit::Precomputed(Array2::from_shape_fn((case.k, p), |(i, j)| case.init_centroids[i][j]))
        }
        "kmeans++" => KMeansInit::KMeansPlusPlus,
        "random" => KMeansInit::Random,
        _ => panic!("unknown init"),
    };
    KMeans::params_with(case.k, Xoshiro256Plus::seed_from_u64(case.seed), dist_fn)
        .tolerance(tol)
        .n_runs(case.n_runs)
        .init_method(init)
        .check()
        .expect("valid k-means parameters")
}

fn state_of<D: Distance<f64>>(m: &Model<D>) -> KState {
    KState {
        c: m.centroids().rows().into_iter().map(|r| r.to_vec()).collect(),
        cnt: m.cluster_count().to_vec(),
    }
}

fn canon(s: &KState) -> Vec<u8> {
    let mut out = Vec::new();
    for r in &s.c {
        bits(r, &mut out);
    }
    bits(&s.cnt, &mut out);
    out
}


/// One candidate outcome of the reference step.
pub(crate) struct RefOut {
    pub st: KState,
    pub shift: f64,
    pub inertia: f64,
    /// every operation that produced the new centroids and the shift was exact (all operands
    /// small dyadic rationals, every division and the square root exact): `shift` IS the real
    /// number, so `shift < tolerance` can be judged exactly, even at equality
    pub exact: bool,
}

/// Own recurrence: assign every row of the batch to its nearest centroid of the PREVIOUS state
/// (all assignments first), then in row order `count[c] += 1; c += (x - c) / count[c]`.
/// Equidistant centroids (within 1e-12 relative) make the assignment a choice: every combination
/// of admissible choices is returned (None when there are more than TIE_COMBO_CAP combinations).
pub(crate) fn ref_step(metric: Metric, prev: &KState, batch: &[Vec<f64>]) -> Option<(Vec<RefOut>, bool)> {
    let k = prev.c.len();
    let mut tie_sets: Vec<Vec<usize>> = Vec::new();
    let mut inertia = 0.0;
    for x in batch {
        let d: Vec<f64> = (0..k).map(|c| rdist(metric, &prev.c[c], x)).collect();
        let dmin = d.iter().cloned().fold(f64::INFINITY, f64::min);
        inertia += dmin;
        tie_sets.push((0..k).filter(|&c| d[c] <= dmin + 1e-12 * (1.0 + dmin)).collect());
    }
    inertia /= batch.len() as f64;
    let combos: usize = tie_sets.iter().fold(1usize, |acc, t| acc.saturating_mul(t.len()).min(TIE_COMBO_CAP + 1));
    if combos > TIE_COMBO_CAP {
        return None;
    }
    let had_ties = combos > 1;
    let mut outs = Vec::new();
    let mut choice = vec![0usize; batch.len()];
    loop {
        let mut c = prev.c.clone();
        let mut cnt = prev.cnt.clone();
        let mut exact = prev.c.iter().flatten().all(|v| on_grid(*v)) && batch.len() <= LARGE_BATCH;
        for (i, x) in batch.iter().enumerate() {
            let m = tie_sets[i][choice[i]];
            cnt[m] += 1.0;
            for j in 0..x.len() {
                let diff = x[j] - c[m][j];
                let sh = diff / cnt[m];
                c[m][j] += sh;
                exact = exact && on_grid(x[j]) && on_grid(sh) && sh * cnt[m] == diff && on_grid(c[m][j]);
            }
        }
        let shift = matrix_dist(metric, &prev.c, &c);
        if let Metric::Lp(_) = metric {
            exact = false;
        }
        if metric == Metric::L2 {
            // the sum of squares of grid numbers is exact; the root is exact iff it is a grid
            // number whose square gives the sum back
            let s2: f64 = prev.c.iter().flatten().zip(c.iter().flatten()).map(|(a, b)| (a - b) * (a - b)).sum();
            exact = exact && on_grid(shift) && shift * shift == s2;
        }
        outs.push(RefOut { st: KState { c, cnt }, shift, inertia, exact });
        // next combination
        let mut i = 0;
        loop {
            if i == batch.len() {
                return Some((outs, had_ties));
            }
            choice[i] += 1;
            if choice[i] < tie_sets[i].len() {
                break;
            }
            choice[i] = 0;
            i += 1;
        }
    }
}

fn same_centroids(a: &KState, b: &KState, tol: f64) -> bool {
    a.c.iter().zip(&b.c).all(|(r, s)| r.iter().zip(s).all(|(x, y)| close(*x, *y, tol, tol)))
}

enum Step<D: Distance<f64>> {
    Ok(Model<D>),
    NotConverged(Model<D>),
    Error(String),
    Panic(String),
}

fn real_step<D: Distance<f64> + std::fmt::Debug + 'static>(p: &Params<D>, prev: Option<&Model<D>>, batch: &[Vec<f64>]) -> Step<D> {
    let d = batch[0].len();
    let x = Array2::from_shape_fn((batch.len(), d), |(i, j)| batch[i][j]);
    let ds = DatasetBase::from(x);
    let prev = prev.cloned();
    match guarded(|| p.fit_with(prev, &ds)) {
        Ok(Ok(m)) => Step::Ok(m),
        Ok(Err(IncrKMeansError::NotConverged(m))) => Step::NotConverged(m),
        Ok(Err(e)) => Step::Error(format!("{}", e)),
        Err(pn) => Step::Panic(pn),
    }
}

struct Node<D: Distance<f64>> {
    model: Option<Model<D>>,
    st: Option<KState>,
    hist: Vec<usize>,
}

pub fn run_km(case: &KmCase, out: &mut Out) {
    match metric_of(&case.metric) {
        Metric::L2 => run_km_d(case, L2Dist, out),
        Metric::L1 => run_km_d(case, L1Dist, out),
        Metric::LInf => run_km_d(case, LInfDist, out),
        Metric::Lp(p) => run_km_d(case, LpDist(p), out),
    }
}

fn run_km_d<D: Distance<f64> + std::fmt::Debug + 'static>(case: &KmCase, dist_fn: D, out: &mut Out) {
    let metric = metric_of(&case.metric);
    let cj = |hist: &[usize], extra: Value| -> Value {
        let mut c = case.clone();
        c.only_history = Some(hist.to_vec());
        let mut v = serde_json::to_value(&c).unwrap();
        let o = v.as_object_mut().unwrap();
        o.insert("family".into(), json!("kmeans"));
        o.insert("at".into(), extra);
        v
    };
    let ps: Vec<Params<D>> = case.tolerances.iter().map(|&t| params(case, t, dist_fn.clone())).collect();
    let pool = expand_pool(case);
    let nb = pool.len();
    let mut nodes: Vec<Node<D>> = vec![Node { model: None, st: None, hist: vec![] }];
    let mut index: HashMap<Vec<u8>, usize> = HashMap::new();
    let mut edges: HashMap<(usize, usize), usize> = HashMap::new();
    let mut q: VecDeque<usize> = VecDeque::new();
    q.push_back(0);
    out.states += 1;
    while let Some(id) = q.pop_front() {
        let depth = nodes[id].hist.len();
        if depth >= case.max_len {
            continue;
        }
        for b in 0..nb {
            if let Some(only) = &case.only_history {
                if only.get(depth) != Some(&b) {
                    continue;
                }
            }
            let batch = &pool[b];
            let large = batch.len() > LARGE_BATCH;
            let ctol = if large { KM_TOL_LARGE } else { KM_TOL };
            let vband = if large { VERDICT_BAND_LARGE } else { VERDICT_BAND };
            if large && depth == 0 {
                out.bump("kmeans_large_batch_first_transitions", 1);
            } else if large {
                out.bump("kmeans_large_batch_later_transitions", 1);
            }
            let mut hist = nodes[id].hist.clone();
            hist.push(b);
            // documented precondition of the random initialisation: at least k rows to draw from
            if nodes[id].model.is_none() && case.init == "random" && batch.len() < case.k {
                out.out_of_domain += 1;
                continue;
            }
            out.transitions += 1;
            // ---- the real calls: one per tolerance, all must carry the same model ----
            let mut results: Vec<(bool, Model<D>)> = Vec::new();
            let mut failed = false;
            for p in &ps {
                out.evals += 1;
                if depth > 0 {
                    out.nontrivial += 1;
                }
                match real_step(p, nodes[id].model.as_ref(), batch) {
                    Step::Ok(m) => results.push((true, m)),
                    Step::NotConverged(m) => results.push((false, m)),
                    Step::Error(e) => {
                        out.viols.push(Violation::new(
                            "kmeans.fit_with.unexpected_error",
                            format!("history {:?}: fit_with returned Err({})", hist, e),
                            cj(&hist, json!({"op": "fit_with"})),
                        ));
                        failed = true;
                        break;
                    }
                    Step::Panic(e) => {
                        out.viols.push(Violation::new(
                            "kmeans.fit_with.panic",
                            format!("history {:?}: fit_with panicked: {}", hist, e),
                            cj(&hist, json!({"op": "fit_with"})),
                        ));
                        failed = true;
                        break;
                    }
                }
            }
            if failed {
                continue;
            }
            let got = state_of(&results[0].1);
            let got_inertia = results[0].1.inertia();
            let key0 = canon(&got);
            if results.iter().any(|(_, m)| canon(&state_of(m)) != key0 || m.inertia().to_bits() != got_inertia.to_bits()) {
                out.viols.push(Violation::new(
                    "kmeans.fit_with.model_depends_on_tolerance_or_verdict",
                    format!("history {:?}: the models carried by Ok / NotConverged differ between tolerances {:?}", hist, case.tolerances),
                    cj(&hist, json!({"op": "fit_with"})),
                ));
                continue;
            }
            // ---- the reference step(s) ----
            let prevs: Vec<KState> = match &nodes[id].st {
                Some(s) => vec![s.clone()],
                None => {
                    if case.init == "precomputed" {
                        vec![KState { c: case.init_centroids.clone(), cnt: vec![0.0; case.k] }]
                    } else {
                        // seeded initialisation: the initial centroids are rows of the first batch
                        // (k distinct rows for "random", any k rows for "kmeans++"): every such
                        // choice is admissible, the observed model must follow from one of them
                        // (a replicated large batch: any k of its distinct points, repeats allowed)
                        let rows: Vec<Vec<f64>> = if large {
                            let mut d: Vec<Vec<f64>> = Vec::new();
                            for r in batch {
                                if !d.contains(r) {
                                    d.push(r.clone());
                                }
                            }
                            d
                        } else {
                            batch.clone()
                        };
                        let n = rows.len();
                        let seqs = if case.init == "random" && !large {
                            lvmc_core::enumerate::arrangements(n, case.k)
                        } else {
                            lvmc_core::enumerate::sequences(case.k, n)
                        };
                        seqs.iter()
                            .map(|s| KState { c: s.iter().map(|&i| rows[i].clone()).collect(), cnt: vec![0.0; case.k] })
                            .collect()
                    }
                }
            };
            let mut cands: Vec<RefOut> = Vec::new();
            let mut ties = false;
            let mut capped = false;
            for pv in &prevs {
                match ref_step(metric, pv, batch) {
                    Some((o, t)) => {
                        ties |= t;
                        cands.extend(o);
                    }
                    None => capped = true,
                }
            }
            let matching: Vec<&RefOut> = cands.iter().filter(|c| c.st.cnt == got.cnt && same_centroids(&c.st, &got, ctol)).collect();
            if (capped && matching.is_empty()) || cands.is_empty() {
                // some admissible starting point has too many equidistant assignments to enumerate
                // and none of the enumerated ones explains the model: no verdict
                out.indeterminate += 1;
                out.bump("kmeans_transitions_skipped_tie_combinations_over_cap", 1);
                continue;
            }
            if ties {
                out.bump("kmeans_transitions_with_equidistant_centroids", 1);
            }
            if got.cnt.iter().any(|c| *c == 0.0) {
                out.bump("kmeans_transitions_with_an_empty_cluster", 1);
            }
            if matching.is_empty() {
                let cnt_ok = cands.iter().any(|c| c.st.cnt == got.cnt);
                let sig = if !cnt_ok {
                    "kmeans.fit_with.cluster_count_not_cumulative"
                } else {
                    "kmeans.fit_with.centroids_not_running_mean"
                };
                let c0 = &cands[0];
                out.viols.push(Violation::new(
                    sig,
                    format!(
                        "history {:?}: after batch {:?} from previous state {:?} the model has centroids {:?} / cluster_count {:?}; own recurrence (c += (x - c)/count in row order, cumulative counts) gives centroids {:?} / counts {:?}{}",
                        hist,
                        if large { &batch[..8] } else { &batch[..] },
                        prevs.first(),
                        got.c,
                        got.cnt,
                        c0.st.c,
                        c0.st.cnt,
                        if cands.len() > 1 { format!(" (or one of {} other admissible outcomes)", cands.len() - 1) } else { String::new() }
                    ),
                    cj(&hist, json!({"op": "fit_with"})),
                ));
                continue;
            }
            // ---- verdict per tolerance: Ok iff shift < tolerance ----
            for (ti, (ok, _)) in results.iter().enumerate() {
                let tol = case.tolerances[ti];
                let mut verdicts: Vec<Option<bool>> = matching
                    .iter()
                    .map(|m| {
                        if m.exact || (m.shift - tol).abs() > vband * m.shift.max(tol) {
                            Some(m.shift < tol)
                        } else {
                            None
                        }
                    })
                    .collect();
                verdicts.dedup();
                if verdicts.iter().any(|v| v.is_none()) {
                    out.indeterminate += 1;
                    continue;
                }
                if metric != Metric::L2 {
                    let (lo, hi) = if tol < 1.0 { (tol * tol, tol) } else { (tol, tol * tol) };
                    if matching.iter().all(|m| m.shift > lo && m.shift < hi) {
                        out.bump("kmeans_non_euclidean_verdicts_with_shift_strictly_between_tolerance_and_its_square", 1);
                    }
                }
                if matching.iter().any(|m| m.exact && m.shift == tol) {
                    out.bump("kmeans_verdicts_with_shift_equal_to_tolerance_decided_in_exact_arithmetic", 1);
                }
                if matching.iter().any(|m| m.exact) {
                    out.bump("kmeans_verdicts_decided_in_exact_arithmetic", 1);
                }
                if *ok {
                    out.bump("kmeans_verdicts_converged", 1);
                } else {
                    out.bump("kmeans_verdicts_not_converged", 1);
                }
                if !verdicts.contains(&Some(*ok)) {
                    let sh = matching[0].shift;
                    let sig = if *ok { "kmeans.fit_with.reports_converged_although_shift_not_below_tolerance" } else { "kmeans.fit_with.reports_not_converged_although_shift_below_tolerance" };
                    out.viols.push(Violation::new(
                        sig,
                        format!(
                            "metric {}, history {:?}: centroid shift (distance of the metric between old and new centroid matrix) {:e}, tolerance {:e}: expected {}, got {}",
                            case.metric,
                            hist,
                            sh,
                            tol,
                            if sh < tol { "Ok" } else { "NotConverged" },
                            if *ok { "Ok" } else { "NotConverged" }
                        ),
                        cj(&hist, json!({"op": "fit_with", "tolerance": tol})),
                    ));
                }
            }
            // ---- inertia: mean reduced distance (squared for L2) of the batch rows to their nearest (previous) centroid ----
            if !matching.iter().any(|m| close(m.inertia, got_inertia, ctol, ctol)) {
                out.viols.push(Violation::new(
                    "kmeans.fit_with.inertia_not_mean_min_distance_of_batch",
                    format!("history {:?}: inertia {:e}, mean squared distance of the batch to the nearest centroid {:e}", hist, got_inertia, matching[0].inertia),
                    cj(&hist, json!({"op": "fit_with"})),
                ));
            }
            // ---- successor state ----
            let tgt = match index.get(&key0) {
                Some(&t) => {
                    out.bump("kmeans_transitions_into_an_already_known_state", 1);
                    t
                }
                None => {
                    let t = nodes.len();
                    nodes.push(Node { model: Some(results[0].1.clone()), st: Some(got.clone()), hist: hist.clone() });
                    index.insert(key0, t);
                    out.states += 1;
                    q.push_back(t);
                    t
                }
            };
            edges.insert((id, b), tgt);
        }
    }
    // ---- the model is a function of the history alone: fresh folds of every full-length
    // history (no shared prefixes, no clones) must land bit-for-bit on the explored states ----
    {
        let p0 = &ps[0];
        let seqs = match &case.only_history {
            Some(h) => vec![h.clone()],
            None => lvmc_core::enumerate::sequences(case.max_len, nb),
        };
        for seq in seqs {
            let mut m: Option<Model<D>> = None;
            let mut id = 0usize;
            let mut okp = true;
            for (d, &b) in seq.iter().enumerate() {
                let Some(&t) = edges.get(&(id, b)) else {
                    okp = false;
                    break;
                };
                let r = match real_step(p0, m.as_ref(), &pool[b]) {
                    Step::Ok(x) | Step::NotConverged(x) => x,
                    _ => {
                        okp = false;
                        break;
                    }
                };
                out.evals += 1;
                out.nontrivial += 1;
                if Some(&canon(&state_of(&r))) != nodes[t].st.as_ref().map(canon).as_ref() {
                    out.viols.push(Violation::new(
                        "kmeans.fit_with.same_history_different_model",
                        format!("history {:?}: a fresh replay reaches a different model than the first exploration", &seq[..=d]),
                        cj(&seq[..=d], json!({"op": "fresh_replay"})),
                    ));
                    okp = false;
                    break;
                }
                m = Some(r);
                id = t;
            }
            if okp {
                out.traces += 1;
            }
        }
    }
}
