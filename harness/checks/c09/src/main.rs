//! C09 — k-means assigns to the nearest centroid and each Lloyd step lowers the cost.
//!
//! Two exhaustively enumerated case families (DESIGN.md §4 C09):
//!
//! * `trajectory` (lock-step model checking): dataset x float x metric x k x Precomputed start x
//!   tolerance; the REAL `fit` is run with `max_n_iterations(m)`, `n_runs(1)` for every budget
//!   m = 1..M and its centroids must be a member of the set of states that the harness' own
//!   (nondeterministic on ties) m_k-means reference step reaches after m transitions from the same
//!   start, the stop rule included. Cost recomputed by the harness must not increase with m (L2).
//! * `seeded`: Random / k-means++ / k-means|| initialisation x seed x iteration cap, restarts
//!   r = 1..R from the same seed (reported inertia must not increase with r).
//!
//! Every fitted model of both families is checked structurally (k x d, finite, bounding box), its
//! `predict` (batch and single row) / `transform` against an independent arg-min scan with tie
//! sets on training and new points, and its reported `inertia` / `cluster_count` against the cost
//! and the nearest-centroid histogram of the RETURNED centroids.

use linfa::prelude::*;
use linfa::{DatasetBase, Float};
use linfa_clustering::{KMeans, KMeansInit, KMeansParams};
use linfa_nn::distance::{Distance, L1Dist, L2Dist, LInfDist, LpDist};
use lvmc_core::enumerate as en;
use lvmc_core::{close, guarded, json, Ctx, Level, Value, Violation};
use ndarray::{s, Array1, Array2, ArrayBase, ArrayView2, Data, Ix2, ShapeBuilder};
use rand::{RngCore, SeedableRng};
use rand_xoshiro::Xoshiro256Plus;
use serde::{Deserialize, Serialize};
use std::collections::{BTreeMap, HashMap};
use std::sync::atomic::{AtomicU64, AtomicUsize, Ordering};
use std::sync::{Arc, Mutex};

// ------------------------------------------------------------------------------------------
// case
// ------------------------------------------------------------------------------------------

#[derive(Clone, Debug, Serialize, Deserialize)]
struct Case {
    kind: String,   // "trajectory" | "seeded"
    family: String, // dataset family / affine image
    data: Vec<Vec<f64>>,
    float: String,  // "f32" | "f64"
    metric: String, // "L2" | "L1" | "Linf" | "Lp3"
    k: usize,
    tol: f64,
    queries: Vec<Vec<f64>>,
    // trajectory
    #[serde(default)]
    init: Vec<Vec<f64>>,
    #[serde(default)]
    init_from_data: bool,
    #[serde(default)]
    budgets: usize,
    // seeded
    #[serde(default)]
    init_kind: String, // "random" | "kmeans++" | "kmeans||"
    #[serde(default)]
    seed: u64,
    #[serde(default)]
    max_runs: usize,
    #[serde(default)]
    max_iter: u64,
    /// seeded, L2: additionally fit with n_runs in {2, max_runs} for every budget 1..=ladder and
    /// compare the cost of the returned centroids along the budgets (0 = off)
    #[serde(default)]
    ladder: usize,
    /// replicated family (kind "replicated"): multiplicity of every row of `data`, row order
    #[serde(default)]
    mult: Vec<usize>,
    #[serde(default)]
    interleave: bool,
    /// also run the memory-layout sweep for this case
    #[serde(default)]
    layouts: bool,
}

#[derive(Clone, Copy, PartialEq, Debug)]
enum Met {
    L2,
    L1,
    LInf,
    Lp3,
}

#[derive(Default)]
struct Cnt(BTreeMap<&'static str, u64>);
impl Cnt {
    fn add(&mut self, k: &'static str, n: u64) {
        *self.0.entry(k).or_insert(0) += n;
    }
    fn get(&self, k: &str) -> u64 {
        self.0.get(k).cloned().unwrap_or(0)
    }
}

// ------------------------------------------------------------------------------------------
// reference maths (plain f64, no linfa code)
// ------------------------------------------------------------------------------------------

/// reduced distance: squared euclidean for L2, sum of absolute differences for L1
fn rd(met: Met, a: &[f64], b: &[f64]) -> f64 {
    match met {
        Met::L2 => a.iter().zip(b).map(|(x, y)| (x - y) * (x - y)).sum(),
        Met::L1 => a.iter().zip(b).map(|(x, y)| (x - y).abs()).sum(),
        // LInfDist / LpDist do not override rdistance: reduced distance == distance
        Met::LInf => a.iter().zip(b).map(|(x, y)| (x - y).abs()).fold(0.0, f64::max),
        Met::Lp3 => a.iter().zip(b).map(|(x, y)| (x - y).abs().powi(3)).sum::<f64>().cbrt(),
    }
}

/// distance between two centroid matrices (flattened), as used by the stop rule
fn mat_dist(met: Met, a: &[f64], b: &[f64]) -> f64 {
    match met {
        Met::L2 => rd(Met::L2, a, b).sqrt(),
        m => rd(m, a, b),
    }
}

/// Numerical context of one case: all tolerances are derived here and nowhere else.
#[derive(Clone, Debug)]
struct Num {
    eps: f64,  // machine epsilon of the subject's float type
    rel: f64,  // relative tolerance of float comparisons: 1e-9 (f64) / 1e-4 (f32)
    tie: f64,  // two reduced distances closer than this are treated as tied (either answer accepted)
    ctol: f64, // centroid coordinates equal up to this absolute error
    crit_noise: f64,
}

impl Num {
    fn new(is_f32: bool, met: Met, pts: &[Vec<f64>], extra: &[Vec<f64>], n: usize, d: usize, k: usize) -> Num {
        let eps = if is_f32 { f32::EPSILON as f64 } else { f64::EPSILON };
        let rel = if is_f32 { 1e-4 } else { 1e-9 };
        let mut mag: f64 = 0.0;
        let mut lo = vec![f64::INFINITY; d];
        let mut hi = vec![f64::NEG_INFINITY; d];
        for p in pts.iter().chain(extra.iter()) {
            for j in 0..d {
                mag = mag.max(p[j].abs());
                lo[j] = lo[j].min(p[j]);
                hi[j] = hi[j].max(p[j]);
            }
        }
        let mag = mag.max(1e-300);
        let diam_l2 = (0..d).map(|j| (hi[j] - lo[j]) * (hi[j] - lo[j])).sum::<f64>().sqrt();
        let diam_l1 = (0..d).map(|j| hi[j] - lo[j]).sum::<f64>();
        // absolute error bound of a centroid coordinate computed in the subject's float type
        // (sum of <= n+1 numbers of magnitude mag, one division)
        let e_c = 2.0 * (n as f64 + 2.0) * eps * mag;
        let tie = match met {
            Met::L2 => 4.0 * diam_l2 * e_c + 4.0 * e_c * e_c + 64.0 * eps * diam_l2 * diam_l2,
            _ => 4.0 * d as f64 * e_c + 64.0 * eps * diam_l1,
        };
        let ctol = (rel * mag).max(4.0 * e_c);
        let crit_noise = match met {
            Met::L2 => 2.0 * e_c * ((k * d) as f64).sqrt(),
            _ => 2.0 * e_c * (k * d) as f64,
        };
        Num { eps, rel, tie, ctol, crit_noise }
    }
}

/// for every point the set of centroids within `tie` of the minimal reduced distance
fn tie_sets(met: Met, pts: &[Vec<f64>], cent: &[f64], k: usize, d: usize, tie: f64) -> Vec<Vec<u8>> {
    pts.iter()
        .map(|p| {
            let rds: Vec<f64> = (0..k).map(|c| rd(met, p, &cent[c * d..(c + 1) * d])).collect();
            let best = rds.iter().cloned().fold(f64::INFINITY, f64::min);
            (0..k).filter(|&c| rds[c] <= best + tie).map(|c| c as u8).collect()
        })
        .collect()
}

/// cost (sum over points of the minimal reduced distance) of a centroid set
/// (`w` = multiplicity of every point; all ones except in the replicated family)
fn cost(met: Met, pts: &[Vec<f64>], w: &[f64], cent: &[f64], k: usize, d: usize) -> f64 {
    pts.iter()
        .zip(w)
        .map(|(p, &w)| w * (0..k).map(|c| rd(met, p, &cent[c * d..(c + 1) * d])).fold(f64::INFINITY, f64::min))
        .sum()
}

/// the m_k-means update: every centroid becomes the mean of its assigned points together with
/// its previous position (an empty cluster keeps its position)
fn mk_update(pts: &[Vec<f64>], w: &[f64], assign: &[u8], old: &[f64], k: usize, d: usize) -> Vec<f64> {
    let mut sum = old.to_vec();
    let mut cntv = vec![1.0f64; k];
    for ((p, &a), &w) in pts.iter().zip(assign).zip(w) {
        let a = a as usize;
        for j in 0..d {
            sum[a * d + j] += w * p[j];
        }
        cntv[a] += w;
    }
    for c in 0..k {
        for j in 0..d {
            sum[c * d + j] /= cntv[c];
        }
    }
    sum
}

/// One state of the reference transition system.
#[derive(Clone, Debug)]
struct RState {
    cur: Vec<f64>,
    /// the stop rule fired when this state was produced (it is final for every larger budget)
    stopped: bool,
    /// (centroids before the update that produced `cur`, assignment used by that update)
    preds: Vec<(Vec<f64>, Vec<u8>)>,
}

const MAX_BRANCH: usize = 4096;
const MAX_LEVEL_STATES: usize = 20000;

/// All successors of a state under one reference step. Ties (within `num.tie`) branch; a stop
/// criterion within rounding of the tolerance yields both the stopped and the running variant.
/// For the L1 metric the criterion may be evaluated with the metric's own matrix distance (what
/// the code does) or with the euclidean one (what the rustdoc says): both are admitted.
/// `None` = tie explosion (the trajectory oracle is then skipped for the case and counted).
fn ref_step(s: &RState, pts: &[Vec<f64>], w: &[f64], k: usize, d: usize, met: Met, num: &Num, tol: f64, cnt: &mut Cnt) -> Option<Vec<RState>> {
    if s.stopped {
        return Some(vec![s.clone()]);
    }
    let ts = tie_sets(met, pts, &s.cur, k, d, num.tie);
    let mut prod: usize = 1;
    for t in &ts {
        prod = prod.saturating_mul(t.len());
        if t.len() > 1 {
            cnt.add("ref_tie_branch_points", 1);
        }
    }
    if prod > MAX_BRANCH {
        return None;
    }
    let n = pts.len();
    let mut out = Vec::with_capacity(prod);
    let mut idx = vec![0usize; n];
    loop {
        let assign: Vec<u8> = (0..n).map(|i| ts[i][idx[i]]).collect();
        let new = mk_update(pts, w, &assign, &s.cur, k, d);
        let mut can_stop = false;
        let mut can_run = false;
        let mut crits = vec![mat_dist(met, &s.cur, &new)];
        if met != Met::L2 {
            crits.push(mat_dist(Met::L2, &s.cur, &new));
        }
        for crit in crits {
            let margin = num.rel * tol + num.crit_noise;
            if crit < tol - margin {
                can_stop = true;
            } else if crit > tol + margin {
                can_run = true;
            } else {
                can_stop = true;
                can_run = true;
                cnt.add("ref_stop_rule_within_rounding_of_tolerance", 1);
            }
        }
        for (flag, on) in [(true, can_stop), (false, can_run)] {
            if on {
                out.push(RState { cur: new.clone(), stopped: flag, preds: vec![(s.cur.clone(), assign.clone())] });
            }
        }
        // next index vector
        let mut p = 0;
        loop {
            if p == n {
                return Some(out);
            }
            idx[p] += 1;
            if idx[p] < ts[p].len() {
                break;
            }
            idx[p] = 0;
            p += 1;
        }
    }
}

fn dedup_states(v: Vec<RState>) -> Vec<RState> {
    let mut map: HashMap<(Vec<u64>, bool), usize> = HashMap::new();
    let mut out: Vec<RState> = Vec::new();
    for s in v {
        let key = (s.cur.iter().map(|x| x.to_bits()).collect::<Vec<u64>>(), s.stopped);
        match map.get(&key) {
            Some(&i) => {
                for p in s.preds {
                    if out[i].preds.len() < 16 && !out[i].preds.contains(&p) {
                        out[i].preds.push(p);
                    }
                }
            }
            None => {
                map.insert(key, out.len());
                out.push(s);
            }
        }
    }
    out
}

/// Is `counts` the histogram of SOME nearest-centroid assignment (ties may go either way)?
/// Copies of one point (multiplicity `w`) are identical rows: they all go to the same centroid.
fn feasible_histogram(ts: &[Vec<u8>], w: &[f64], counts: &[i64]) -> bool {
    let mut need = counts.to_vec();
    let mut flex: Vec<(&Vec<u8>, i64)> = Vec::new();
    for (t, &w) in ts.iter().zip(w) {
        if t.len() == 1 {
            need[t[0] as usize] -= w as i64;
        } else {
            flex.push((t, w as i64));
        }
    }
    if need.iter().any(|&x| x < 0) {
        return false;
    }
    fn rec(flex: &[(&Vec<u8>, i64)], i: usize, need: &mut Vec<i64>) -> bool {
        if i == flex.len() {
            return need.iter().all(|&x| x == 0);
        }
        let wi = flex[i].1;
        for &c in flex[i].0.iter() {
            if need[c as usize] >= wi {
                need[c as usize] -= wi;
                if rec(flex, i + 1, need) {
                    need[c as usize] += wi;
                    return true;
                }
                need[c as usize] += wi;
            }
        }
        false
    }
    rec(&flex, 0, &mut need)
}

/// Triage helper: every centroid set P and assignment a such that a is a nearest-centroid
/// assignment under P and the m_k-means update of (P, a) gives `ret` — i.e. the possible states
/// "one update before the returned centroids". Solved exactly: P_c = (n_c + 1) ret_c - S_c.
/// key: (bits of the returned centroids, full search?)
type PredCache = HashMap<(Vec<u64>, bool), Vec<(Vec<f64>, Vec<u8>)>>;

fn predecessors_pass(met: Met, pts: &[Vec<f64>], w: &[f64], ret: &[f64], k: usize, d: usize, num: &Num, hint: Option<&[i64]>) -> Vec<(Vec<f64>, Vec<u8>)> {
    let n = pts.len();
    let total = (k as u64).checked_pow(n as u32).unwrap_or(u64::MAX);
    let mut out = Vec::new();
    if total > 70_000 {
        return out;
    }
    let loose = num.tie * (w.iter().sum::<f64>() + 2.0);
    let mut assign = vec![0u8; n];
    let mut hist = vec![0i64; k];
    for code in 0..total {
        let mut c = code;
        for h in hist.iter_mut() {
            *h = 0;
        }
        for i in 0..n {
            assign[i] = (c % k as u64) as u8;
            hist[assign[i] as usize] += w[i] as i64;
            c /= k as u64;
        }
        if let Some(h) = hint {
            if h != &hist[..] {
                continue;
            }
        }
        let mut p: Vec<f64> = ret.to_vec();
        let mut cn = vec![1.0f64; k];
        for (&a, &w) in assign.iter().zip(w) {
            cn[a as usize] += w;
        }
        for c in 0..k {
            for j in 0..d {
                p[c * d + j] *= cn[c];
            }
        }
        for ((x, &a), &w) in pts.iter().zip(&assign).zip(w) {
            for j in 0..d {
                p[a as usize * d + j] -= w * x[j];
            }
        }
        let ok = pts.iter().zip(&assign).all(|(x, &a)| {
            let mine = rd(met, x, &p[a as usize * d..(a as usize + 1) * d]);
            (0..k).all(|c| mine <= rd(met, x, &p[c * d..(c + 1) * d]) + loose)
        });
        if ok {
            out.push((p, assign.clone()));
            if out.len() >= 256 {
                break;
            }
        }
    }
    out
}

// ------------------------------------------------------------------------------------------
// subject side
// ------------------------------------------------------------------------------------------

/// Xoshiro256Plus that publishes its state after every draw, so that the state reached at the
/// end of a `fit` (which works on a clone) can be read back: run j+1 of a multi-restart fit
/// starts from the state a single-restart fit of run j left behind.
#[derive(Debug)]
struct TapRng {
    inner: Xoshiro256Plus,
    tap: Arc<Mutex<Xoshiro256Plus>>,
}
impl TapRng {
    fn new(state: Xoshiro256Plus) -> TapRng {
        TapRng { tap: Arc::new(Mutex::new(state.clone())), inner: state }
    }
    fn publish(&self) {
        *self.tap.lock().unwrap() = self.inner.clone();
    }
}
impl Clone for TapRng {
    fn clone(&self) -> Self {
        TapRng { inner: self.inner.clone(), tap: self.tap.clone() }
    }
}
impl RngCore for TapRng {
    fn next_u32(&mut self) -> u32 {
        let v = self.inner.next_u32();
        self.publish();
        v
    }
    fn next_u64(&mut self) -> u64 {
        let v = self.inner.next_u64();
        self.publish();
        v
    }
    fn fill_bytes(&mut self, dest: &mut [u8]) {
        self.inner.fill_bytes(dest);
        self.publish();
    }
    fn try_fill_bytes(&mut self, dest: &mut [u8]) -> Result<(), rand::Error> {
        self.inner.try_fill_bytes(dest)?;
        self.publish();
        Ok(())
    }
}

fn to_f64<F: Float>(x: F) -> f64 {
    x.to_f64().unwrap()
}

fn arr<F: Float>(rows: &[Vec<f64>], d: usize) -> Array2<F> {
    Array2::from_shape_fn((rows.len(), d), |(i, j)| F::from(rows[i][j]).unwrap())
}

fn rows64<F: Float>(a: &Array2<F>) -> Vec<Vec<f64>> {
    a.rows().into_iter().map(|r| r.iter().map(|&x| to_f64(x)).collect()).collect()
}

/// What a fitted model reports.
struct Obs {
    shape: (usize, usize),
    flat: Vec<f64>,
    counts: Vec<f64>,
    inertia: f64,
}

fn observe<F: Float, D: Distance<F>>(m: &KMeans<F, D>) -> Obs {
    Obs {
        shape: m.centroids().dim(),
        flat: m.centroids().iter().map(|&x| to_f64(x)).collect(),
        counts: m.cluster_count().iter().map(|&x| to_f64(x)).collect(),
        inertia: to_f64(m.inertia()),
    }
}

#[allow(clippy::too_many_arguments)]
fn fit_once<F: Float, D: Distance<F>, R: rand::Rng + Clone>(
    data: ArrayView2<F>,
    k: usize,
    init: KMeansInit<F>,
    rng: R,
    dist: D,
    n_runs: usize,
    max_iter: u64,
    tol: f64,
) -> Result<KMeans<F, D>, (String, String)> {
    let r = guarded(|| {
        let ds = DatasetBase::from(data);
        KMeans::params_with(k, rng, dist)
            .n_runs(n_runs)
            .max_n_iterations(max_iter)
            .tolerance(F::cast(tol))
            .init_method(init)
            .fit(&ds)
            .map_err(|e| e.to_string())
    });
    match r {
        Ok(Ok(m)) => Ok(m),
        Ok(Err(e)) => Err(("kmeans.fit.unexpected_error".into(), format!("fit on valid input returned Err({})", e))),
        Err(p) => Err(("kmeans.fit.panic".into(), format!("fit on valid input panicked: {}", p))),
    }
}

struct Env<'a, F: Float> {
    case: &'a Case,
    /// the array that is fitted (every row; replicated family: case.data[i] repeated case.mult[i] times)
    data: Array2<F>,
    /// the distinct training rows (== data except in the replicated family), their f64 image and multiplicities
    train: Array2<F>,
    pts: Vec<Vec<f64>>,
    w: Vec<f64>,
    queries: Array2<F>,
    q64: Vec<Vec<f64>>,
    met: Met,
    num: Num,
    n: usize,
    d: usize,
    k: usize,
    lo: Vec<f64>,
    hi: Vec<f64>,
}

impl<'a, F: Float> Env<'a, F> {
    fn cj(&self, at: Value) -> Value {
        let mut v = serde_json::to_value(self.case).unwrap();
        v.as_object_mut().unwrap().insert("at".into(), at);
        v
    }
}

/// predict (batch + single row) and transform against the independent arg-min scan
fn check_assign<F: Float, D: Distance<F>, S: Data<Elem = F>>(
    env: &Env<F>,
    model: &KMeans<F, D>,
    obs: &Obs,
    points: &ArrayBase<S, Ix2>,
    p64: &[Vec<f64>],
    which: &str,
    at: &Value,
    viols: &mut Vec<Violation>,
    cnt: &mut Cnt,
) {
    let (k, d, met) = (env.k, env.d, env.met);
    let np = p64.len();
    let at2 = |extra: Value| -> Value {
        let mut a = at.clone();
        a.as_object_mut().unwrap().insert("points".into(), json!(which));
        a.as_object_mut().unwrap().insert("detail".into(), extra);
        env.cj(a)
    };
    let batch = guarded(|| model.predict(points));
    let batch: Array1<usize> = match batch {
        Ok(b) => b,
        Err(p) => {
            viols.push(Violation::new("kmeans.predict.panic", format!("predict on {} points panicked: {}", which, p), at2(json!(null))));
            return;
        }
    };
    let trans = guarded(|| model.transform(points));
    let trans: Array1<F> = match trans {
        Ok(t) => t,
        Err(p) => {
            viols.push(Violation::new("kmeans.transform.panic", format!("transform on {} points panicked: {}", which, p), at2(json!(null))));
            return;
        }
    };
    // The calling-form and stale-buffer repetitions exercise code paths that do not depend on which
    // fit produced the model: on training rows they run for the first fit of a ladder only (budget 1,
    // first restart, n_runs <= 2), on new points always.
    let first_of_ladder = at.get("budget").map_or(true, |b| b.as_u64() == Some(1))
        && at.get("restart_alone").map_or(true, |r| r.as_u64() == Some(1))
        && at.get("n_runs").map_or(true, |r| r.as_u64().map_or(true, |r| r <= 2));
    let extra_forms = which != "training" || first_of_ladder;
    // ---- the other calling forms of predict (blanket impls of linfa): owned array, owned dataset,
    // &dataset, dataset over an owned copy and its view
    if extra_forms {
        let same_records = |r: &ArrayView2<F>| r.dim() == points.dim() && r.iter().zip(points.iter()).all(|(a, b)| to_f64(*a).to_bits() == to_f64(*b).to_bits());
        let mut forms: Vec<(&str, Result<(Vec<usize>, bool), String>)> = Vec::new();
        forms.push(("owned_array_view", guarded(|| {
            let ds = model.predict(points.view());
            (ds.targets().to_vec(), same_records(&ds.records().view()))
        })));
        forms.push(("owned_dataset", guarded(|| {
            let ds = model.predict(DatasetBase::from(points.view()));
            (ds.targets().to_vec(), same_records(&ds.records().view()))
        })));
        forms.push(("dataset_reference", guarded(|| {
            let ds = DatasetBase::from(points.view());
            let t: Array1<usize> = model.predict(&ds);
            (t.to_vec(), true)
        })));
        forms.push(("owned_dataset_of_owned_copy", guarded(|| {
            let ds = model.predict(DatasetBase::from(points.to_owned()));
            (ds.targets().to_vec(), same_records(&ds.records().view()))
        })));
        forms.push(("reference_to_view_of_dataset", guarded(|| {
            let ds = DatasetBase::from(points.to_owned());
            let v = ds.view();
            let t: Array1<usize> = model.predict(&v);
            (t.to_vec(), true)
        })));
        for (form, r) in forms {
            cnt.add("predict_calling_form_evaluations", 1);
            match r {
                Err(p) => viols.push(Violation::new(
                    "kmeans.predict.panic",
                    format!("predict ({}) on {} {} points panicked: {}", form, np, which, p),
                    at2(json!({"form": form})),
                )),
                Ok((labels, recs_ok)) => {
                    if labels != batch.to_vec() || !recs_ok {
                        viols.push(Violation::new(
                            "kmeans.predict.calling_form_dependence",
                            format!(
                                "predict through the {} form on {} points gives {:?}{}, predict(&array) gives {:?}",
                                form,
                                which,
                                labels,
                                if recs_ok { "" } else { " and does not hand back the records it was given" },
                                batch.to_vec()
                            ),
                            at2(json!({"form": form})),
                        ));
                    }
                }
            }
        }
    }
    // ---- one-row batches through every calling form (a batch of one is not the single-observation form)
    if which == "new" {
        for i in 0..batch.len() {
            let one = points.slice(s![i..i + 1, ..]);
            let want = batch[i];
            let got: Vec<(&str, Result<Vec<usize>, String>)> = vec![
                ("array_reference", guarded(|| { let t: Array1<usize> = model.predict(&one); t.to_vec() })),
                ("owned_array_view", guarded(|| model.predict(one.view()).targets().to_vec())),
                ("owned_dataset", guarded(|| model.predict(DatasetBase::from(one.view())).targets().to_vec())),
                ("dataset_reference", guarded(|| { let ds = DatasetBase::from(one.view()); let t: Array1<usize> = model.predict(&ds); t.to_vec() })),
                ("predict_inplace_poisoned", guarded(|| { let mut b = Array1::from_elem(1, usize::MAX); model.predict_inplace(&one, &mut b); b.to_vec() })),
            ];
            for (form, r) in got {
                cnt.add("predict_one_row_batch_evaluations", 1);
                if r.as_ref().ok() != Some(&vec![want]) {
                    viols.push(Violation::new(
                        "kmeans.predict.calling_form_dependence",
                        format!("one-row batch {:?} through the {} form gives {:?}, the same row inside the full batch gets {}", p64[i], form, r, want),
                        at2(json!({"form": form, "point": p64[i], "one_row": true})),
                    ));
                }
            }
        }
    }
    // ---- in-place entry points on buffers that do NOT come fresh from default_target: pre-filled
    // with poison, pre-filled with a wrong (but valid) label everywhere, reused from another batch
    if extra_forms {
        let k = env.k;
        let mut bufs: Vec<(&str, Array1<usize>)> = vec![
            ("poisoned_with_usize_max", Array1::from_elem(batch.len(), usize::MAX)),
            ("prefilled_with_wrong_labels", batch.mapv(|c| (c + 1) % k.max(2))),
        ];
        // reused: first filled by predict_inplace on the same points in reverse order
        let mut reused = Array1::from_elem(batch.len(), 0usize);
        let rev = points.slice(s![..;-1, ..]);
        let _ = guarded(|| model.predict_inplace(&rev, &mut reused));
        bufs.push(("reused_from_previous_batch", reused));
        for (how, mut buf) in bufs {
            cnt.add("predict_inplace_batch_evaluations", 1);
            match guarded(|| model.predict_inplace(points, &mut buf)) {
                Err(p) => viols.push(Violation::new(
                    "kmeans.predict_inplace.panic",
                    format!("predict_inplace on {} points into a buffer {} panicked: {}", which, how, p),
                    at2(json!({"buffer": how})),
                )),
                Ok(()) => {
                    if buf != batch {
                        viols.push(Violation::new(
                            "kmeans.predict_inplace.stale_buffer_dependence",
                            format!("predict_inplace on {} points into a buffer {} gives {:?}, predict gives {:?}", which, how, buf.to_vec(), batch.to_vec()),
                            at2(json!({"buffer": how})),
                        ));
                    }
                }
            }
        }
    }
    if batch.len() != np || trans.len() != np {
        viols.push(Violation::new(
            "kmeans.predict.wrong_len",
            format!("{} points in, {} labels / {} distances out", np, batch.len(), trans.len()),
            at2(json!(null)),
        ));
        return;
    }
    for i in 0..np {
        let rds: Vec<f64> = (0..k).map(|c| rd(met, &p64[i], &obs.flat[c * d..(c + 1) * d])).collect();
        let best = rds.iter().cloned().fold(f64::INFINITY, f64::min);
        let worst = rds.iter().cloned().fold(0.0, f64::max);
        let ptie = 64.0 * env.num.eps * worst;
        let tied = rds.iter().filter(|&&x| x <= best + ptie).count();
        if tied > 1 {
            cnt.add("predict_points_with_tied_centroids", 1);
        }
        let single = guarded(|| model.predict(&points.row(i)));
        // single observation written into a poisoned / wrong scalar
        if let (Ok(want), true) = (single.clone(), extra_forms) {
            for start in [usize::MAX, (want + 1) % k.max(2)] {
                let mut slot = start;
                cnt.add("predict_inplace_single_evaluations", 1);
                let r = guarded(|| model.predict_inplace(&points.row(i), &mut slot));
                if r.is_err() || slot != want {
                    viols.push(Violation::new(
                        "kmeans.predict_inplace.stale_buffer_dependence",
                        format!("single-observation predict_inplace into a slot holding {} gives {:?} ({}), predict gives {}", start, slot, if r.is_err() { "panicked" } else { "returned" }, want),
                        at2(json!({"point": p64[i], "form": "single_row_inplace"})),
                    ));
                }
            }
        }
        cnt.add("predict_evaluations", 2);
        cnt.add("transform_evaluations", 1);
        for (form, got) in [("batch", Ok(batch[i])), ("single_row", single)] {
            match got {
                Err(p) => viols.push(Violation::new(
                    "kmeans.predict.panic",
                    format!("predict ({}) panicked: {}", form, p),
                    at2(json!({"point": p64[i], "form": form})),
                )),
                Ok(c) if c >= k => viols.push(Violation::new(
                    "kmeans.predict.index_out_of_range",
                    format!("predict ({}) returned {} for k={}", form, c, k),
                    at2(json!({"point": p64[i], "form": form})),
                )),
                Ok(c) => {
                    if rds[c] > best + ptie {
                        viols.push(Violation::new(
                            format!("kmeans.predict.{}.not_nearest", form),
                            format!(
                                "point {:?}: predict ({}) = {} at reduced distance {} but centroid {} is at {} (all: {:?})",
                                p64[i],
                                form,
                                c,
                                rds[c],
                                rds.iter().position(|&x| x == best).unwrap(),
                                best,
                                rds
                            ),
                            at2(json!({"point": p64[i], "form": form})),
                        ));
                    }
                }
            }
        }
        let t = to_f64(trans[i]);
        if !close(t, best, env.num.rel, ptie) {
            let sig = if k > 1 && close(t, rds[0], env.num.rel, ptie) {
                "kmeans.transform.is_distance_to_centroid_0"
            } else if met == Met::L2 && close(t, best.sqrt(), env.num.rel, ptie) {
                "kmeans.transform.is_plain_not_reduced_distance"
            } else {
                "kmeans.transform.wrong_value"
            };
            viols.push(Violation::new(
                sig,
                format!("point {:?}: transform = {} but the minimal reduced distance is {} (all: {:?})", p64[i], t, best, rds),
                at2(json!({"point": p64[i]})),
            ));
        }
    }
}

/// Everything that is demanded of ONE fitted model, whatever produced it.
#[allow(clippy::too_many_arguments)]
fn check_model<F: Float, D: Distance<F>>(
    env: &Env<F>,
    model: &KMeans<F, D>,
    obs: &Obs,
    at: &Value,
    from_data: bool,
    known_preds: Option<&[(Vec<f64>, Vec<u8>)]>,
    other_restart: Option<&Obs>,
    with_queries: bool,
    pcache: &mut PredCache,
    viols: &mut Vec<Violation>,
    cnt: &mut Cnt,
) -> bool {
    let (n, k, d, met) = (env.n, env.k, env.d, env.met);
    let num = &env.num;
    // ---- structure
    if obs.shape != (k, d) || obs.counts.len() != k {
        viols.push(Violation::new(
            "kmeans.fit.wrong_shape",
            format!("centroids {:?} / {} counts for k={} d={}", obs.shape, obs.counts.len(), k, d),
            env.cj(at.clone()),
        ));
        return false;
    }
    if obs.flat.iter().any(|x| !x.is_finite()) {
        viols.push(Violation::new("kmeans.fit.non_finite_centroid", format!("centroids {:?}", obs.flat), env.cj(at.clone())));
        return false;
    }
    if from_data {
        for c in 0..k {
            for j in 0..d {
                let x = obs.flat[c * d + j];
                if x < env.lo[j] - num.ctol || x > env.hi[j] + num.ctol {
                    viols.push(Violation::new(
                        "kmeans.fit.centroid_outside_bounding_box",
                        format!("centroid {} coordinate {} = {} outside [{}, {}] although initialised from the data", c, j, x, env.lo[j], env.hi[j]),
                        env.cj(at.clone()),
                    ));
                    return false;
                }
            }
        }
    }
    // ---- reported inertia describes the returned centroids
    let ts = tie_sets(met, &env.pts, &obs.flat, k, d, num.tie);
    let want = cost(met, &env.pts, &env.w, &obs.flat, k, d) / n as f64;
    // candidates for "the state one update earlier" (triage only). `full == false`: the states of
    // the reference trajectory when known, else only assignments whose histogram equals the
    // reported counts (cheap, and the answer when inertia and counts lag together);
    // `full == true`: all k^n assignments. Callers try the cheap list first.
    let mut preds = |cnt: &mut Cnt, full: bool| -> Vec<(Vec<f64>, Vec<u8>)> {
        if let (Some(p), false) = (known_preds, full) {
            if !p.is_empty() {
                return p.to_vec();
            }
        }
        let key = (obs.flat.iter().map(|x| x.to_bits()).collect::<Vec<u64>>(), full);
        if !pcache.contains_key(&key) {
            cnt.add("predecessor_searches_for_triage", 1);
            let hint: Vec<i64> = obs.counts.iter().map(|&c| c.round() as i64).collect();
            let r = predecessors_pass(met, &env.pts, &env.w, &obs.flat, k, d, num, if full { None } else { Some(&hint) });
            pcache.insert(key.clone(), r);
        }
        pcache[&key].clone()
    };
    let loose_abs = num.tie * (n as f64 + 2.0);
    let loose_rel = num.rel * (n as f64 + 2.0);
    if !obs.inertia.is_finite() || obs.inertia < 0.0 {
        viols.push(Violation::new("kmeans.fit.inertia_not_finite_nonnegative", format!("inertia = {}", obs.inertia), env.cj(at.clone())));
    } else if !close(obs.inertia, want, num.rel.max(n as f64 * num.eps), num.tie) {
        let lag_of = |ps: &Vec<(Vec<f64>, Vec<u8>)>| -> Vec<f64> {
            ps.iter()
                .map(|(p, a)| env.pts.iter().zip(a).zip(&env.w).map(|((x, &c), &w)| w * rd(met, x, &p[c as usize * d..(c as usize + 1) * d])).sum::<f64>() / n as f64)
                .collect()
        };
        let mut lagged = lag_of(&preds(cnt, false));
        if !lagged.iter().any(|&l| close(obs.inertia, l, loose_rel, loose_abs)) {
            lagged = lag_of(&preds(cnt, true));
        }
        if let Some(l) = lagged.iter().find(|&&l| close(obs.inertia, l, loose_rel, loose_abs)) {
            cnt.add("inertia_lagged_cases", 1);
            viols.push(Violation::new(
                "kmeans.fit.inertia_is_cost_of_centroids_before_last_update",
                format!(
                    "reported inertia {} but the returned centroids {:?} have mean cost {}; the reported value is the mean cost {} of the centroids one update earlier",
                    obs.inertia, obs.flat, want, l
                ),
                env.cj(at.clone()),
            ));
        } else {
            viols.push(Violation::new(
                "kmeans.fit.inertia_wrong_value",
                format!("reported inertia {} but the returned centroids {:?} have mean cost {} (cost one update earlier would be one of {:?})", obs.inertia, obs.flat, want, &lagged[..lagged.len().min(4)]),
                env.cj(at.clone()),
            ));
        }
    }
    // ---- reported counts describe the returned centroids
    let ints: Vec<i64> = obs.counts.iter().map(|&c| c.round() as i64).collect();
    let integral = obs.counts.iter().zip(&ints).all(|(&c, &i)| c.is_finite() && c == i as f64 && i >= 0);
    if !integral || ints.iter().sum::<i64>() != n as i64 {
        viols.push(Violation::new(
            "kmeans.fit.cluster_count_not_summing_to_n",
            format!("cluster_count {:?} for n = {}", obs.counts, n),
            env.cj(at.clone()),
        ));
    } else if !feasible_histogram(&ts, &env.w, &ints) {
        let hist_of = |a: &Vec<u8>| -> Vec<i64> {
            let mut h = vec![0i64; k];
            for (&c, &w) in a.iter().zip(&env.w) {
                h[c as usize] += w as i64;
            }
            h
        };
        let own: Vec<i64> = hist_of(&ts.iter().map(|t| t[0]).collect());
        if other_restart.map_or(false, |o| o.counts == obs.counts) {
            cnt.add("counts_from_other_restart_cases", 1);
            viols.push(Violation::new(
                "kmeans.fit.cluster_count_from_last_restart",
                format!(
                    "cluster_count {:?} but the nearest-centroid histogram of the returned centroids {:?} is {:?}; the reported counts are those of the LAST restart (centroids {:?}), not of the restart whose centroids were kept",
                    obs.counts,
                    obs.flat,
                    own,
                    other_restart.unwrap().flat
                ),
                env.cj(at.clone()),
            ));
        } else if preds(cnt, false).iter().any(|(_, a)| hist_of(a) == ints) || preds(cnt, true).iter().any(|(_, a)| hist_of(a) == ints) {
            cnt.add("counts_lagged_cases", 1);
            viols.push(Violation::new(
                "kmeans.fit.cluster_count_is_membership_before_last_update",
                format!(
                    "cluster_count {:?} but the nearest-centroid histogram of the returned centroids {:?} is {:?}; the reported counts are the memberships under the centroids one update earlier",
                    obs.counts, obs.flat, own
                ),
                env.cj(at.clone()),
            ));
        } else {
            viols.push(Violation::new(
                "kmeans.fit.cluster_count_wrong",
                format!("cluster_count {:?} but the nearest-centroid histogram of the returned centroids {:?} is {:?}", obs.counts, obs.flat, own),
                env.cj(at.clone()),
            ));
        }
    }
    if ints.iter().any(|&c| c == 0) {
        cnt.add("fits_reporting_an_empty_cluster", 1);
    }
    // ---- predict / transform
    check_assign(env, model, obs, &env.train, &env.pts, "training", at, viols, cnt);
    if with_queries {
        check_assign(env, model, obs, &env.queries, &env.q64, "new", at, viols, cnt);
    }
    true
}

fn make_env<'a, F: Float>(case: &'a Case, met: Met, extra: &[Vec<f64>]) -> Env<'a, F> {
    let d = case.data[0].len();
    let train: Array2<F> = arr(&case.data, d);
    let pts = rows64(&train);
    let (data, w): (Array2<F>, Vec<f64>) = if case.mult.is_empty() {
        (train.clone(), vec![1.0; pts.len()])
    } else {
        // row order: contiguous blocks per point, or round-robin over the points that still have copies left
        let mut order: Vec<usize> = Vec::new();
        if case.interleave {
            let mut left = case.mult.clone();
            while left.iter().any(|&l| l > 0) {
                for (i, l) in left.iter_mut().enumerate() {
                    if *l > 0 {
                        order.push(i);
                        *l -= 1;
                    }
                }
            }
        } else {
            for (i, &m) in case.mult.iter().enumerate() {
                order.extend(std::iter::repeat(i).take(m));
            }
        }
        (Array2::from_shape_fn((order.len(), d), |(r, j)| train[(order[r], j)]), case.mult.iter().map(|&m| m as f64).collect())
    };
    let n = data.nrows();
    let queries: Array2<F> = arr(&case.queries, d);
    let q64 = rows64(&queries);
    let num = Num::new(case.float == "f32", met, &pts, extra, n, d, case.k);
    let mut lo = vec![f64::INFINITY; d];
    let mut hi = vec![f64::NEG_INFINITY; d];
    for p in &pts {
        for j in 0..d {
            lo[j] = lo[j].min(p[j]);
            hi[j] = hi[j].max(p[j]);
        }
    }
    Env { case, data, train, pts, w, queries, q64, met, num, n, d, k: case.k, lo, hi }
}

fn nontrivial(env_pts: &[Vec<f64>], k: usize) -> bool {
    k >= 2 && env_pts.iter().any(|p| p != &env_pts[0])
}

// ------------------------------------------------------------------------------------------
// memory layouts: the same logical matrix behind different strides
// ------------------------------------------------------------------------------------------

const LAYOUTS: [&str; 8] = [
    "column_major_owned",
    "transposed_view_of_feature_major",
    "reversed_row_view",
    "every_second_row_view",
    // reversed FEATURE axis: every row has stride -1 (and is "contiguous in memory order")
    "reversed_feature_view",
    "reversed_feature_owned",
    "reversed_rows_and_features_view",
    "reversed_rows_and_features_owned",
];

/// Owns the backing storage of one layout variant of a logical n x d matrix.
struct Laid<F: Float> {
    kind: &'static str,
    backing: Array2<F>,
}

impl<F: Float> Laid<F> {
    fn new(kind: &'static str, m: &Array2<F>) -> Laid<F> {
        let (n, d) = m.dim();
        let backing = match kind {
            // owned array in Fortran order
            "column_major_owned" => Array2::from_shape_fn((n, d).f(), |(i, j)| m[(i, j)]),
            // feature-major (d x n) standard array, used through .t()
            "transposed_view_of_feature_major" => Array2::from_shape_fn((d, n), |(j, i)| m[(i, j)]),
            // rows stored in reverse order, used through a negative-stride view
            "reversed_row_view" => Array2::from_shape_fn((n, d), |(i, j)| m[(n - 1 - i, j)]),
            // 2n rows, the odd ones hold poison (NaN), used through a step-2 view
            "every_second_row_view" => Array2::from_shape_fn((2 * n, d), |(i, j)| if i % 2 == 0 { m[(i / 2, j)] } else { F::nan() }),
            // features stored back to front, used through a view with stride -1 along the feature axis
            "reversed_feature_view" => Array2::from_shape_fn((n, d), |(i, j)| m[(i, d - 1 - j)]),
            "reversed_rows_and_features_view" => Array2::from_shape_fn((n, d), |(i, j)| m[(n - 1 - i, d - 1 - j)]),
            // to_owned() of such a view keeps the negative strides: an OWNED array with reversed axes
            "reversed_feature_owned" => Array2::from_shape_fn((n, d), |(i, j)| m[(i, d - 1 - j)]).slice(s![.., ..;-1]).to_owned(),
            "reversed_rows_and_features_owned" => Array2::from_shape_fn((n, d), |(i, j)| m[(n - 1 - i, d - 1 - j)]).slice(s![..;-1, ..;-1]).to_owned(),
            _ => panic!("bad layout"),
        };
        Laid { kind, backing }
    }
    fn view(&self) -> ArrayView2<'_, F> {
        match self.kind {
            "column_major_owned" => self.backing.view(),
            "transposed_view_of_feature_major" => self.backing.t(),
            "reversed_row_view" => self.backing.slice(s![..;-1, ..]),
            "every_second_row_view" => self.backing.slice(s![..;2, ..]),
            "reversed_feature_view" => self.backing.slice(s![.., ..;-1]),
            "reversed_rows_and_features_view" => self.backing.slice(s![..;-1, ..;-1]),
            "reversed_feature_owned" | "reversed_rows_and_features_owned" => self.backing.view(),
            _ => panic!("bad layout"),
        }
    }
}

/// labels (batch), labels (single row), transform of a model on some points; None on panic
fn probe<F: Float, D: Distance<F>>(model: &KMeans<F, D>, pts: ArrayView2<F>) -> Option<(Vec<usize>, Vec<usize>, Vec<f64>)> {
    guarded(|| {
        let b: Array1<usize> = model.predict(&pts);
        let s: Vec<usize> = (0..pts.nrows()).map(|i| model.predict(&pts.row(i))).collect();
        let t: Array1<F> = model.transform(&pts);
        (b.to_vec(), s, t.iter().map(|&x| to_f64(x)).collect())
    })
    .ok()
}

/// Layout sweep of one trajectory-style case: for the budgets 1 and m_max the fit is repeated with the
/// training matrix (and, for the owned column-major variant, the Precomputed centroids) in every
/// layout of LAYOUTS; fitted centroids / counts / inertia must agree with the standard-layout fit,
/// predict / transform of BOTH models on the re-laid-out training and query points must agree with the
/// standard-layout answers and pass the arg-min oracle.
fn layout_sweep<F: Float, D: Distance<F>>(env: &Env<F>, case: &Case, init_f: &Array2<F>, dist: &D, viols: &mut Vec<Violation>, cnt: &mut Cnt) {
    let k = env.k;
    let mut budgets = vec![1usize, case.budgets];
    budgets.dedup();
    let all_pts: Vec<(&str, &Array2<F>, &Vec<Vec<f64>>)> = vec![("training", &env.train, &env.pts), ("new", &env.queries, &env.q64)];
    for &m in &budgets {
        let rng = Xoshiro256Plus::seed_from_u64(42);
        let std_model = match fit_once(env.data.view(), k, KMeansInit::Precomputed(init_f.clone()), rng, dist.clone(), 1, m as u64, case.tol) {
            Ok(x) => x,
            Err(_) => continue, // reported by the main loop
        };
        let std_obs = observe(&std_model);
        let std_probe: Vec<_> = all_pts.iter().map(|(_, a, _)| probe(&std_model, a.view())).collect();
        // the other calling forms of fit: dataset owning its records, dataset carrying targets
        for form in ["dataset_owning_the_records", "dataset_with_targets"] {
            cnt.add("fits", 1);
            cnt.add("fit_calling_form_fits", 1);
            let at = json!({"budget": m, "layout": form});
            let r = guarded(|| {
                let p = KMeans::params_with(k, Xoshiro256Plus::seed_from_u64(42), dist.clone())
                    .n_runs(1)
                    .max_n_iterations(m as u64)
                    .tolerance(F::cast(case.tol))
                    .init_method(KMeansInit::Precomputed(init_f.clone()));
                if form == "dataset_owning_the_records" {
                    p.fit(&DatasetBase::from(env.data.clone())).map_err(|e| e.to_string())
                } else {
                    p.fit(&DatasetBase::new(env.data.view(), Array1::<usize>::from_elem(env.data.nrows(), 7))).map_err(|e| e.to_string())
                }
            });
            match r {
                Ok(Ok(model)) => {
                    if obs_bits(&observe(&model)) != obs_bits(&std_obs) {
                        let o = observe(&model);
                        viols.push(Violation::new(
                            "kmeans.fit.calling_form_dependence",
                            format!("budget {}: fit on a {} gives centroids {:?} counts {:?} inertia {}, fit on a dataset viewing the same records gives {:?} {:?} {}", m, form, o.flat, o.counts, o.inertia, std_obs.flat, std_obs.counts, std_obs.inertia),
                            env.cj(at),
                        ));
                    }
                }
                Ok(Err(e)) => viols.push(Violation::new("kmeans.fit.unexpected_error", format!("fit on a {} returned Err({})", form, e), env.cj(at))),
                Err(pn) => viols.push(Violation::new("kmeans.fit.panic", format!("fit on a {} panicked: {}", form, pn), env.cj(at))),
            }
        }
        // one-feature data: a reversed feature axis of length 1 is the same memory; kept for the small sets only
        let n_layouts = if env.d == 1 && env.pts.len() > 3 { 4 } else { LAYOUTS.len() };
        for kind in LAYOUTS.into_iter().take(n_layouts) {
            cnt.add("fits", 1);
            cnt.add("layout_fits", 1);
            let at = json!({"budget": m, "layout": kind});
            let laid = Laid::new(kind, &env.data);
            // the Precomputed centroids are an owned array: column-major / reversed-axes owned where the data are
            let init_v = match kind {
                "column_major_owned" => Array2::from_shape_fn(init_f.dim().f(), |ij| init_f[ij]),
                "reversed_feature_view" | "reversed_feature_owned" => Laid::new("reversed_feature_owned", init_f).backing,
                "reversed_rows_and_features_view" | "reversed_rows_and_features_owned" => Laid::new("reversed_rows_and_features_owned", init_f).backing,
                _ => init_f.clone(),
            };
            let rng = Xoshiro256Plus::seed_from_u64(42);
            let model = match fit_once(laid.view(), k, KMeansInit::Precomputed(init_v), rng, dist.clone(), 1, m as u64, case.tol) {
                Ok(x) => x,
                Err((sig, what)) => {
                    viols.push(Violation::new(sig, format!("{} (training matrix as {})", what, kind), env.cj(at)));
                    continue;
                }
            };
            let obs = observe(&model);
            let bits = |v: &Vec<f64>| v.iter().map(|x| x.to_bits()).collect::<Vec<u64>>();
            if obs.shape == std_obs.shape && bits(&obs.flat) == bits(&std_obs.flat) && bits(&obs.counts) == bits(&std_obs.counts) && obs.inertia.to_bits() == std_obs.inertia.to_bits() {
                cnt.add("layout_fits_bit_identical", 1);
            } else {
                let cent_ok = obs.shape == std_obs.shape && obs.flat.iter().zip(&std_obs.flat).all(|(a, b)| (a - b).abs() <= env.num.ctol);
                let inert_ok = close(obs.inertia, std_obs.inertia, env.num.rel.max(env.n as f64 * env.num.eps), env.num.tie);
                if cent_ok && inert_ok && obs.counts == std_obs.counts {
                    cnt.add("layout_fits_equal_within_tolerance_only", 1);
                } else {
                    viols.push(Violation::new(
                        "kmeans.fit.layout_dependence",
                        format!(
                            "budget {}: training matrix as {} gives centroids {:?} counts {:?} inertia {}, the standard-layout matrix with the same values gives centroids {:?} counts {:?} inertia {}",
                            m, kind, obs.flat, obs.counts, obs.inertia, std_obs.flat, std_obs.counts, std_obs.inertia
                        ),
                        env.cj(at.clone()),
                    ));
                }
            }
            // prediction-side inputs in the same layout, through the standard-layout model and through this one
            for (pi, (which, a, p64)) in all_pts.iter().enumerate() {
                let laid_p = Laid::new(kind, a);
                let Some((sb, ss, st)) = std_probe[pi].clone() else { continue };
                match probe(&std_model, laid_p.view()) {
                    None => viols.push(Violation::new(
                        "kmeans.predict.panic",
                        format!("predict / transform on {} points as {} panicked", which, kind),
                        env.cj(at.clone()),
                    )),
                    Some((b, sg, t)) => {
                        cnt.add("layout_predict_transform_comparisons", 1);
                        for i in 0..p64.len() {
                            let rds: Vec<f64> = (0..k).map(|c| rd(env.met, &p64[i], &std_obs.flat[c * env.d..(c + 1) * env.d])).collect();
                            let best = rds.iter().cloned().fold(f64::INFINITY, f64::min);
                            let worst = rds.iter().cloned().fold(0.0, f64::max);
                            let ptie = 64.0 * env.num.eps * worst;
                            let tied = rds.iter().filter(|&&x| x <= best + ptie).count() > 1;
                            if (b[i] != sb[i] || sg[i] != ss[i]) && !tied {
                                viols.push(Violation::new(
                                    "kmeans.predict.layout_dependence",
                                    format!(
                                        "same model, {} point {:?}: predict gives {} (batch) / {} (single row) when the input is {} but {} / {} for the standard layout",
                                        which, p64[i], b[i], sg[i], kind, sb[i], ss[i]
                                    ),
                                    env.cj(at.clone()),
                                ));
                                break;
                            }
                            if t[i].to_bits() != st[i].to_bits() && !close(t[i], st[i], env.num.rel, ptie) {
                                viols.push(Violation::new(
                                    "kmeans.transform.layout_dependence",
                                    format!("same model, {} point {:?}: transform gives {} when the input is {} but {} for the standard layout", which, p64[i], t[i], kind, st[i]),
                                    env.cj(at.clone()),
                                ));
                                break;
                            }
                        }
                    }
                }
                // and the arg-min oracle on the layout-fitted model with layout inputs
                let v = laid_p.view();
                // (the one-row-batch forms, keyed on the name "new", run for one re-laid-out variant only)
                let label = match (*which, kind) {
                    ("new", "reversed_feature_view") => "new",
                    ("new", _) => "new (re-laid-out)",
                    _ => "training",
                };
                check_assign(env, &model, &obs, &v, p64, label, &at, viols, cnt);
            }
        }
    }
}

// ------------------------------------------------------------------------------------------
// family 1: trajectories from a precomputed start, lock-step with the reference step
// ------------------------------------------------------------------------------------------

fn run_traj<F: Float, D: Distance<F>>(case: &Case, dist: D, met: Met, viols: &mut Vec<Violation>) -> Cnt {
    let mut cnt = Cnt::default();
    for key in ["trajectory_oracle_skipped_tie_explosion", "trajectory_points_compared", "budget_pairs_cost_compared", "inertia_lagged_cases", "counts_lagged_cases"] {
        cnt.add(key, 0);
    }
    let d = case.data[0].len();
    let init_f: Array2<F> = arr(&case.init, d);
    let init64 = rows64(&init_f);
    let env: Env<F> = make_env(case, met, &init64);
    let (k, m_max) = (env.k, case.budgets);
    let nt = nontrivial(&env.pts, k);
    let distinct = {
        let mut v = env.pts.clone();
        v.sort_by(|a, b| a.partial_cmp(b).unwrap());
        v.dedup();
        v.len()
    };
    if distinct < k {
        cnt.add("cases_with_fewer_distinct_points_than_clusters", 1);
    }

    // ---- reference exploration: levels[m] = states reachable after m transitions
    let start = RState { cur: init64.iter().flatten().cloned().collect(), stopped: false, preds: vec![] };
    let mut levels: Vec<Vec<RState>> = vec![vec![start]];
    let mut traj_ok = true;
    for _m in 1..=m_max + 1 {
        let mut next = Vec::new();
        for s in levels.last().unwrap() {
            match ref_step(s, &env.pts, &env.w, k, env.d, met, &env.num, case.tol, &mut cnt) {
                Some(v) => {
                    if _m <= m_max {
                        cnt.add("ref_transitions", v.len() as u64);
                    }
                    next.extend(v)
                }
                None => {
                    traj_ok = false;
                    break;
                }
            }
        }
        if !traj_ok {
            break;
        }
        let next = dedup_states(next);
        if next.len() > MAX_LEVEL_STATES {
            traj_ok = false;
            break;
        }
        levels.push(next);
    }
    if traj_ok {
        for (m, l) in levels.iter().enumerate() {
            if m <= m_max {
                cnt.add("ref_states", l.len() as u64);
                cnt.add("ref_states_stopped_by_tolerance", l.iter().filter(|s| s.stopped).count() as u64);
            }
        }
        cnt.add("ref_max_states_in_a_level", 0);
        let mx = levels.iter().map(|l| l.len()).max().unwrap_or(0) as u64;
        let e = cnt.0.entry("ref_max_states_in_a_level").or_insert(0);
        *e = (*e).max(mx);
    } else {
        cnt.add("trajectory_oracle_skipped_tie_explosion", 1);
    }

    let matches = |flat: &[f64], level: &Vec<RState>| -> Vec<usize> {
        level
            .iter()
            .enumerate()
            .filter(|(_, s)| s.cur.iter().zip(flat).all(|(a, b)| (a - b).abs() <= env.num.ctol))
            .map(|(i, _)| i)
            .collect()
    };

    // Every budget is run with n_runs = 1, 2, 3: a Precomputed start makes every restart begin at
    // the same centroids, so the result must be a state reached after exactly m updates whatever
    // the restart count (the budget is per restart).
    let mut prev_costs: [Option<(usize, f64)>; 4] = [None; 4];
    let mut pcache: PredCache = HashMap::new();
    for m in 1..=m_max {
      for n_runs in 1..=(if case.kind == "replicated" { 1 } else { 3usize }) {
        let prev_cost = &mut prev_costs[n_runs];
        cnt.add("fits", 1);
        if n_runs > 1 {
            cnt.add("trajectory_fits_with_restarts", 1);
        }
        if nt {
            cnt.add("fits_nontrivial", 1);
        }
        let at = if n_runs == 1 { json!({"budget": m}) } else { json!({"budget": m, "n_runs": n_runs}) };
        let rng = Xoshiro256Plus::seed_from_u64(42);
        let model = match fit_once(env.data.view(), k, KMeansInit::Precomputed(init_f.clone()), rng, dist.clone(), n_runs, m as u64, case.tol) {
            Ok(m) => m,
            Err((sig, what)) => {
                viols.push(Violation::new(sig, what, env.cj(at)));
                continue;
            }
        };
        let obs = observe(&model);
        // ---- lock-step comparison with the reference
        let mut known: Vec<(Vec<f64>, Vec<u8>)> = Vec::new();
        if traj_ok && obs.shape == (k, env.d) && obs.flat.iter().all(|x| x.is_finite()) {
            cnt.add("trajectory_points_compared", 1);
            let hit = matches(&obs.flat, &levels[m]);
            if hit.is_empty() {
                let other: Vec<usize> = (0..levels.len()).filter(|&j| j != m && !matches(&obs.flat, &levels[j]).is_empty()).collect();
                let reach: Vec<&Vec<f64>> = levels[m].iter().take(3).map(|s| &s.cur).collect();
                if let Some(&j) = other.first() {
                    viols.push(Violation::new(
                        "kmeans.fit.stopped_at_unexpected_iteration",
                        format!(
                            "budget {}, n_runs {}: returned centroids {:?} are what the reference reaches after {} updates, not after {} (tolerance {}, reference after {}: {:?})",
                            m, n_runs, obs.flat, j, m, case.tol, m, reach
                        ),
                        env.cj(at.clone()),
                    ));
                } else {
                    viols.push(Violation::new(
                        "kmeans.fit.centroids_differ_from_reference_step",
                        format!(
                            "budget {}, n_runs {}: returned centroids {:?} are not reachable by {} m_k-means updates (mean of assigned points and previous position) from {:?}; reference: {:?} ({} admissible states)",
                            m,
                            n_runs,
                            obs.flat,
                            m,
                            init64,
                            reach,
                            levels[m].len()
                        ),
                        env.cj(at.clone()),
                    ));
                }
            } else {
                for &i in &hit {
                    known.extend(levels[m][i].preds.iter().cloned());
                }
            }
        }
        let ok = check_model(
            &env,
            &model,
            &obs,
            &at,
            case.init_from_data,
            if known.is_empty() { None } else { Some(&known) },
            None,
            n_runs == 1 && (m == 1 || m == m_max),
            &mut pcache,
            viols,
            &mut cnt,
        );
        // ---- cost of the returned centroids never increases with the budget (theorem for L2)
        if ok && met == Met::L2 {
            let c = cost(met, &env.pts, &env.w, &obs.flat, k, env.d);
            if let Some((pm, pc)) = *prev_cost {
                cnt.add("budget_pairs_cost_compared", 1);
                if c < pc - env.n as f64 * env.num.tie {
                    cnt.add("budget_pairs_cost_strictly_decreased", 1);
                }
                let slack = env.n as f64 * env.num.tie + 1e-12 * pc;
                if c > pc + slack {
                    viols.push(Violation::new(
                        "kmeans.fit.cost_increased_with_budget",
                        format!("n_runs {}: cost of the returned centroids is {} after budget {} but {} after budget {}", n_runs, pc, pm, c, m),
                        env.cj(at.clone()),
                    ));
                }
            }
            *prev_cost = Some((m, c));
        }
      }
    }
    if case.layouts {
        layout_sweep(&env, case, &init_f, &dist, viols, &mut cnt);
    }
    cnt
}

// ------------------------------------------------------------------------------------------
// family 2: seeded initialisers, iteration caps and restarts
// ------------------------------------------------------------------------------------------

fn run_seeded<F: Float, D: Distance<F>>(case: &Case, dist: D, met: Met, viols: &mut Vec<Violation>) -> Cnt {
    let mut cnt = Cnt::default();
    for key in ["restart_pairs_compared", "counts_from_other_restart_cases", "inertia_lagged_although_stopped_by_tolerance_not_by_cap"] {
        cnt.add(key, 0);
    }
    let env: Env<F> = make_env(case, met, &[]);
    let k = env.k;
    let nt = nontrivial(&env.pts, k);
    let init = || -> KMeansInit<F> {
        match case.init_kind.as_str() {
            "random" => KMeansInit::Random,
            "kmeans++" => KMeansInit::KMeansPlusPlus,
            "kmeans||" => KMeansInit::KMeansPara,
            _ => panic!("bad init kind"),
        }
    };
    let seed_state = Xoshiro256Plus::seed_from_u64(case.seed);
    let mut pcache: PredCache = HashMap::new();
    // single-restart fits of run 1, 2, .. R (run j starts from the generator state run j-1 left)
    let mut singles: Vec<Option<Obs>> = Vec::new();
    let mut state = seed_state.clone();
    for j in 1..=case.max_runs {
        cnt.add("fits", 1);
        if nt {
            cnt.add("fits_nontrivial", 1);
        }
        let at = json!({"restart_alone": j});
        let rng = TapRng::new(state.clone());
        let tap = rng.tap.clone();
        match fit_once(env.data.view(), k, init(), rng, dist.clone(), 1, case.max_iter, case.tol) {
            Ok(model) => {
                let obs = observe(&model);
                let before = cnt.get("inertia_lagged_cases");
                check_model(&env, &model, &obs, &at, true, None, None, j == 1, &mut pcache, viols, &mut cnt);
                if case.max_iter >= 300 {
                    // m_k-means on <= 8 points contracts by >= 1/9 per step: 300 updates are never reached
                    cnt.add("inertia_lagged_although_stopped_by_tolerance_not_by_cap", cnt.get("inertia_lagged_cases") - before);
                }
                singles.push(Some(obs));
            }
            Err((sig, what)) => {
                viols.push(Violation::new(sig, what, env.cj(at)));
                singles.push(None);
            }
        }
        state = tap.lock().unwrap().clone();
    }
    // fits with r = 2..R restarts from the same seed
    let mut prev_inertia: Option<(usize, f64)> = singles[0].as_ref().map(|o| (1, o.inertia));
    for r in 2..=case.max_runs {
        cnt.add("fits", 1);
        if nt {
            cnt.add("fits_nontrivial", 1);
        }
        let at = json!({"n_runs": r});
        let rng = TapRng::new(seed_state.clone());
        match fit_once(env.data.view(), k, init(), rng, dist.clone(), r, case.max_iter, case.tol) {
            Ok(model) => {
                let obs = observe(&model);
                // triage aid only: the single-restart result of the last restart, when the kept
                // centroids are not the ones of that restart
                let last = singles[r - 1].as_ref().filter(|l| l.flat != obs.flat);
                if last.is_some() {
                    cnt.add("multi_restart_fits_keeping_an_earlier_restart", 1);
                }
                check_model(&env, &model, &obs, &at, true, None, last, r == case.max_runs, &mut pcache, viols, &mut cnt);
                if let Some((pr, pi)) = prev_inertia {
                    cnt.add("restart_pairs_compared", 1);
                    if obs.inertia < pi {
                        cnt.add("restart_pairs_inertia_improved", 1);
                    }
                    if !(obs.inertia <= pi) {
                        viols.push(Violation::new(
                            "kmeans.fit.more_restarts_higher_inertia",
                            format!("same seed: n_runs = {} reports inertia {} but n_runs = {} reports {}", pr, pi, r, obs.inertia),
                            env.cj(at.clone()),
                        ));
                    }
                }
                prev_inertia = Some((r, obs.inertia));
            }
            Err((sig, what)) => {
                viols.push(Violation::new(sig, what, env.cj(at)));
            }
        }
    }
    // budget ladder with restarts (L2): the same seed gives every restart the same start whatever
    // the budget, each restart's own cost is non-increasing in the budget (m_k-means theorem), the
    // restart of minimal cost is returned, hence the cost of the returned centroids is
    // non-increasing in the budget for n_runs > 1 as well.
    if case.ladder > 0 && met == Met::L2 {
        let mut rs = vec![2usize, case.max_runs];
        rs.dedup();
        for r in rs {
            let mut prev: Option<(usize, f64)> = None;
            for m in 1..=case.ladder {
                cnt.add("fits", 1);
                cnt.add("seeded_budget_ladder_fits", 1);
                if nt {
                    cnt.add("fits_nontrivial", 1);
                }
                let at = json!({"budget": m, "n_runs": r, "ladder": true});
                let rng = TapRng::new(seed_state.clone());
                match fit_once(env.data.view(), k, init(), rng, dist.clone(), r, m as u64, case.tol) {
                    Ok(model) => {
                        let obs = observe(&model);
                        if !check_model(&env, &model, &obs, &at, true, None, None, false, &mut pcache, viols, &mut cnt) {
                            continue;
                        }
                        let c = cost(met, &env.pts, &env.w, &obs.flat, k, env.d);
                        if let Some((pm, pc)) = prev {
                            cnt.add("seeded_budget_pairs_cost_compared", 1);
                            if c < pc - env.n as f64 * env.num.tie {
                                cnt.add("seeded_budget_pairs_cost_strictly_decreased", 1);
                            }
                            if c > pc + env.n as f64 * env.num.tie + 1e-12 * pc {
                                viols.push(Violation::new(
                                    "kmeans.fit.cost_increased_with_budget",
                                    format!(
                                        "{} seed {} n_runs {}: cost of the returned centroids is {} after budget {} but {} after budget {}",
                                        case.init_kind, case.seed, r, pc, pm, c, m
                                    ),
                                    env.cj(at.clone()),
                                ));
                            }
                        }
                        prev = Some((m, c));
                    }
                    Err((sig, what)) => viols.push(Violation::new(sig, what, env.cj(at))),
                }
            }
        }
    }
    cnt
}

// ------------------------------------------------------------------------------------------
// family: builder history (setter orders, decoy-then-real writes, constructors)
// ------------------------------------------------------------------------------------------

const SETTERS: [&str; 4] = ["n_runs", "tolerance", "max_n_iterations", "init_method"];

struct ParamSet<F: Float> {
    n_runs: usize,
    tol: F,
    max_iter: u64,
    init: KMeansInit<F>,
    decoy_n_runs: usize,
    decoy_tol: F,
    decoy_max_iter: u64,
    decoy_init: KMeansInit<F>,
}

fn apply_setter<F: Float, R: rand::Rng + Clone, D: Distance<F>>(p: KMeansParams<F, R, D>, ps: &ParamSet<F>, field: usize, decoy: bool) -> KMeansParams<F, R, D> {
    match (field, decoy) {
        (0, false) => p.n_runs(ps.n_runs),
        (0, true) => p.n_runs(ps.decoy_n_runs),
        (1, false) => p.tolerance(ps.tol),
        (1, true) => p.tolerance(ps.decoy_tol),
        (2, false) => p.max_n_iterations(ps.max_iter),
        (2, true) => p.max_n_iterations(ps.decoy_max_iter),
        (3, false) => p.init_method(ps.init.clone()),
        (3, true) => p.init_method(ps.decoy_init.clone()),
        _ => panic!("bad setter"),
    }
}

/// all sequences: the 24 orders of the real writes; for each order and each field the decoy write of
/// that field first; for each order all four decoys first
fn builder_sequences() -> Vec<Vec<(usize, bool)>> {
    let mut out = Vec::new();
    for perm in en::permutations(4) {
        let real: Vec<(usize, bool)> = perm.iter().map(|&f| (f, false)).collect();
        out.push(real.clone());
        for f in 0..4 {
            // decoy immediately before the real write of the same field and at the very beginning
            let mut a = vec![(f, true)];
            a.extend(real.iter().cloned());
            out.push(a);
            let pos = real.iter().position(|x| x.0 == f).unwrap();
            if pos > 0 {
                let mut b = real.clone();
                b.insert(pos, (f, true));
                out.push(b);
            }
        }
        let mut all: Vec<(usize, bool)> = (0..4).map(|f| (f, true)).collect();
        all.extend(real.iter().cloned());
        out.push(all);
    }
    out
}

fn seq_name(seq: &[(usize, bool)]) -> String {
    seq.iter().map(|&(f, d)| format!("{}{}", SETTERS[f], if d { "(decoy)" } else { "" })).collect::<Vec<_>>().join(",")
}

fn param_set<F: Float>(case: &Case, d: usize) -> ParamSet<F> {
    let init = match case.init_kind.as_str() {
        "precomputed" => KMeansInit::Precomputed(arr(&case.init, d)),
        "random" => KMeansInit::Random,
        "kmeans++" => KMeansInit::KMeansPlusPlus,
        _ => panic!("bad init kind"),
    };
    ParamSet {
        n_runs: case.max_runs,
        tol: F::cast(case.tol),
        max_iter: case.max_iter,
        decoy_n_runs: if case.max_runs == 5 { 2 } else { 5 },
        decoy_tol: F::cast(0.5),
        decoy_max_iter: if case.max_iter == 1 { 7 } else { 1 },
        decoy_init: if case.init_kind == "random" { KMeansInit::KMeansPlusPlus } else { KMeansInit::Random },
        init,
    }
}

/// getters of the checked parameters against the literal final parameter set
fn getter_mismatch<F: Float, D: Distance<F> + PartialEq + std::fmt::Debug>(
    p: &KMeansParams<F, Xoshiro256Plus, D>,
    ps: &ParamSet<F>,
    k: usize,
    rng: Option<&Xoshiro256Plus>,
    dist: &D,
) -> Option<String> {
    let v = match p.check_ref() {
        Ok(v) => v,
        Err(e) => return Some(format!("check_ref() of a valid final parameter set returned Err({})", e)),
    };
    let mut bad = Vec::new();
    if v.n_runs() != ps.n_runs {
        bad.push(format!("n_runs() = {} (set: {})", v.n_runs(), ps.n_runs));
    }
    if v.tolerance() != ps.tol {
        bad.push(format!("tolerance() = {} (set: {})", v.tolerance(), ps.tol));
    }
    if v.max_n_iterations() != ps.max_iter {
        bad.push(format!("max_n_iterations() = {} (set: {})", v.max_n_iterations(), ps.max_iter));
    }
    if v.n_clusters() != k {
        bad.push(format!("n_clusters() = {} (constructed with {})", v.n_clusters(), k));
    }
    if v.init_method() != &ps.init {
        bad.push(format!("init_method() = {:?} (set: {:?})", v.init_method(), ps.init));
    }
    if let Some(r) = rng {
        if v.rng() != r {
            bad.push("rng() is not the generator given to the constructor".to_string());
        }
    }
    if v.dist_fn() != dist {
        bad.push(format!("dist_fn() = {:?} (constructed with {:?})", v.dist_fn(), dist));
    }
    if bad.is_empty() {
        None
    } else {
        Some(bad.join("; "))
    }
}

fn fit_params<F: Float, D: Distance<F>>(p: &KMeansParams<F, Xoshiro256Plus, D>, data: &Array2<F>) -> Result<KMeans<F, D>, String> {
    match guarded(|| p.fit(&DatasetBase::from(data.view())).map_err(|e| e.to_string())) {
        Ok(Ok(m)) => Ok(m),
        Ok(Err(e)) => Err(format!("Err({})", e)),
        Err(pn) => Err(format!("panic: {}", pn)),
    }
}

fn obs_bits(o: &Obs) -> (Vec<u64>, Vec<u64>, u64) {
    (o.flat.iter().map(|x| x.to_bits()).collect(), o.counts.iter().map(|x| x.to_bits()).collect(), o.inertia.to_bits())
}

/// `alt`: the other constructors of the same logical parameters (L2 only): (name, fresh params, rng known?)
fn run_builder<F: Float, D: Distance<F> + PartialEq + std::fmt::Debug>(
    case: &Case,
    dist: D,
    met: Met,
    alt: Vec<(&'static str, KMeansParams<F, Xoshiro256Plus, D>, bool)>,
    viols: &mut Vec<Violation>,
) -> Cnt {
    let mut cnt = Cnt::default();
    let env: Env<F> = make_env(case, met, &[]);
    let k = env.k;
    let ps: ParamSet<F> = param_set(case, env.d);
    let rng = Xoshiro256Plus::seed_from_u64(case.seed);
    let nt = nontrivial(&env.pts, k);
    let fresh = || KMeans::params_with(k, rng.clone(), dist.clone());
    // documented defaults of a fresh builder (rustdoc of KMeansParams::new)
    let defaults = ParamSet { n_runs: 10, tol: F::cast(1e-4), max_iter: 300, init: KMeansInit::KMeansPlusPlus, decoy_n_runs: 0, decoy_tol: F::zero(), decoy_max_iter: 0, decoy_init: KMeansInit::Random };
    let mut ctors: Vec<(&'static str, KMeansParams<F, Xoshiro256Plus, D>, bool)> = vec![("params_with", fresh(), true)];
    ctors.extend(alt);
    // ---- canonical: params_with, setters in declaration order
    let canon_seq: Vec<(usize, bool)> = (0..4).map(|f| (f, false)).collect();
    let mut canon = fresh();
    for &(f, d) in &canon_seq {
        canon = apply_setter(canon, &ps, f, d);
    }
    cnt.add("fits", 1);
    if nt {
        cnt.add("fits_nontrivial", 1);
    }
    let at0 = json!({"sequence": "canonical"});
    let canon_model = match fit_params(&canon, &env.data) {
        Ok(m) => m,
        Err(e) => {
            viols.push(Violation::new("kmeans.fit.unexpected_error", format!("fit with a valid parameter set failed: {}", e), env.cj(at0)));
            return cnt;
        }
    };
    let canon_obs = observe(&canon_model);
    let mut pcache: PredCache = HashMap::new();
    check_model(&env, &canon_model, &canon_obs, &at0, true, None, None, true, &mut pcache, viols, &mut cnt);
    if let Some(msg) = getter_mismatch(&canon, &ps, k, Some(&rng), &dist) {
        viols.push(Violation::new("kmeans.params.builder_order_dependence", format!("canonical order {}: {}", seq_name(&canon_seq), msg), env.cj(at0.clone())));
    }
    let canon_bits = obs_bits(&canon_obs);
    let seqs = builder_sequences();
    for (cname, base, rng_known) in ctors.iter() {
        // fresh builder: documented defaults
        cnt.add("constructor_default_checks", 1);
        if let Some(msg) = getter_mismatch(base, &defaults, k, if *rng_known { Some(&rng) } else { None }, &dist) {
            viols.push(Violation::new(
                "kmeans.params.constructor_dependence",
                format!("fresh KMeans::{}(..): {} (documented defaults: n_runs 10, tolerance 1e-4, max_n_iterations 300, KMeansPlusPlus)", cname, msg),
                env.cj(json!({"sequence": format!("{}:fresh", cname)})),
            ));
        }
        // the other constructors run the canonical order and (thorough work is in params_with) a rotation of the sequences
        let my_seqs: Vec<&Vec<(usize, bool)>> = if *cname == "params_with" { seqs.iter().collect() } else { seqs.iter().step_by(7).collect() };
        for seq in my_seqs {
            let sig = if *cname == "params_with" { "kmeans.params.builder_order_dependence" } else { "kmeans.params.constructor_dependence" };
            let name = format!("{}:{}", cname, seq_name(seq));
            let at = json!({"sequence": name});
            let mut p = base.clone();
            for &(f, d) in seq.iter() {
                p = apply_setter(p, &ps, f, d);
            }
            cnt.add("builder_sequences_checked", 1);
            if let Some(msg) = getter_mismatch(&p, &ps, k, if *rng_known { Some(&rng) } else { None }, &dist) {
                viols.push(Violation::new(sig, format!("KMeans::{}(..) then {}: {}", cname, seq_name(seq), msg), env.cj(at.clone())));
                continue;
            }
            if *rng_known && p != canon {
                viols.push(Violation::new(sig, format!("KMeans::{}(..) then {}: parameter struct differs from the canonical order although every getter agrees", cname, seq_name(seq)), env.cj(at.clone())));
                continue;
            }
            // the generator of KMeans::params(k) is not ours: results are comparable only when the
            // initialisation does not draw (Precomputed)
            if !*rng_known && case.init_kind != "precomputed" {
                continue;
            }
            cnt.add("fits", 1);
            cnt.add("builder_fits", 1);
            if nt {
                cnt.add("fits_nontrivial", 1);
            }
            match fit_params(&p, &env.data) {
                Ok(m) => {
                    let o = observe(&m);
                    if obs_bits(&o) != canon_bits {
                        viols.push(Violation::new(
                            sig,
                            format!(
                                "KMeans::{}(..) then {}: fit gives centroids {:?} counts {:?} inertia {}, the canonical order (same final parameters) gives {:?} {:?} {}",
                                cname,
                                seq_name(seq),
                                o.flat,
                                o.counts,
                                o.inertia,
                                canon_obs.flat,
                                canon_obs.counts,
                                canon_obs.inertia
                            ),
                            env.cj(at.clone()),
                        ));
                    }
                }
                Err(e) => viols.push(Violation::new("kmeans.fit.unexpected_error", format!("KMeans::{}(..) then {}: fit failed: {}", cname, seq_name(seq), e), env.cj(at))),
            }
        }
    }
    cnt
}

fn run_case(case: &Case, viols: &mut Vec<Violation>) -> Cnt {
    if case.kind == "builder" {
        let rng = Xoshiro256Plus::seed_from_u64(case.seed);
        return match (case.float.as_str(), case.metric.as_str()) {
            ("f64", "L2") => run_builder::<f64, _>(case, L2Dist, Met::L2, vec![("params_with_rng", KMeans::params_with_rng(case.k, rng), true), ("params", KMeans::params(case.k), false)], viols),
            ("f32", "L2") => run_builder::<f32, _>(case, L2Dist, Met::L2, vec![("params_with_rng", KMeans::params_with_rng(case.k, rng), true), ("params", KMeans::params(case.k), false)], viols),
            ("f64", "L1") => run_builder::<f64, _>(case, L1Dist, Met::L1, vec![], viols),
            ("f64", "Lp3") => run_builder::<f64, _>(case, LpDist(3.0f64), Met::Lp3, vec![], viols),
            _ => panic!("bad builder case"),
        };
    }
    fn go<F: Float, D: Distance<F>>(case: &Case, dist: D, met: Met, viols: &mut Vec<Violation>) -> Cnt {
        if case.kind != "seeded" {
            run_traj::<F, D>(case, dist, met, viols)
        } else {
            run_seeded::<F, D>(case, dist, met, viols)
        }
    }
    match (case.float.as_str(), case.metric.as_str()) {
        ("f64", "L2") => go::<f64, _>(case, L2Dist, Met::L2, viols),
        ("f64", "L1") => go::<f64, _>(case, L1Dist, Met::L1, viols),
        ("f32", "L2") => go::<f32, _>(case, L2Dist, Met::L2, viols),
        ("f32", "L1") => go::<f32, _>(case, L1Dist, Met::L1, viols),
        ("f64", "Linf") => go::<f64, _>(case, LInfDist, Met::LInf, viols),
        ("f32", "Linf") => go::<f32, _>(case, LInfDist, Met::LInf, viols),
        ("f64", "Lp3") => go::<f64, _>(case, LpDist(3.0f64), Met::Lp3, viols),
        ("f32", "Lp3") => go::<f32, _>(case, LpDist(3.0f32), Met::Lp3, viols),
        _ => panic!("bad case"),
    }
}

/// The subject parallelises with rayon; k-means|| seeds one generator per rayon job, so its result
/// depends on how the pool splits the work. Every case (and every replay) therefore runs inside a
/// pool of exactly one thread: the exploration is deterministic (schedules are C20's subject).
fn one_thread_pool() -> rayon::ThreadPool {
    rayon::ThreadPoolBuilder::new().num_threads(1).build().expect("rayon pool")
}

fn replay_value(v: &Value) -> Vec<Violation> {
    let c: Case = match serde_json::from_value(v.clone()) {
        Ok(c) => c,
        Err(e) => {
            println!("MACHINERY-ERROR replay case does not parse: {}", e);
            std::process::exit(2);
        }
    };
    let at = v.get("at").cloned();
    let mut out = Vec::new();
    one_thread_pool().install(|| {
        run_case(&c, &mut out);
    });
    if let Some(at) = at {
        // keep the violations of the recorded fit (budget / restart count)
        let key = |a: &Value| (a.get("budget").cloned(), a.get("restart_alone").cloned(), a.get("n_runs").cloned(), a.get("layout").cloned(), a.get("sequence").cloned());
        let want = key(&at);
        out.retain(|x| x.case.get("at").map(|a| key(a) == want).unwrap_or(false));
    }
    out
}

// ------------------------------------------------------------------------------------------
// enumeration
// ------------------------------------------------------------------------------------------

fn image(name: &str, x: f64) -> f64 {
    match name {
        "id" => x,
        "off1e3" => x + 1000.0,
        "scale1e-3" => x * 1e-3,
        "off1e3_scale1e-3" => 1000.0 + x * 1e-3,
        _ => panic!("bad image"),
    }
}

struct DataSet {
    family: String,
    base: Vec<Vec<f64>>, // lattice coordinates before the affine image
    dim: usize,
}

fn base_queries(dim: usize) -> Vec<Vec<f64>> {
    let mut q = Vec::new();
    if dim == 1 {
        for i in 0..=8 {
            q.push(vec![i as f64 * 0.5]);
        }
        q.push(vec![100.0]);
    } else {
        for a in 0..=4 {
            for b in 0..=4 {
                q.push(vec![a as f64 * 0.5, b as f64 * 0.5]);
            }
        }
        q.push(vec![-50.0, 75.0]);
    }
    q
}

/// centroid sets that are not data points (half-lattice positions; the second set has one far
/// centroid that never attracts a point, i.e. a permanently empty cluster)
fn off_data_inits(dim: usize, k: usize) -> Vec<Vec<Vec<f64>>> {
    let (a, b): (Vec<Vec<f64>>, Vec<Vec<f64>>) = if dim == 1 {
        (
            vec![vec![0.5], vec![2.5], vec![3.5], vec![1.5]],
            vec![vec![9.0], vec![1.5], vec![0.25], vec![3.75]],
        )
    } else {
        (
            vec![vec![0.5, 0.5], vec![1.5, 0.5], vec![0.5, 1.5], vec![1.5, 1.5]],
            vec![vec![7.0, -5.0], vec![1.0, 0.5], vec![0.25, 1.75], vec![1.75, 0.25]],
        )
    };
    vec![a[..k].to_vec(), b[..k].to_vec()]
}

fn main() {
    let ctx = Ctx::new("C09", Level::ModelChecking);
    ctx.maybe_replay(&replay_value);
    let thorough = ctx.thorough();

    // ---------------- bounds
    let n1_max = ctx.pick(5, 8); // 1-D multisets of {0..4}
    let n1_all_images = ctx.pick(5, 7); // larger multisets: identity image only
    let n2_max = ctx.pick(4, 6); // subsets of the 3x3 lattice
    let k_max = ctx.pick(3, 4);
    let budgets = ctx.pick(6, 12);
    let seeds: u64 = ctx.pick(4, 16);
    let max_runs = ctx.pick(3, 4);
    let ladder = ctx.pick(6, 8); // seeded family: budgets of the restart ladder
    let tols = [1e-4, 1e-2];
    let iter_caps: Vec<u64> = if thorough { vec![1, 2, 3, 300] } else { vec![1, 3, 300] };

    ctx.set_rule(&format!(
        "datasets: every multiset of 1..={n1} points of {{0..4}} (1-D, duplicates) and every subset of 1..={n2} points of the 3x3 lattice (2-D), \
         under the affine images id, +1e3 (budgets <= 6 in f32), x1e-3 (f32 and f64) and 1e3+1e-3x (f64 only); 1-D multisets of more than {n1a} points under the identity image only; metrics L2, L1 (+ Linf, Lp(3) on the 2-D sets; seeded family: identity image only for these two); k = 1..min(n,{k}). \
         trajectory cases = dataset x float x metric x k x Precomputed start (EVERY distinct k-sub-multiset of the data rows + 2 off-data starts, one with a permanently empty cluster) x tolerance {{1e-4,1e-2}}; \
         per case the real fit runs with max_n_iterations(m) and n_runs(1), n_runs(2), n_runs(3) (same start for every restart, so the same answer is demanded) for every m = 1..={b} and is compared with the set of states the reference m_k-means step reaches after m transitions (ties branch). \
         seeded cases = dataset (id image; all images for n<=3) x float x metric x k x {{random, kmeans++, kmeans||}} x seed 0..{s} x iteration cap {caps:?}, tolerance 1e-4; per case single-restart fits of restart 1..={r} and fits with n_runs = 2..={r} from the same seed; for L2 and every (dataset, initialiser, seed) additionally fits with n_runs in {{2, {r}}} for every budget 1..={lad}, cost of the returned centroids compared along the budgets. \
         replicated cases = every set of 2..3 distinct points of {{0..4}} (1-D) and of {{(0,0),(0,1),(1,0),(1,1),(2,2)}} (2-D) under the images id and +1e3, every point repeated so that n is one of {{1024, 1025, 2049, 3000}} (thorough: also 1023, 2048, 4097; remainder to the first point), rows contiguous per point or round-robin, f64, L2 (thorough: + L1), k = 1..min(p,3), every k-subset of the distinct points as Precomputed start, budgets 1..=3, n_runs(1): same lock-step oracle with the reference step working on (point, multiplicity) pairs (copies of a point are identical rows and go to the same centroid), predict / transform on the distinct points. \
         wide cases = 3 point sets of 6 points (hand-built axes set, generic-position lattice + jitter, sparse) in d = 4, 5, 6, 7, 9, 16, 17, 33, 40 features, at scale 1 and scale 0.125 (sub-unit distances), x {{L2, L1, Linf, Lp(3)}} x f64 (+ f32 for d = 5, 17) x k = 2..3 x every k-subset of the points as Precomputed start, budgets 1..=2, n_runs 1..3, same oracles (queries: pairwise midpoints, origin, far point). \
         layout sweep (trajectory cases under the identity image with tolerance 1e-4, replicated f64 contiguous cases with n = 1025 (thorough: + 4097), every wide case): for the budgets 1 and max the fit is repeated with the training matrix as column-major owned array (Precomputed centroids column-major too), transposed view of a feature-major array, reversed-row view of a reversed copy, every-second-row view of a 2n-row array whose odd rows are NaN, reversed FEATURE axis and reversed rows + features, each as a view and as an owned array with negative strides (to_owned of the view; the Precomputed centroids get the same reversed-axes owned form; one-feature sets of more than 3 rows skip these four), and through a dataset that owns its records and a dataset that carries targets; centroids / counts / inertia must equal the standard-layout fit, predict (batch, single row) / transform of both models on the equally re-laid-out training and query points must equal the standard-layout answers and pass the arg-min oracle. replicated cases also in f32 under the identity image (quick: n = 1025). \
         builder cases = a rotation of the 4-point 1-D multisets and 3x3-lattice subsets x {{f64 L2, f32 L2, f64 L1, f64 Lp(3)}} x init {{Precomputed, Random, k-means++}} x n_runs {{1,3}} x tolerance {{1e-4,1e-2}} x max_n_iterations {{1,2,300}}, k = 2: from KMeans::params_with every one of the 24 orders of the setters n_runs / tolerance / max_n_iterations / init_method, each order additionally with a decoy write of one field (at the very beginning and directly before its real write) and with decoy writes of all four fields first; from KMeans::params_with_rng and KMeans::params (L2) every 7th of those sequences; fresh builders must show the documented defaults, the getters of check_ref() must equal the final logical parameter set, the parameter struct must equal the canonically built one and the fit must be bit-identical to the canonical order (KMeans::params only with a Precomputed start: its generator is not ours). \
         every batch predict is additionally repeated through the other calling forms (owned array, owned dataset, &dataset, owned dataset of an owned copy, &view of a dataset): labels must equal predict(&array) exactly and the records must be handed back unchanged; every query row additionally as a ONE-ROW batch through each form. \
         every batch predict is additionally repeated through predict_inplace into a buffer poisoned with usize::MAX, a buffer pre-filled with wrong labels and a buffer reused from a differently ordered batch, every single-row predict through predict_inplace into a poisoned and into a wrong slot: must equal the plain form exactly. \
         k-means|| box cases = n = d mutually distant points c*1 + e_i in d = 8, 16, 24, 40, the full 3x3 lattice and the line 0..19, each shifted by c in {{0.1, 5, -3}} so that the origin lies outside the bounding box in every coordinate, x f32/f64 x k in {{2,3,5}} x seeds x cap {{1,300}}, 2 restarts: invariants only (bounding box, finite, describes-returned, predict / transform). \
         evaluations = fits of the real code; non-trivial = fits with k >= 2 on data with >= 2 distinct rows; every fitted model additionally gets predict (batch, single row) / transform evaluations on its training rows and on the lattice + half-lattice + far query points (first and last fit of a case). \
         states / transitions = distinct reference states (centroid set, stopped flag) per level / reference steps.",
        lad = ladder, n1 = n1_max, n1a = n1_all_images, n2 = n2_max, k = k_max, b = budgets, s = seeds, caps = iter_caps, r = max_runs
    ));
    ctx.assume("reference = plain f64 m_k-means step (nearest centroid under the metric's reduced distance, centroid := mean of assigned points and previous position) on the coordinates as rounded to the subject's float type; stop rule = matrix distance between consecutive centroid sets < tolerance (for L1 / Linf / Lp(3) either the metric's own or the euclidean matrix distance is admitted, rustdoc says euclidean, code uses the metric); reduced distance = squared distance for L2, the distance itself for L1, Linf, Lp(3)");
    ctx.assume("ties: reduced distances closer than tie = 4*diam*e_c + 64*eps*diam^2 (e_c = 2(n+2)*eps*max|coord|, eps = machine epsilon of the float type) are treated as tied; the reference branches over every tie resolution and the implementation may follow any branch; a step whose ties multiply to > 4096 branches (or a level of > 20000 states) switches the trajectory oracle off for the case (counted)");
    ctx.assume("centroid equality with a reference state: max abs coordinate difference <= max(rel*max|coord|, 4 e_c), rel = 1e-9 (f64) / 1e-4 (f32); inertia vs recomputed mean cost: rel + tie absolute; a stop criterion within rel*tol + 2 e_c sqrt(kd) of the tolerance admits both stopping and continuing");
    ctx.assume("cost monotonicity (L2 only, a theorem for m_k-means): cost(m+1) <= cost(m) + n*tie + 1e-12*cost(m), cost recomputed by the harness from the returned centroids; for L1, Linf and Lp(3) only the recurrence is checked (no monotonicity claim); asserted for n_runs = 1, 2, 3 from a Precomputed start and for n_runs > 1 from seeded starts (same seed => same start of every restart whatever the budget; the minimum over restarts of non-increasing costs is non-increasing)");
    ctx.assume("restart monotonicity is compared exactly (<=) on the reported values; k-means|| draws per-rayon-job generators, every case runs in its own 1-thread rayon pool so results are schedule independent (schedules are C20's subject)");
    ctx.assume("layouts: results are expected bit-identical to the standard-layout run (counted); a run that is not bit-identical but within the centroid / inertia / transform tolerances above is counted separately and not reported; labels may differ only on points whose centroids are tied; inertia relative tolerance is max(rel, n*eps) (matters for n >= 1024 in f32 only)");
    ctx.assume("predict: any centroid within 64*eps*(largest reduced distance of the point) of the minimum is accepted; cluster_count must be the histogram of SOME nearest-centroid assignment of the training rows to the returned centroids (tie sets, exact feasibility search)");
    ctx.assume("triage signatures: 'before_last_update' is assigned only when the reported value equals the cost / histogram of a centroid set P with update(P) = returned centroids (P known from the reference trajectory, or solved exactly from P_c = (n_c+1) C_c - S_c over all k^n assignments); 'from_last_restart' only when the counts equal those of a single-restart fit of the last restart started from the read-back generator state");

    // ---------------- datasets
    let mut sets: Vec<DataSet> = Vec::new();
    for ms in en::multisets_upto(5, 1, n1_max, n1_max) {
        sets.push(DataSet { family: "1d_multiset".into(), base: ms.iter().map(|&i| vec![i as f64]).collect(), dim: 1 });
    }
    let lat = en::lattice_points(2, 3);
    for ss in en::subsets_upto(9, 1, n2_max) {
        sets.push(DataSet { family: "lattice3x3".into(), base: ss.iter().map(|&i| lat[i].iter().map(|&v| v as f64).collect()).collect(), dim: 2 });
    }
    ctx.extra("datasets_before_images", json!(sets.len()));

    let mut cases: Vec<Case> = Vec::new();
    let (mut n_traj, mut n_seeded) = (0u64, 0u64);
    for ds in &sets {
        let n = ds.base.len();
        for float in ["f64", "f32"] {
            let mut images = vec!["id", "off1e3", "scale1e-3"];
            if float == "f64" {
                images.push("off1e3_scale1e-3");
            }
            if ds.dim == 1 && n > n1_all_images {
                images.truncate(1);
            }
            for img in images {
                let map = |rows: &Vec<Vec<f64>>| -> Vec<Vec<f64>> { rows.iter().map(|r| r.iter().map(|&x| image(img, x)).collect()).collect() };
                let data = map(&ds.base);
                let queries = map(&base_queries(ds.dim));
                let family = format!("{}/{}", ds.family, img);
                // in one dimension Linf and Lp coincide with L1: the two extra metrics run on the 2-D sets
                let metrics: Vec<&str> = if ds.dim == 2 { vec!["L2", "L1", "Linf", "Lp3"] } else { vec!["L2", "L1"] };
                for metric in metrics {
                    for k in 1..=n.min(k_max) {
                        // ---- trajectory cases
                        let mut inits: Vec<(Vec<Vec<f64>>, bool)> = Vec::new();
                        let mut seen: Vec<Vec<Vec<f64>>> = Vec::new();
                        for sub in en::k_subsets(n, k) {
                            let c: Vec<Vec<f64>> = sub.iter().map(|&i| ds.base[i].clone()).collect();
                            if !seen.contains(&c) {
                                seen.push(c.clone());
                                inits.push((map(&c), true));
                            }
                        }
                        for c in off_data_inits(ds.dim, k) {
                            inits.push((map(&c), false));
                        }
                        for (init, from_data) in inits {
                            for &tol in &tols {
                                cases.push(Case {
                                    kind: "trajectory".into(),
                                    family: family.clone(),
                                    data: data.clone(),
                                    float: float.into(),
                                    metric: metric.into(),
                                    k,
                                    tol,
                                    queries: queries.clone(),
                                    init: init.clone(),
                                    init_from_data: from_data,
                                    // the +1e3 image in f32 has a coarse tie margin (centroid rounding error ~1e-3
                                    // against unit spacing): near-ties persist and the reference branches at every
                                    // step, so the budget stays at the quick bound there
                                    budgets: if float == "f32" && img == "off1e3" { budgets.min(6) } else { budgets },
                                    ladder: 0,
                                    mult: vec![],
                                    interleave: false,
                                    layouts: img == "id" && tol == tols[0],
                                    init_kind: String::new(),
                                    seed: 0,
                                    max_runs: 0,
                                    max_iter: 0,
                                });
                                n_traj += 1;
                            }
                        }
                        // ---- seeded cases
                        if (img == "id" || n <= 3) && (img == "id" || metric == "L2" || metric == "L1") {
                            for init_kind in ["random", "kmeans++", "kmeans||"] {
                                for seed in 0..seeds {
                                    for &cap in &iter_caps {
                                        cases.push(Case {
                                            kind: "seeded".into(),
                                            family: family.clone(),
                                            data: data.clone(),
                                            float: float.into(),
                                            metric: metric.into(),
                                            k,
                                            tol: 1e-4,
                                            queries: queries.clone(),
                                            init: vec![],
                                            init_from_data: true,
                                            budgets: 0,
                                            init_kind: init_kind.into(),
                                            seed,
                                            max_runs,
                                            max_iter: cap,
                                            ladder: if cap == iter_caps[0] && metric == "L2" { ladder } else { 0 },
                                            mult: vec![],
                                            interleave: false,
                                            layouts: false,
                                        });
                                        n_seeded += 1;
                                    }
                                }
                            }
                        }
                    }
                }
            }
        }
    }
    // ---------------- replicated family: few distinct points, n just below / at / above multiples of 1024
    // (an update step that works block-wise, chunk-wise or in parallel reductions must still count the
    // previous centroid exactly once). Reference = the same m_k-means step on (point, multiplicity) pairs.
    let mut n_repl = 0u64;
    {
        let mut bases: Vec<(String, Vec<Vec<f64>>, usize)> = Vec::new();
        for ss in en::subsets_upto(5, 2, 3) {
            bases.push(("1d_set".into(), ss.iter().map(|&i| vec![i as f64]).collect(), 1));
        }
        let pool2: Vec<Vec<f64>> = vec![vec![0.0, 0.0], vec![0.0, 1.0], vec![1.0, 0.0], vec![1.0, 1.0], vec![2.0, 2.0]];
        for ss in en::subsets_upto(5, 2, 3) {
            bases.push(("2d_set".into(), ss.iter().map(|&i| pool2[i].clone()).collect(), 2));
        }
        let totals: Vec<usize> = if thorough { vec![1023, 1024, 1025, 2048, 2049, 3000, 4097] } else { vec![1024, 1025, 2049, 3000] };
        let metrics: Vec<&str> = if thorough { vec!["L2", "L1"] } else { vec!["L2"] };
        for (fam, base, dim) in &bases {
            let p = base.len();
            for img in ["id", "off1e3"] {
                let map = |rows: &Vec<Vec<f64>>| -> Vec<Vec<f64>> { rows.iter().map(|r| r.iter().map(|&x| image(img, x)).collect()).collect() };
                for &total in &totals {
                    // every point total / p copies, the remainder goes to the first point
                    let mut mult = vec![total / p; p];
                    mult[0] += total % p;
                    // f32: identity image only (at +1e3 the f32 rounding error of a sum of thousands of rows
                    // exceeds the point spacing), quick: n = 1025 only
                    let mut floats = vec!["f64"];
                    if img == "id" && (thorough || total == 1025) {
                        floats.push("f32");
                    }
                    for float in floats {
                    for interleave in [false, true] {
                        for metric in &metrics {
                            for k in 1..=p.min(3) {
                                for sub in en::k_subsets(p, k) {
                                    let init: Vec<Vec<f64>> = sub.iter().map(|&i| base[i].clone()).collect();
                                    cases.push(Case {
                                        kind: "replicated".into(),
                                        family: format!("{}x{}/{}", fam, total, img),
                                        data: map(base),
                                        float: float.into(),
                                        metric: metric.to_string(),
                                        k,
                                        tol: 1e-4,
                                        queries: map(&base_queries(*dim)),
                                        init: map(&init),
                                        init_from_data: true,
                                        budgets: 3,
                                        init_kind: String::new(),
                                        seed: 0,
                                        max_runs: 0,
                                        max_iter: 0,
                                        ladder: 0,
                                        mult: mult.clone(),
                                        interleave,
                                        layouts: float == "f64" && !interleave && (total == 1025 || (thorough && total == 4097)),
                                    });
                                    n_repl += 1;
                                }
                            }
                        }
                    }
                    }
                }
            }
        }
    }
    ctx.extra("cases_replicated", json!(n_repl));

    // ---------------- wide family: d in {16, 17, 33, 40} features, all four metrics. The reduced distance
    // of Linf / Lp is NOT a sum over feature blocks; the point sets put the differences to the competing
    // centroids into different 16-feature blocks so that the true nearest centroid differs from what any
    // block-wise accumulation would pick.
    let mut n_wide = 0u64;
    for &dw in &[4usize, 5, 6, 7, 9, 16, 17, 33, 40] {
      for wscale in [1.0f64, 0.125] {
        let unit = |pairs: &[(usize, f64)]| -> Vec<f64> {
            let mut v = vec![0.0; dw];
            for &(j, x) in pairs {
                v[j.min(dw - 1)] += x;
            }
            v
        };
        let mut wsets: Vec<(&str, Vec<Vec<f64>>)> = Vec::new();
        // A: hand-built: origin is Linf/Lp-nearest to e_0 + e_{d-1} (1 resp. 2^(1/3)) but 1.5 e_1 wins a block sum (1 + 1)
        wsets.push((
            "wide_axes",
            vec![
                unit(&[(1, 1.5)]),
                unit(&[(0, 1.0), (dw - 1, 1.0)]),
                unit(&[]),
                unit(&[(5, 0.25)]),
                unit(&[(0, 1.0), (dw - 1, 1.0), (3, 0.125)]),
                unit(&[(dw - 2, 2.0), (2, 0.5)]),
            ],
        ));
        // B: generic position: lattice values {0,1,2} + constant jitter table in every coordinate
        wsets.push((
            "wide_generic",
            (0..6usize).map(|i| (0..dw).map(|j| ((i * 7 + j * 3 + i * j) % 3) as f64 + en::jitter(i, j)).collect()).collect(),
        ));
        // C: sparse: point i has (i+1)/2 at coordinates i, 16+i, 32+i (those that exist)
        wsets.push((
            "wide_sparse",
            (0..6usize)
                .map(|i| {
                    let mut v = vec![0.0; dw];
                    for b in 0..3 {
                        let j = 16 * b + i;
                        if j < dw {
                            v[j] = (i as f64 + 1.0) * 0.5 + 0.0625 * b as f64;
                        }
                    }
                    v
                })
                .collect(),
        ));
        for (fam, pts) in &wsets {
            // sub-unit image: every coordinate x 0.125 (exact in binary), distances well below 1
            let pts: &Vec<Vec<f64>> = &pts.iter().map(|r| r.iter().map(|&x| x * wscale).collect()).collect();
            let np = pts.len();
            // queries: every pairwise midpoint, the origin, a far point
            let mut queries: Vec<Vec<f64>> = Vec::new();
            for a in 0..np {
                for b in a + 1..np {
                    queries.push((0..dw).map(|j| (pts[a][j] + pts[b][j]) / 2.0).collect());
                }
            }
            queries.push(vec![0.0; dw]);
            queries.push((0..dw).map(|j| if j % 2 == 0 { 100.0 } else { -75.0 }).collect());
            let floats: Vec<&str> = if dw == 17 || dw == 5 { vec!["f64", "f32"] } else { vec!["f64"] };
            for float in floats {
                for metric in ["L2", "L1", "Linf", "Lp3"] {
                    for k in 2..=3usize {
                        for sub in en::k_subsets(np, k) {
                            cases.push(Case {
                                kind: "wide".into(),
                                family: format!("{}/d{}/x{}", fam, dw, wscale),
                                data: pts.clone(),
                                float: float.into(),
                                metric: metric.into(),
                                k,
                                tol: 1e-4,
                                queries: queries.clone(),
                                init: sub.iter().map(|&i| pts[i].clone()).collect(),
                                init_from_data: true,
                                budgets: 2,
                                init_kind: String::new(),
                                seed: 0,
                                max_runs: 0,
                                max_iter: 0,
                                ladder: 0,
                                mult: vec![],
                                interleave: false,
                                layouts: true,
                            });
                            n_wide += 1;
                        }
                    }
                }
            }
        }
    }
      }
    ctx.extra("cases_wide", json!(n_wide));

    // ---------------- k-means|| with the origin OUTSIDE the bounding box: the initialiser works on a
    // candidate buffer that is only partly filled; rows it never wrote are all-zero and must not take part.
    // Data: n = d mutually distant points c*1 + e_i (every point is farther from the others than from the
    // origin when c is small) and shifted lattices; only invariants are compared (bounding box, finite,
    // describes-returned, predict / transform), no trajectories.
    let mut n_para = 0u64;
    {
        let mut psets: Vec<(String, Vec<Vec<f64>>)> = Vec::new();
        for &c in &[0.1f64, 5.0, -3.0] {
            for &dd in &[8usize, 16, 24, 40] {
                psets.push((format!("distant_points/d{}/shift{}", dd, c), (0..dd).map(|i| (0..dd).map(|j| c + if i == j { 1.0 } else { 0.0 }).collect()).collect()));
            }
            psets.push((format!("lattice3x3_full/shift{}", c), lat.iter().map(|p| p.iter().map(|&v| v as f64 + c).collect()).collect()));
            psets.push((format!("line_0..19/shift{}", c), (0..20).map(|i| vec![i as f64 + c]).collect()));
        }
        let pseeds: u64 = ctx.pick(8, 32);
        for (fam, data) in &psets {
            let dd = data[0].len();
            let n = data.len();
            let mut queries: Vec<Vec<f64>> = vec![vec![0.0; dd], (0..dd).map(|j| if j % 2 == 0 { 100.0 } else { -75.0 }).collect()];
            for a in 0..n.min(4) {
                queries.push((0..dd).map(|j| (data[a][j] + data[(a + 1) % n][j]) / 2.0).collect());
            }
            for float in ["f64", "f32"] {
                for k in [2usize, 3, 5] {
                    for seed in 0..pseeds {
                        for &cap in &[1u64, 300] {
                            cases.push(Case {
                                kind: "seeded".into(),
                                family: fam.clone(),
                                data: data.clone(),
                                float: float.into(),
                                metric: "L2".into(),
                                k,
                                tol: 1e-4,
                                queries: queries.clone(),
                                init: vec![],
                                init_from_data: true,
                                budgets: 0,
                                init_kind: "kmeans||".into(),
                                seed,
                                max_runs: 2,
                                max_iter: cap,
                                ladder: 0,
                                mult: vec![],
                                interleave: false,
                                layouts: false,
                            });
                            n_para += 1;
                        }
                    }
                }
            }
        }
    }
    ctx.extra("cases_kmeans_para_origin_outside_box", json!(n_para));

    // ---------------- builder family: setter orders, decoy-then-real writes, constructors
    let mut n_builder = 0u64;
    {
        let mut bsets: Vec<(String, Vec<Vec<f64>>, usize)> = Vec::new();
        for ms in en::multisets(5, 4, 2).into_iter().step_by(ctx.pick(9, 3)) {
            bsets.push(("1d_multiset/id".into(), ms.iter().map(|&i| vec![i as f64]).collect(), 1));
        }
        for ss in en::k_subsets(9, 4).into_iter().step_by(ctx.pick(21, 6)) {
            bsets.push(("lattice3x3/id".into(), ss.iter().map(|&i| lat[i].iter().map(|&v| v as f64).collect()).collect(), 2));
        }
        ctx.extra("builder_datasets", json!(bsets.len()));
        ctx.extra("builder_sequences_per_constructor", json!(builder_sequences().len()));
        for (fam, data, dim) in &bsets {
            for (float, metric) in [("f64", "L2"), ("f32", "L2"), ("f64", "L1"), ("f64", "Lp3")] {
                if *dim == 1 && metric == "Lp3" {
                    continue;
                }
                for init_kind in ["precomputed", "random", "kmeans++"] {
                    for &n_runs in &[1usize, 3] {
                        for &tol in &tols {
                            for &max_iter in &[1u64, 2, 300] {
                                cases.push(Case {
                                    kind: "builder".into(),
                                    family: fam.clone(),
                                    data: data.clone(),
                                    float: float.into(),
                                    metric: metric.into(),
                                    k: 2,
                                    tol,
                                    queries: base_queries(*dim),
                                    init: if init_kind == "precomputed" { vec![data[0].clone(), data[3].clone()] } else { vec![] },
                                    init_from_data: true,
                                    budgets: 0,
                                    init_kind: init_kind.into(),
                                    seed: 7,
                                    max_runs: n_runs,
                                    max_iter,
                                    ladder: 0,
                                    mult: vec![],
                                    interleave: false,
                                    layouts: false,
                                });
                                n_builder += 1;
                            }
                        }
                    }
                }
            }
        }
    }
    ctx.extra("cases_builder", json!(n_builder));
    ctx.extra("cases_enumerated", json!(cases.len()));
    ctx.extra("cases_trajectory", json!(n_traj));
    ctx.extra("cases_seeded", json!(n_seeded));

    // ---------------- sweep: own worker threads, each with a private 1-thread rayon pool
    let next = AtomicUsize::new(0);
    let done = AtomicU64::new(0);
    let skipped = AtomicU64::new(0);
    let totals: Mutex<BTreeMap<&'static str, u64>> = Mutex::new(BTreeMap::new());
    let times: Mutex<BTreeMap<String, u64>> = Mutex::new(BTreeMap::new());
    let workers = std::thread::available_parallelism().map(|x| x.get()).unwrap_or(4);
    std::thread::scope(|s| {
        for _ in 0..workers {
            s.spawn(|| {
                let pool = one_thread_pool();
                let mut local = Cnt::default();
                let mut local_time: BTreeMap<String, u64> = BTreeMap::new();
                loop {
                    let i = next.fetch_add(1, Ordering::Relaxed);
                    if i >= cases.len() {
                        break;
                    }
                    if ctx.over_budget() {
                        skipped.fetch_add(1, Ordering::Relaxed);
                        continue;
                    }
                    let c = &cases[i];
                    let mut v = Vec::new();
                    let t0 = std::time::Instant::now();
                    let cnt = pool.install(|| run_case(c, &mut v));
                    let us = t0.elapsed().as_micros() as u64;
                    {
                        let key = format!("{} {} {} {}", c.kind, c.float, c.family, c.metric);
                        *local_time.entry(key).or_insert(0) += us;
                    }
                    ctx.evals(cnt.get("fits"), cnt.get("fits_nontrivial"));
                    if c.kind != "seeded" {
                        ctx.add_states(cnt.get("ref_states"), cnt.get("ref_transitions"), cnt.get("trajectory_points_compared"));
                    }
                    for _ in 0..cnt.get("trajectory_oracle_skipped_tie_explosion") {
                        ctx.indeterminate();
                    }
                    ctx.violations(v);
                    for (k, n) in cnt.0.iter() {
                        if *k == "ref_max_states_in_a_level" {
                            let e = local.0.entry(k).or_insert(0);
                            *e = (*e).max(*n);
                        } else {
                            local.add(k, *n);
                        }
                    }
                    done.fetch_add(1, Ordering::Relaxed);
                    ctx.sample(|| {
                        json!({"kind": c.kind, "family": c.family, "data": c.data, "float": c.float, "metric": c.metric, "k": c.k, "tol": c.tol,
                               "init": c.init, "init_kind": c.init_kind, "seed": c.seed, "max_iter": c.max_iter, "budgets": c.budgets, "max_runs": c.max_runs, "mult": c.mult, "interleave": c.interleave})
                    });
                }
                {
                    let mut tt = times.lock().unwrap();
                    for (k, us) in local_time {
                        *tt.entry(k).or_insert(0) += us;
                    }
                }
                let mut t = totals.lock().unwrap();
                for (k, n) in local.0 {
                    if k == "ref_max_states_in_a_level" {
                        let e = t.entry(k).or_insert(0);
                        *e = (*e).max(n);
                    } else {
                        *t.entry(k).or_insert(0) += n;
                    }
                }
            });
        }
    });
    let sk = skipped.load(Ordering::Relaxed);
    if sk > 0 {
        ctx.capped(&format!("k-means sweep: wall cap hit, {} of {} cases not run", sk, cases.len()));
    }
    let completed = done.load(Ordering::Relaxed);
    ctx.extra("cases_completed", json!(completed));
    if sk == 0 && completed != cases.len() as u64 {
        println!("MACHINERY-ERROR {} cases enumerated but {} completed", cases.len(), completed);
        std::process::exit(2);
    }
    for (k, n) in totals.lock().unwrap().iter() {
        ctx.extra(k, json!(n));
    }
    let secs: BTreeMap<String, f64> = times.lock().unwrap().iter().map(|(k, us)| (k.clone(), (*us as f64 / 1e4).round() / 100.0)).collect();
    ctx.extra("cpu_seconds_by_family", json!(secs));
    ctx.finish(&replay_value);
}
